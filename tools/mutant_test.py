#!/usr/bin/env python3
"""Checker self-validation: apply each stored mutant / benign variant to a scratch copy of the
current /repo and run the property's rules against it.

  tools/mutant_test.py [ID ...] [--jobs N] [--only substr]

A mutant file /verif/mutants/<ID>/<name>.patch starts with header lines
  # expect: <substring of a violation key>      (mutants)
  # expect: silent                              (benign variants)
  # props: C05,C06                              (optional: also run these)
Exit 1 if a mutant is missed or a benign variant raises an alarm (SELFTEST-MISS / SELFTEST-FALSE-ALARM).
"""
import os, sys, subprocess, tempfile, shutil, json, re
from concurrent.futures import ThreadPoolExecutor
V = os.path.dirname(os.path.dirname(os.path.abspath(__file__)))

def run_one(pid, patch):
    hdr = {}
    for line in open(patch):
        m = re.match(r"#\s*(\w+):\s*(.*)", line)
        if m: hdr[m.group(1)] = m.group(2).strip()
        elif not line.startswith("#"): break
    expect = hdr.get("expect", "")
    props = [p.strip() for p in hdr.get("props", pid).split(",")]
    d = tempfile.mkdtemp(prefix="vmut.", dir="/tmp")
    try:
        subprocess.run(["rsync", "-a", "--exclude", "target", "--exclude", ".git", "/repo/", d + "/"], check=True)
        body = "".join(l for l in open(patch) if not l.startswith("# "))
        r = subprocess.run(["patch", "-p1", "--no-backup-if-mismatch", "-s"], input=body, text=True, cwd=d,
                           stdout=subprocess.PIPE, stderr=subprocess.STDOUT)
        if r.returncode != 0:
            return (pid, patch, "SKIP", "patch does not apply: " + r.stdout.strip()[:200])
        out = ""
        for p in props:
            r = subprocess.run([os.path.join(V, "check"), p, "--repo", d, "--no-write"], stdout=subprocess.PIPE,
                               stderr=subprocess.STDOUT, text=True, cwd=V)
            out += r.stdout
        viol = [l for l in out.splitlines() if l.strip().startswith("violated ")]
        if "fact extraction failed" in out:
            return (pid, patch, "SKIP", "mutant does not compile")
        if expect == "silent":
            if viol:
                return (pid, patch, "FALSE-ALARM", viol[0][:300])
            return (pid, patch, "OK", "silent")
        if expect.startswith("known-false-alarm"):
            # a behaviour-preserving variant on which a rule is known to fail closed (listed in DESIGN §9.9): still an alarm
            # the checks should not raise; kept so that the day it goes silent — or alarms elsewhere — is noticed
            want = expect.split(None, 1)[1] if " " in expect else ""
            if not viol:
                return (pid, patch, "OK", "silent now (update the header to `expect: silent`)")
            other = [l for l in viol if want and want not in l]
            if other and not any(want in l for l in viol):
                return (pid, patch, "FALSE-ALARM", "not the documented one: " + other[0][:260])
            return (pid, patch, "KNOWN", viol[0].strip()[:200])
        hit = [l for l in viol if expect in l]
        if hit:
            return (pid, patch, "OK", hit[0].strip()[:200])
        return (pid, patch, "MISS", "expected a violation containing %r; got %d other(s): %s%s" % (expect, len(viol), viol[:1],
                "" if viol else " | output tail: " + " / ".join(out.splitlines()[-3:])[:300]))
    finally:
        shutil.rmtree(d, ignore_errors=True)

def main():
    args = [a for a in sys.argv[1:] if not a.startswith("--")]
    jobs = 4
    only = None
    skip = None
    for i, a in enumerate(sys.argv):
        if a == "--jobs": jobs = int(sys.argv[i + 1])
        if a == "--only": only = sys.argv[i + 1]
        if a == "--skip": skip = sys.argv[i + 1]
    args = [a for a in args if a not in (str(jobs), only, skip)]
    root = os.path.join(V, "mutants")
    todo = []
    for pid in sorted(os.listdir(root)):
        if args and pid not in args: continue
        for f in sorted(os.listdir(os.path.join(root, pid))):
            if f.endswith(".patch") and (only is None or only in f) and (skip is None or skip not in f):
                todo.append((pid, os.path.join(root, pid, f)))
    bad = 0
    with ThreadPoolExecutor(max_workers=jobs) as ex:
        for pid, patch, st, detail in ex.map(lambda t: run_one(*t), todo):
            tag = {"OK": "ok", "MISS": "SELFTEST-MISS", "FALSE-ALARM": "SELFTEST-FALSE-ALARM", "SKIP": "skipped",
                   "KNOWN": "known-false-alarm"}[st]
            print("%-22s %s %-40s %s" % (tag, pid, os.path.basename(patch), detail))
            if st in ("MISS", "FALSE-ALARM"): bad += 1
    print("selftest: %d variants, %d problem(s)" % (len(todo), bad))
    return 1 if bad else 0
if __name__ == "__main__":
    sys.exit(main())
