#!/usr/bin/env python3
"""mkmut2.py ID name expect file old1 new1 [old2 new2 ...] — multi-replacement mutant generator."""
import sys, os, subprocess, tempfile, shutil
ID, name, expect, file = sys.argv[1:5]
pairs = sys.argv[5:]
s = open("/repo/" + file).read()
t = s
for i in range(0, len(pairs), 2):
    if pairs[i] not in t: sys.exit("OLD text %d not found" % (i // 2))
    t = t.replace(pairs[i], pairs[i + 1], 1)
d = tempfile.mkdtemp()
os.makedirs(os.path.join(d, "a", os.path.dirname(file))); os.makedirs(os.path.join(d, "b", os.path.dirname(file)))
open(os.path.join(d, "a", file), "w").write(s); open(os.path.join(d, "b", file), "w").write(t)
r = subprocess.run(["diff", "-u", "a/" + file, "b/" + file], cwd=d, stdout=subprocess.PIPE, text=True)
os.makedirs("/verif/mutants/" + ID, exist_ok=True)
open("/verif/mutants/%s/%s.patch" % (ID, name), "w").write("# expect: %s\n" % expect + r.stdout)
shutil.rmtree(d)
print(name, len(r.stdout.splitlines()))
