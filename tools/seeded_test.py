#!/usr/bin/env python3
"""Re-run the checks against every stored seeded change (seeded/<id>/patch.diff) on a scratch copy of the current /repo.
A change whose meta.json says caught_by "-" is expected to stay unreported (declared miss). Exit 1 on any surprise.
  tools/seeded_test.py [--jobs N] [ID ...]"""
import os, sys, json, subprocess, tempfile, shutil, re
from concurrent.futures import ThreadPoolExecutor
V = os.path.dirname(os.path.dirname(os.path.abspath(__file__)))

def run_one(sid):
    d0 = os.path.join(V, "seeded", sid)
    meta = json.load(open(os.path.join(d0, "meta.json")))
    prop = meta["property"]
    caught = meta.get("caught_by", "-")
    d = tempfile.mkdtemp(prefix="vseed.", dir="/tmp")
    try:
        subprocess.run(["rsync", "-a", "--exclude", "target", "--exclude", ".git", "/repo/", d + "/"], check=True)
        r = subprocess.run(["patch", "-p1", "--no-backup-if-mismatch", "-s", "-i", os.path.join(d0, "patch.diff")], cwd=d,
                           stdout=subprocess.PIPE, stderr=subprocess.STDOUT, text=True)
        if r.returncode != 0:
            return sid, "STALE", "patch no longer applies: " + r.stdout.strip()[:150]
        props = sorted({prop} | set(re.findall(r"\b(C\d\d)\.", caught)))
        out = ""
        for p in props:
            out += subprocess.run([os.path.join(V, "check"), p, "--repo", d, "--no-write"], stdout=subprocess.PIPE,
                                  stderr=subprocess.STDOUT, text=True, cwd=V).stdout
        viol = [l.strip() for l in out.splitlines() if l.strip().startswith("violated ")]
        if "fact extraction failed" in out:
            return sid, "SKIP", "does not compile against the current tree"
        if caught.strip() == "-":
            return (sid, "OK", "declared miss, still unreported") if not viol else (sid, "NOTE", "declared miss now reported: " + viol[0][:160])
        return (sid, "OK", viol[0][:170]) if viol else (sid, "MISS", "no violation reported (meta says %s)" % caught[:80])
    finally:
        shutil.rmtree(d, ignore_errors=True)

def main():
    jobs = 4
    args = sys.argv[1:]
    if "--jobs" in args:
        i = args.index("--jobs"); jobs = int(args[i + 1]); del args[i:i + 2]
    ids = args or sorted(os.listdir(os.path.join(V, "seeded")))
    bad = 0
    with ThreadPoolExecutor(jobs) as ex:
        for sid, st, msg in ex.map(run_one, ids):
            print("%-6s %-7s %s" % (st, sid, msg))
            bad += st in ("MISS", "STALE")
    print("seeded: %d changes, %d problem(s)" % (len(ids), bad))
    sys.exit(1 if bad else 0)
main()
