#!/bin/bash
# usage: confirm_seeded.sh <seed-id> <worktree> [props...]
# Confirms an independently written breaking change: clean tree passes the demo, patched tree builds,
# passes the whole suite and fails the demo. Then runs the /verif checks against the patched worktree.
# Results are appended to /verif/seeded/<id>/confirm.log ; the worktree is left clean.
ID=$1; WT=$2; shift 2
D=/verif/seeded/$ID; mkdir -p $D
cp $WT/SEEDED/patch.diff $D/patch.diff
for f in $WT/SEEDED/*; do b=$(basename $f); [ "$b" != patch.diff ] && cp -r $f $D/; done
LOG=$D/confirm.log; : > $LOG
cd $WT || exit 2
git checkout -q -- . ; git status --short | grep -v "^??" && { echo "worktree not clean" | tee -a $LOG; exit 2; }
export CARGO_NET_OFFLINE=true; export TMPDIR=/tmp/tmp-$(basename $WT); mkdir -p $TMPDIR
echo "== demo on clean tree (expect exit 0)" | tee -a $LOG
bash $D/demo.sh $WT >> $LOG 2>&1; A=$?; echo "exit=$A" | tee -a $LOG
git apply $D/patch.diff || { echo "patch does not apply" | tee -a $LOG; exit 2; }
echo "== cargo test --workspace with the change (expect all ok)" | tee -a $LOG
cargo test --workspace --no-fail-fast --offline > $D/test.out 2>&1; T=$?
grep -E "^test result|FAILED|panicked" $D/test.out | sort | uniq -c | tail -8 >> $LOG; echo "exit=$T" | tee -a $LOG; rm -f $D/test.out
echo "== demo with the change (expect non-zero)" | tee -a $LOG
bash $D/demo.sh $WT >> $LOG 2>&1; B=$?; echo "exit=$B" | tee -a $LOG
echo "== /verif checks against the changed tree" | tee -a $LOG
cd /verif
if [ $# -eq 0 ]; then P=all; else P="$@"; fi
for p in $P; do ./check $p --repo $WT --no-write -q 2>&1 | grep -v "^\[facts\]" | cut -c1-400 >> $LOG; done
grep -c "^VIOLATION" $LOG | sed 's/^/violations reported: /' | tee -a $LOG
cd $WT && git checkout -q -- . && git status --short | grep -v "^??"
echo "SUMMARY id=$ID clean_demo=$A suite=$T changed_demo=$B" | tee -a $LOG
