#!/usr/bin/env python3
"""Gap finder: generic source mutations of the mechanism functions, filtered twice.

  phase A  run the /verif checks on each mutant (scratch copy)      -> killed by checker / survived
  phase B  run the repository test-suite on the checker survivors  -> killed by tests / survived both

Mutants that survive BOTH are the interesting ones: they compile, pass the existing tests and are not
reported by any rule; each is either behaviour preserving or a gap in the rules (triage by reading).
This is a development aid for strengthening the rules; it is not part of any registered check.

usage: gapfinder.py gen  <out.jsonl> [file-substr ...]
       gapfinder.py runA <in.jsonl> <out.jsonl> [--jobs N] [--limit N]
       gapfinder.py runB <in.jsonl> <out.jsonl> [--jobs N]
"""
import json, os, re, subprocess, sys, tempfile, shutil, hashlib
from concurrent.futures import ThreadPoolExecutor
V = os.path.dirname(os.path.dirname(os.path.abspath(__file__)))
REPO = "/repo"

FUNCS = {
    "crates/searcher/src/searcher/core.rs": None,   # None = every fn in the file outside tests
    "crates/searcher/src/searcher/glue.rs": None,
    "crates/searcher/src/searcher/mod.rs": ["search_path", "search_file", "search_file_maybe_path", "search_reader", "search_slice",
                                            "set_binary_detection", "check_config", "slice_needs_transcoding", "multi_line_with_matcher",
                                            "fill_multi_line_buffer_from_file", "fill_multi_line_buffer_from_reader", "slice_has_bom", "build"],
    "crates/searcher/src/line_buffer.rs": ["fill", "roll", "ensure_capacity", "consume", "buffer", "clear", "replace_bytes", "new"],
    "crates/searcher/src/lines.rs": None,
    "crates/searcher/src/sink.rs": ["matched", "context", "context_break", "binary_data", "begin", "finish"],
    "crates/ignore/src/dir.rs": ["matched", "matched_ignore", "matched_dir_entry", "add_child_path", "has_any_ignore_rules", "add_parents", "build"],
    "crates/ignore/src/gitignore.rs": ["add_line", "matched", "matched_stripped", "strip", "has_doublestar_prefix", "matched_path_or_any_parents"],
    "crates/ignore/src/overrides.rs": ["matched"],
    "crates/ignore/src/types.rs": ["matched"],
    "crates/ignore/src/walk.rs": ["skip_entry", "generate_work", "run_one", "get_work", "visit", "next", "check_symlink_loop", "skip_filesize",
                                  "should_skip_entry", "path_equals", "run", "steal", "pop", "build", "build_parallel", "deactivate_worker",
                                  "activate_worker", "walkdir_is_dir", "threads"],
    "crates/ignore/src/pathutil.rs": None,
    "crates/globset/src/lib.rs": None,
    "crates/globset/src/glob.rs": ["new", "literal", "ext", "required_ext", "prefix", "suffix", "basename_tokens", "basename_literal",
                                   "tokens_to_regex", "parse_star", "parse_class", "is_match_candidate", "to_regex_with"],
    "crates/globset/src/pathutil.rs": None,
    "crates/printer/src/standard.rs": ["matched", "context", "context_break", "binary_data", "begin", "finish", "record_matches", "replace",
                                       "should_quit", "match_more_than_limit", "sink", "sink_fast", "sink_fast_multi_line", "sink_slow",
                                       "sink_slow_multi_line", "write_prelude", "has_match", "from_match", "from_context"],
    "crates/printer/src/json.rs": ["matched", "context", "binary_data", "begin", "finish", "record_matches", "should_quit",
                                   "match_more_than_limit", "write_begin_message", "new", "has_match"],
    "crates/printer/src/jsont.rs": ["from_bytes", "serialize"],
    "crates/printer/src/summary.rs": ["matched", "binary_data", "begin", "finish", "should_quit", "has_match", "requires_path",
                                      "requires_stats", "quit_early", "sink", "sink_with_path"],
    "crates/printer/src/util.rs": ["find_iter_at_in_context", "trim_line_terminator", "from_sink_match", "from_sink_context", "replace_all",
                                   "replacement", "clear"],
    "crates/regex/src/strip.rs": None,
    "crates/regex/src/non_matching.rs": None,
    "crates/regex/src/ban.rs": None,
    "crates/regex/src/literal.rs": ["new", "one_regex", "extract_untagged", "extract", "extract_concat", "extract_alternation",
                                    "extract_repetition", "cross", "union", "choose", "is_good", "is_really_good", "make_not_prefix"],
    "crates/regex/src/config.rs": ["build_many", "is_case_insensitive", "is_fixed_strings", "new", "line_terminator", "into_whole_line",
                                   "into_word", "line_anchor_start", "line_anchor_end", "has_line_terminator"],
    "crates/regex/src/matcher.rs": ["build_many", "find_candidate_line", "shortest_match_at", "non_matching_bytes", "line_terminator"],
    "crates/core/main.rs": ["main", "run", "search", "search_parallel", "files", "files_parallel"],
    "crates/core/search.rs": ["search", "should_decompress", "should_preprocess", "search_preprocessor", "search_decompress", "new", "build"],
    "crates/core/haystack.rs": None,
    "crates/core/flags/hiargs.rs": ["from_low_args", "matcher_rust", "searcher", "walk_builder", "printer", "printer_json", "printer_standard",
                                    "printer_summary", "search_worker", "buffer_writer", "stdout", "matches_possible", "is_none"],
    "crates/cli/src/process.rs": ["build", "close", "read", "drop", "read_to_end"],
    "crates/cli/src/decompress.rs": ["build", "close", "read"],
}

OPS = [
    (r">=", ">"), (r"(?<![-=<>])>(?![=>])", ">="), (r"<=", "<"), (r"(?<![<=])<(?![=<])", "<="),
    (r"==", "!="), (r"!=", "=="), (r"&&", "||"), (r"\|\|", "&&"),
    (r"\btrue\b", "false"), (r"\bfalse\b", "true"),
    (r" \+ 1\b", ""), (r" - 1\b", ""),
    (r"!(?=self\.|[a-z_]+[.(])", ""),
    (r"\.is_some\(\)", ".is_none()"), (r"\.is_none\(\)", ".is_some()"),
    (r"\.rev\(\)", ""),
]


def fn_spans(path, names):
    src = open(os.path.join(REPO, path)).read().split("\n")
    spans = []
    i = 0
    in_tests = False
    while i < len(src):
        line = src[i]
        if re.match(r"\s*(#\[cfg\(test\)\])", line) and i + 1 < len(src) and re.match(r"\s*(pub )?mod \w+", src[i + 1]):
            in_tests = True
        m = re.match(r"\s*(pub(\([a-z]+\))? )?(unsafe )?fn (\w+)", line)
        if m and not in_tests and (names is None or m.group(4) in names):
            # find the opening brace and match
            depth = 0
            started = False
            j = i
            while j < len(src):
                for ch in src[j]:
                    if ch == "{":
                        depth += 1
                        started = True
                    elif ch == "}":
                        depth -= 1
                if started and depth == 0:
                    break
                if not started and src[j].rstrip().endswith(";"):
                    break
                j += 1
            if started:
                spans.append((m.group(4), i, j))
            i = j + 1
            continue
        i += 1
    return src, spans


def gen(out, filt):
    n = 0
    with open(out, "w") as fh:
        for path, names in FUNCS.items():
            if filt and not any(x in path for x in filt):
                continue
            src, spans = fn_spans(path, names)
            for fname, a, b in spans:
                for ln in range(a + 1, b + 1):
                    line = src[ln]
                    code = line.split("//")[0]
                    if not code.strip() or code.strip().startswith(("#", "log::", "debug_assert", "assert", "///")):
                        continue
                    # operator mutations (first occurrence per operator per line)
                    for pat, rep in OPS:
                        for m in re.finditer(pat, code):
                            # skip generics / arrows / lifetimes
                            ctx = code[max(0, m.start() - 2):m.end() + 2]
                            if "->" in ctx or "=>" in ctx or "::<" in code[max(0, m.start() - 3):m.end()]:
                                continue
                            if pat.startswith("(?<![-=<>])>") or pat.startswith("(?<![<=])<"):
                                # only comparisons: require spaces around
                                if not (code[m.start() - 1:m.start()] == " " and code[m.end():m.end() + 1] == " "):
                                    continue
                            new = code[:m.start()] + rep + code[m.end():] + line[len(code):]
                            fh.write(json.dumps({"file": path, "fn": fname, "line": ln + 1, "op": "%s→%s" % (pat[:14], rep or "∅"),
                                                 "old": line, "new": new}) + "\n")
                            n += 1
                            break
                    # statement deletion: a simple call / assignment statement on one line
                    if re.match(r"\s*(self\.[\w.]+\(.*\)\??;|self\.[\w.]+ [-+]?= .*;|[a-z_.]+\.[a-z_]+\(.*\);)\s*$", code):
                        fh.write(json.dumps({"file": path, "fn": fname, "line": ln + 1, "op": "delete-stmt", "old": line, "new": ""}) + "\n")
                        n += 1
                # early-return removal: `if cond {` / `return X;` / `}`
                for ln in range(a + 1, b - 1):
                    if re.match(r"\s*if .*\{\s*$", src[ln]) and re.match(r"\s*(return .*;|break;|continue;)\s*$", src[ln + 1]) and \
                            re.match(r"\s*\}\s*$", src[ln + 2]):
                        fh.write(json.dumps({"file": path, "fn": fname, "line": ln + 1, "op": "drop-early-exit", "old": src[ln],
                                             "new": None, "span": 3}) + "\n")
                        n += 1
    print("generated", n, "mutants")


def apply(m, root):
    p = os.path.join(root, m["file"])
    src = open(p).read().split("\n")
    ln = m["line"] - 1
    if ln >= len(src) or src[ln] != m["old"]:
        # the tree moved on since the mutant was generated: accept the unique identical line nearby
        cands = [i for i in range(max(0, ln - 80), min(len(src), ln + 80)) if src[i] == m["old"]]
        if len(cands) != 1:
            return False
        ln = cands[0]
    if m["op"] == "drop-early-exit":
        del src[ln:ln + m["span"]]
    elif m["new"] == "":
        del src[ln]
    else:
        src[ln] = m["new"]
    open(p, "w").write("\n".join(src))
    return True


def runA_one(m):
    d = tempfile.mkdtemp(prefix="vgap.", dir="/tmp")
    try:
        subprocess.run(["rsync", "-a", "--exclude", "target", "--exclude", ".git", REPO + "/", d + "/"], check=True)
        if not apply(m, d):
            return dict(m, A="stale")
        r = subprocess.run([os.path.join(V, "check"), "all", "--repo", d, "--no-write", "-q"], stdout=subprocess.PIPE,
                           stderr=subprocess.STDOUT, text=True, cwd=V)
        if "fact extraction failed" in r.stdout:
            return dict(m, A="nocompile")
        v = [l.strip()[9:120] for l in r.stdout.splitlines() if l.strip().startswith("violated ")]
        return dict(m, A="killed" if v else "survived", by=v[:2])
    finally:
        shutil.rmtree(d, ignore_errors=True)


def runA(inp, out, jobs, limit):
    ms = [json.loads(l) for l in open(inp)]
    done = set()
    if os.path.exists(out):
        for l in open(out):
            j = json.loads(l)
            done.add((j["file"], j["line"], j["op"]))
    ms = [m for m in ms if (m["file"], m["line"], m["op"]) not in done]
    if limit:
        ms = ms[:limit]
    with open(out, "a") as fh, ThreadPoolExecutor(max_workers=jobs) as ex:
        for i, r in enumerate(ex.map(runA_one, ms)):
            fh.write(json.dumps(r) + "\n")
            fh.flush()
            if i % 20 == 0:
                print("A", i, len(ms), r["A"], r["file"].split("/")[-1], r["fn"], r["op"], flush=True)


def runB(inp, out, jobs):
    ms = [json.loads(l) for l in open(inp)]
    ms = [m for m in ms if m.get("A") == "survived"]
    done = set()
    if os.path.exists(out):
        for l in open(out):
            j = json.loads(l)
            done.add((j["file"], j["line"], j["op"]))
    ms = [m for m in ms if (m["file"], m["line"], m["op"]) not in done]
    pools = []
    for i in range(jobs):
        d = "/tmp/vgap-pool-%d" % i
        if not os.path.exists(d):
            subprocess.run(["git", "-C", REPO, "worktree", "add", "-q", "--detach", d, "HEAD"], check=True)
        pools.append(d)
    import queue
    q = queue.Queue()
    for p in pools:
        q.put(p)

    def one(m):
        d = q.get()
        try:
            subprocess.run(["git", "-C", d, "checkout", "-q", "--", "."], check=True)
            if not apply(m, d):
                return dict(m, B="stale")
            tmpd = "/tmp/tmp-" + os.path.basename(d)
            os.makedirs(tmpd, exist_ok=True)
            env = dict(os.environ, CARGO_NET_OFFLINE="true", TMPDIR=tmpd)
            # own process group, so that a hanging test binary can be killed together with cargo
            pr = subprocess.Popen(["cargo", "test", "--workspace", "--offline", "-q"], cwd=d, env=env, stdout=subprocess.PIPE,
                                  stderr=subprocess.STDOUT, text=True, start_new_session=True)
            try:
                out_, _ = pr.communicate(timeout=900)
            except subprocess.TimeoutExpired:
                import signal
                os.killpg(pr.pid, signal.SIGKILL)
                pr.communicate()
                return dict(m, B="timeout")
            failed = re.findall(r"^test (\S+) \.\.\. FAILED", out_, re.M)[:3]
            if pr.returncode == 0:
                return dict(m, B="survived")
            if "error[" in out_ or "could not compile" in out_:
                return dict(m, B="nocompile")
            return dict(m, B="killed", tests=failed)
        except subprocess.TimeoutExpired:
            return dict(m, B="timeout")
        finally:
            subprocess.run(["git", "-C", d, "checkout", "-q", "--", "."])
            q.put(d)
    with open(out, "a") as fh, ThreadPoolExecutor(max_workers=jobs) as ex:
        for i, r in enumerate(ex.map(one, ms)):
            fh.write(json.dumps(r) + "\n")
            fh.flush()
            print("B", i, len(ms), r["B"], r["file"].split("/")[-1], r["fn"], r["line"], r["op"], flush=True)


if __name__ == "__main__":
    cmd = sys.argv[1]
    args = sys.argv[2:]
    jobs = 6
    limit = 0
    if "--jobs" in args:
        jobs = int(args[args.index("--jobs") + 1]); del args[args.index("--jobs"):args.index("--jobs") + 2]
    if "--limit" in args:
        limit = int(args[args.index("--limit") + 1]); del args[args.index("--limit"):args.index("--limit") + 2]
    if cmd == "gen":
        gen(args[0], args[1:])
    elif cmd == "runA":
        runA(args[0], args[1], jobs, limit)
    elif cmd == "runB":
        runB(args[0], args[1], jobs)
