#!/usr/bin/env python3
"""Regenerate /verif/MANIFEST.json from the property modules that exist."""
import importlib, json, os, sys
V = os.path.dirname(os.path.dirname(os.path.abspath(__file__)))
sys.path.insert(0, V)
props = [json.loads(l) for l in open(os.path.join(V, "properties.jsonl"))]
NA = {
    "C19": "equality with the regex library's replace_all over all patterns x templates x inputs is a value-level "
           "equivalence with an external library; no structural clause that is a genuine necessary condition of "
           "template expansion is visible in the code shape (DESIGN.md section 5)",
}
checks, na = [], []
for p in props:
    pid = p["id"]
    path = os.path.join(V, "sa", "props", pid.lower() + ".py")
    if pid in NA or not os.path.exists(path):
        na.append({"property_id": pid, "reason": NA.get(pid, "check not built yet (see DESIGN.md for the plan)")})
        continue
    m = importlib.import_module("sa.props." + pid.lower())
    checks.append({
        "property_id": pid,
        "quick_cmd": "./check %s --tier quick" % pid,
        "thorough_cmd": "./check %s --tier thorough" % pid,
        "evidence_file": "/verif/evidence/%s.json" % pid,
        "replay_cmd_template": "./check %s --explain {path}" % pid,
        "engine": "rgfacts+sa",
        "level_claimed": {
            "category": "other",
            "text": "static analysis of necessary conditions, not the behaviour: " + m.EXPLANATION,
            "design_ref": "DESIGN.md section 6, " + pid,
        },
        "level_note": "trusted: rustc nightly front end + MIR construction, the /verif/driver serializer, the /verif/sa "
                      "analyses and the rule tables in sa/props/%s.py; linux/default-feature configuration only; "
                      "not decided: %s" % (pid.lower(), "; ".join(m.NOT_DECIDED)),
        "technique": getattr(m, "TECHNIQUE", "repository-specific static rules over rustc MIR/HIR facts "
                                             "(dominance, must-pass-through, edge guards, seeded constant propagation, "
                                             "provenance, field read/write sets, decision tables, sibling parity)"),
    })
man = {
    "version": 1,
    "setup_cmd": "cd /verif/driver && CARGO_NET_OFFLINE=true cargo +nightly build --release --offline",
    "hooks": {
        "guard": "burntsushi_ripgrep_verif",
        "enable": "none: no hooks are used; the checks analyse /repo's unmodified source through a rustc_private driver",
        "baseline_off_cmd": "cd /repo && cargo test --workspace --no-fail-fast --offline",
        "source_commits": [],
        "add_only": True,
    },
    "engines": [{
        "name": "rgfacts+sa", "path": "/verif/driver, /verif/sa",
        "serves_properties": [c["property_id"] for c in checks],
        "kind_free_text": "rustc_private fact extractor (typed HIR + MIR per body, injected with RUSTC_WORKSPACE_WRAPPER "
                          "under cargo +nightly check on /repo's working tree) and a Python static analyser applying "
                          "repository-specific rules; no code of /repo is executed",
    }],
    "checks": checks,
    "notes": "All claims are level 'other': structural necessary conditions decided statically; see DESIGN.md. "
             "Known findings: /verif/known_findings.json.",
    "not_applicable": na,
}
json.dump(man, open(os.path.join(V, "MANIFEST.json"), "w"), indent=1)
print("checks:", [c["property_id"] for c in checks], "n/a:", [n["property_id"] for n in na])
