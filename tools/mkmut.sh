#!/bin/bash
# usage: mkmut.sh <ID> <name> <expect> <file> <python-regex-or-literal old> <new>
# creates /verif/mutants/<ID>/<name>.patch by replacing the first occurrence of OLD by NEW in /repo/<file>
set -e
ID=$1; NAME=$2; EXPECT=$3; FILE=$4; OLD=$5; NEW=$6
mkdir -p /verif/mutants/$ID
T=$(mktemp -d /tmp/mkmut.XXXX); mkdir -p $T/a/$(dirname $FILE) $T/b/$(dirname $FILE)
cp /repo/$FILE $T/a/$FILE
OLD="$OLD" NEW="$NEW" python3 - "$T/a/$FILE" "$T/b/$FILE" <<'PY'
import sys, os
s = open(sys.argv[1]).read(); old = os.environ["OLD"]; new = os.environ["NEW"]
if old not in s: sys.exit("OLD text not found")
open(sys.argv[2], "w").write(s.replace(old, new, 1))
PY
( echo "# expect: $EXPECT"; cd $T && diff -u a/$FILE b/$FILE ) > /verif/mutants/$ID/$NAME.patch || true
rm -rf $T
grep -c '^[-+]' /verif/mutants/$ID/$NAME.patch
