#!/usr/bin/env python3
"""Regenerate sa/baseline_fns.json: the functions (closures excluded) of the tree the rules are anchored on (/repo as it is
now). Run after every /repo commit. A function missing from this list is treated as new and inlined into its known callers."""
import sys, os, json
sys.path.insert(0, os.path.dirname(os.path.dirname(os.path.abspath(__file__))))
os.environ["VERIF_NO_INLINE"] = "1"
from sa import facts as F
names = set()
roots = set()
sigs = {}
for feats in (None, "pcre2"):
    try:
        fb = F.load(F.REPO, features=feats)
    except F.ExtractionFailed as e:
        print("configuration %s not extracted: %s" % (feats, e))
        continue
    names |= {p for p in fb.fns if "{closure" not in p}
    for p, f in fb.fns.items():
        if "{closure" not in p and p not in sigs:
            sigs[p] = F.fn_sig(f.d)
    # functions in which a local closure is called by name (`let f = |..| ..; f(x)`): a function outside this list that
    # does so got the closure from a refactoring, and the closure's body is read where it is called
    for p, f in fb.fns.items():
        for c in f.calls():
            r = c.func.get("resolved") or ""
            if c.path.startswith("core::ops::function::Fn") and "{closure" in r:
                roots.add(r.split("::{closure")[0])
names = sorted(names)
json.dump(names, open(os.path.join(os.path.dirname(os.path.dirname(os.path.abspath(__file__))), "sa", "baseline_fns.json"), "w"), indent=0)
json.dump(sorted(roots), open(os.path.join(os.path.dirname(os.path.dirname(os.path.abspath(__file__))), "sa", "baseline_closure_calls.json"), "w"), indent=0)
json.dump(sigs, open(os.path.join(os.path.dirname(os.path.dirname(os.path.abspath(__file__))), "sa", "baseline_sigs.json"), "w"))
print("baseline functions:", len(names), "functions calling a local closure by name:", len(roots))
