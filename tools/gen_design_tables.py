#!/usr/bin/env python3
"""Regenerate the generated tables of DESIGN.md (between <!-- BEGIN:x --> / <!-- END:x --> markers)."""
import os, re, json, glob
V = os.path.dirname(os.path.dirname(os.path.abspath(__file__)))
def mutants_table():
    rows = ["| property | variant | kind | rule expected to fire (key prefix) | what the edit does |", "|---|---|---|---|---|"]
    for pid in sorted(os.listdir(os.path.join(V, "mutants"))):
        for f in sorted(os.listdir(os.path.join(V, "mutants", pid))):
            if not f.endswith(".patch"): continue
            txt = open(os.path.join(V, "mutants", pid, f)).read()
            exp = re.search(r"# expect: (.*)", txt).group(1).strip()
            files = sorted(set(re.findall(r"^\+\+\+ b/(\S+)", txt, re.M)))
            minus = [l[1:].strip() for l in txt.splitlines() if l.startswith("-") and not l.startswith("---") and l[1:].strip()]
            plus = [l[1:].strip() for l in txt.splitlines() if l.startswith("+") and not l.startswith("+++") and l[1:].strip()]
            what = ("`%s` → `%s`" % ((minus[0] if minus else "")[:50].replace("|", "\\|"), (plus[0] if plus else "(deleted)")[:50].replace("|", "\\|")))
            rows.append("| %s | %s | %s | %s | %s (%s) |" % (pid, f[:-6], "benign (must stay silent)" if exp == "silent" else "mutant",
                                                         "—" if exp == "silent" else "`%s`" % exp.replace("|", "\\|"), what, ", ".join(x.split("/")[-1] for x in files)))
    return "\n".join(rows)
def seeded_table():
    rows = ["| id | property | what the change does | needs to manifest | caught by |", "|---|---|---|---|---|"]
    for d in sorted(glob.glob(os.path.join(V, "seeded", "*"))):
        mp = os.path.join(d, "meta.json")
        if not os.path.exists(mp): continue
        m = json.load(open(mp))
        rows.append("| %s | %s | %s | %s | %s |" % (os.path.basename(d), m.get("property"), str(m.get("summary", ""))[:220].replace("|", "\\|").replace("\n", " "),
                                                   str(m.get("needs_to_manifest", ""))[:160].replace("|", "\\|").replace("\n", " "),
                                                   str(m.get("caught_by", "?")).replace("|", "\\|")))
    return "\n".join(rows)
def rules_table():
    rows = ["| property | rule | kind | instances (floor) | statement |", "|---|---|---|---|---|"]
    for f in sorted(glob.glob(os.path.join(V, "evidence", "C*.json"))):
        e = json.load(open(f))
        for r in e["coverage"]["rules"]:
            rows.append("| %s | %s | %s | %d (%s) | %s |" % (e["property_id"], r["id"], r["kind"], r["instances"], r["floor"], r["statement"].replace("|", "\\|")))
    return "\n".join(rows)
def findings_table():
    import subprocess
    d = json.load(open(os.path.join(V, "known_findings.json")))
    rows = ["| # | property | rule key that reported it | `fix:` commit in /repo | what failed, and the witness against the real code |", "|---|---|---|---|---|"]
    for i, line in enumerate(d.get("fixed", []), 1):
        m = re.match(r"fixed: property=(\S+) (\S+) (.*)", line, re.S)
        prop, commit, rest = m.group(1), m.group(2), m.group(3)
        keys = re.findall(r"keys? ([^;)]+?)(?:;|\)| and \.\.\.)", rest)
        try:
            subj = subprocess.check_output(["git", "-C", "/repo", "log", "--format=%s", "-1", commit], text=True).strip()
        except Exception:
            subj = ""
        rows.append("| F%d | %s | `%s` | `%s %s` | %s |" % (i, prop, (keys[0] if keys else "").replace("|", "\\|")[:150], commit, subj.replace("|", "\\|"),
                                                       rest.replace("|", "\\|").replace("\n", " ")))
    for f in d.get("findings", []):
        rows.append("| open | %s | `%s` | (not repaired: KNOWN-FINDING) | %s |" % (f["property"], f["key"].replace("|", "\\|"), f["what"].replace("|", "\\|")))
    return "\n".join(rows)
p = os.path.join(V, "DESIGN.md"); s = open(p).read()
for name, fn in (("mutants", mutants_table), ("seeded", seeded_table), ("rules", rules_table), ("findings", findings_table)):
    b, e = "<!-- BEGIN:%s -->" % name, "<!-- END:%s -->" % name
    if b in s and e in s:
        s = s[:s.index(b) + len(b)] + "\n" + fn() + "\n" + s[s.index(e):]
open(p, "w").write(s)
print("tables regenerated")
