#!/usr/bin/env python3
"""seed_meta.py <id> <caught_by> <initially_missed:0|1> [note] — annotate /verif/seeded/<id>/meta.json"""
import json, sys, re
i, caught, missed = sys.argv[1], sys.argv[2], sys.argv[3] == "1"
p = "/verif/seeded/%s/meta.json" % i
m = json.load(open(p))
log = open("/verif/seeded/%s/confirm.log" % i).read()
sm = re.search(r"SUMMARY id=\S+ clean_demo=(\d+) suite=(\d+) changed_demo=(\d+)", log)
m["confirmed"] = {"clean_tree_demo_exit": int(sm.group(1)), "suite_exit_with_change": int(sm.group(2)), "demo_exit_with_change": int(sm.group(3)),
                  "how": "tools/confirm_seeded.sh: demo on the clean worktree, git apply patch.diff, cargo test --workspace --no-fail-fast --offline, demo again, ./check <props> --repo <worktree>"}
m["caught_by"] = caught
m["initially_missed"] = missed
if len(sys.argv) > 4: m["note"] = sys.argv[4]
json.dump(m, open(p, "w"), indent=1)
print(i, m["confirmed"], caught)
