#!/usr/bin/env python3
"""benign_report.py [--jobs N] [--match SUBSTR] [ID ...] — apply every mutants/<ID>/benign-*.patch to a scratch copy of /repo, run ALL checks,
print every violation (the self-test stops at the first)."""
import os, sys, subprocess, tempfile, shutil, re
from concurrent.futures import ThreadPoolExecutor
V = os.path.dirname(os.path.dirname(os.path.abspath(__file__)))
ALL = ["C%02d" % n for n in range(1, 19)]
def one(t):
    pid, patch = t
    d = tempfile.mkdtemp(prefix="vben.", dir="/tmp")
    try:
        subprocess.run(["rsync", "-a", "--exclude", "target", "--exclude", ".git", "/repo/", d + "/"], check=True)
        body = "".join(l for l in open(patch) if not l.startswith("# "))
        r = subprocess.run(["patch", "-p1", "--no-backup-if-mismatch", "-s"], input=body, text=True, cwd=d, stdout=subprocess.PIPE, stderr=subprocess.STDOUT)
        if r.returncode != 0:
            return pid, patch, ["STALE " + r.stdout.strip()[:100]]
        out = []
        for p in ALL:
            r = subprocess.run([os.path.join(V, "check"), p, "--repo", d, "--no-write", "-q"], stdout=subprocess.PIPE, stderr=subprocess.STDOUT, text=True, cwd=V)
            out += [l.strip()[9:] for l in r.stdout.splitlines() if l.strip().startswith("violated ")]
            if "fact extraction failed" in r.stdout:
                return pid, patch, ["DOES NOT COMPILE"]
        return pid, patch, out
    finally:
        shutil.rmtree(d, ignore_errors=True)
def main():
    jobs = 5
    args = [a for a in sys.argv[1:]]
    if "--jobs" in args:
        i = args.index("--jobs"); jobs = int(args[i + 1]); del args[i:i + 2]
    pat = ""
    if "--match" in args:
        i = args.index("--match"); pat = args[i + 1]; del args[i:i + 2]
    todo = []
    for pid in sorted(os.listdir(os.path.join(V, "mutants"))):
        if args and pid not in args: continue
        for f in sorted(os.listdir(os.path.join(V, "mutants", pid))):
            if f.startswith("benign") and f.endswith(".patch") and pat in f:
                todo.append((pid, os.path.join(V, "mutants", pid, f)))
    nbad = 0
    with ThreadPoolExecutor(max_workers=jobs) as ex:
        for pid, patch, out in ex.map(one, todo):
            tag = "silent" if not out else "ALARM(%d)" % len(out)
            if out: nbad += 1
            print("%-10s %s %s" % (tag, pid, os.path.basename(patch)))
            for l in out:
                print("      " + l[:330])
    print("benign variants: %d, with alarms: %d" % (len(todo), nbad))
if __name__ == "__main__":
    main()
