#!/usr/bin/env python3
"""benign_import.py <ID> <worktree> [tag] — store the behaviour-preserving refactorings a sub-agent wrote under
<worktree>/BENIGN/r*.diff as benign variants mutants/<ID>/benign-agent-r<i>.patch (expect: silent, run against every check)."""
import sys, os, json, glob
pid, wt = sys.argv[1], sys.argv[2]
tag = sys.argv[3] if len(sys.argv) > 3 else "agent"
ALL = ",".join("C%02d" % n for n in range(1, 19))
meta = {}
try:
    for m in json.load(open(os.path.join(wt, "BENIGN", "meta.json"))):
        meta[m.get("file")] = m
except Exception as e:
    print("no meta:", e)
os.makedirs("/verif/mutants/" + pid, exist_ok=True)
n = 0
for f in sorted(glob.glob(os.path.join(wt, "BENIGN", "r*.diff"))):
    b = os.path.basename(f)
    m = meta.get(b, {})
    body = open(f).read()
    if not body.strip():
        continue
    hdr = "# expect: silent\n# props: %s\n# kind: %s\n# functions: %s\n# why: %s\n" % (
        ALL, str(m.get("kind", "?")).replace("\n", " ")[:200], ", ".join(m.get("functions", []))[:300],
        str(m.get("why_behaviour_preserving", "")).replace("\n", " ")[:400])
    out = "/verif/mutants/%s/benign-%s-%s.patch" % (pid, tag, b.replace(".diff", ""))
    open(out, "w").write(hdr + body)
    n += 1
print(pid, "imported", n)
