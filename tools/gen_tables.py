#!/usr/bin/env python3
"""Discover same-named accessors / setters on the current tree and freeze them in sa/tables/*.json."""
import json, os, sys
V = os.path.dirname(os.path.dirname(os.path.abspath(__file__)))
sys.path.insert(0, V)
from sa import facts as F
from sa import generic as G
fb = F.load()
allfields = set()
for a in fb.adts.values():
    if a["kind"] == "struct":
        for x in a["variants"][0]["fields"]:
            allfields.add(x["name"])
acc, sett = [], []
for f in sorted(fb.fns.values(), key=lambda f: f.path):
    if f.kind != "method" or f.d.get("impl_trait") or "::tests::" in f.path or f.name not in allfields:
        continue
    ins = f.d.get("inputs", [])
    file = f.loc.split(":")[0]
    if len(ins) == 1 and ins[0].startswith("&") and not ins[0].startswith("&mut") and f.d.get("output") != "()":
        if G.is_accessor(f):
            acc.append({"path": f.path, "file": file})
    if len(ins) == 2 and ins[0].startswith("&mut"):
        s = G.setter_field(f)
        if s is not None:
            sett.append({"path": f.path, "file": file, "field": list(s)})
os.makedirs(os.path.join(V, "sa", "tables"), exist_ok=True)
json.dump(acc, open(os.path.join(V, "sa", "tables", "accessors.json"), "w"), indent=0)
json.dump(sett, open(os.path.join(V, "sa", "tables", "setters.json"), "w"), indent=0)
print(len(acc), "accessors,", len(sett), "setters")
