"""A5 field read/write sets, A6 call graph, A7 enum tables, A9 match arms,
A10 result-use classification."""
from .facts import op_place, op_const, place_key, fields_of_place
from . import cfg as C
from .flow import ExprBuilder, TRY_BRANCH, FROM_RESIDUAL


# ---------------------------------------------------------------------------
# A6 call graph

class CallGraph:
    def __init__(self, facts):
        self.facts = facts
        self.out = {}
        for p, f in facts.fns.items():
            outs = set()
            for c in f.calls():
                outs |= {n for n in c.names if n}
            # closures created here
            for bb, j, st in f.stmts():
                if st["k"] == "assign" and st["rv"]["k"] == "agg" and "closure" in st["rv"]:
                    outs.add(st["rv"]["closure"])
            # fn items referenced as values (passed as callbacks)
            for bb, j, st in f.stmts():
                if st["k"] == "assign":
                    for op in _rv_operands(st["rv"]):
                        c = op_const(op)
                        if c and "fn" in c:
                            outs.add(c["fn"]["path"])
                        if c and "closure" in c:
                            outs.add(c["closure"])
            for c in f.calls():
                for a in c.args:
                    k = op_const(a)
                    if k and "fn" in k:
                        outs.add(k["fn"]["path"])
                        if "resolved" in k["fn"]:
                            outs.add(k["fn"]["resolved"])
                    if k and "closure" in k:
                        outs.add(k["closure"])
            self.out[p] = outs

    def reachable_from(self, roots, stop=()):
        """All names (local fns and external/trait method names) reachable."""
        seen = set()
        work = list(roots)
        stop = set(stop)
        while work:
            n = work.pop()
            if n in seen:
                continue
            seen.add(n)
            if n in stop:
                continue
            for m in self.out.get(n, ()):
                if m not in seen:
                    work.append(m)
        return seen

    def may_reach(self, targets, within=None):
        """Set of local fn paths from which some name in `targets` is reachable."""
        targets = set(targets)
        rev = {}
        for p, outs in self.out.items():
            for o in outs:
                rev.setdefault(o, set()).add(p)
        seen = set()
        work = list(targets)
        while work:
            n = work.pop()
            for p in rev.get(n, ()):
                if p not in seen and (within is None or within(p)):
                    seen.add(p)
                    work.append(p)
        return seen


def _rv_operands(rv):
    for k in ("a", "b"):
        if k in rv and isinstance(rv[k], dict):
            yield rv[k]
    for o in rv.get("ops", []):
        yield o


# ---------------------------------------------------------------------------
# A5 field read / write sets

def field_rw(fn):
    """(reads, writes, mutborrows): sets of (owner, field). A write is an assignment
    whose destination path goes through the field; a mutborrow is `&mut place`
    through the field (the callee may write it)."""
    reads, writes, mutb = set(), set(), set()
    for bb, j, st in fn.stmts():
        if st["k"] == "assign":
            for of in fields_of_place(st["place"]):
                writes.add(of)
            rv = st["rv"]
            if rv["k"] in ("ref", "rawptr"):
                tgt = mutb if rv.get("mut", True) else reads
                for of in fields_of_place(rv["place"]):
                    tgt.add(of)
            elif rv["k"] == "discr":
                for of in fields_of_place(rv["place"]):
                    reads.add(of)
            else:
                for op in _rv_operands(rv):
                    p = op_place(op)
                    if p:
                        for of in fields_of_place(p):
                            reads.add(of)
        elif st["k"] == "setdiscr":
            for of in fields_of_place(st["place"]):
                writes.add(of)
    for i, b in enumerate(fn.blocks):
        if b["cleanup"]:
            continue
        t = b["term"]
        if t["k"] == "call":
            for a in t["args"]:
                p = op_place(a)
                if p:
                    for of in fields_of_place(p):
                        reads.add(of)
            for of in fields_of_place(t["dest"]):
                writes.add(of)
        elif t["k"] == "switch":
            p = op_place(t["op"])
            if p:
                for of in fields_of_place(p):
                    reads.add(of)
    return reads, writes, mutb


def field_rw_deep(facts, fn, depth=3, same_crate=True, _seen=None):
    """Field sets of fn, its closures, and callees up to `depth`."""
    if _seen is None:
        _seen = set()
    if fn.path in _seen:
        return set(), set(), set()
    _seen.add(fn.path)
    r, w, m = field_rw(fn)
    r, w, m = set(r), set(w), set(m)
    for cl in facts.closures_of(fn.path, recursive=False):
        r2, w2, m2 = field_rw_deep(facts, cl, depth, same_crate, _seen)
        r |= r2; w |= w2; m |= m2
    if depth > 0:
        for c in fn.calls():
            for n in c.names:
                g = facts.fns.get(n)
                if g is not None and (not same_crate or g.crate == fn.crate):
                    r2, w2, m2 = field_rw_deep(facts, g, depth - 1, same_crate, _seen)
                    r |= r2; w |= w2; m |= m2
    return r, w, m


# ---------------------------------------------------------------------------
# A10 result use

def uses_of_local(fn, l):
    """Sites reading local l: list of (kind, bb, detail)."""
    out = []
    for bb, j, st in fn.stmts():
        if st["k"] != "assign":
            continue
        rv = st["rv"]
        if rv["k"] in ("ref", "rawptr", "discr"):
            if rv["place"]["l"] == l:
                out.append((rv["k"], bb, st))
        else:
            for op in _rv_operands(rv):
                p = op_place(op)
                if p and p["l"] == l:
                    out.append(("read", bb, st))
    for c in fn.calls():
        for i, a in enumerate(c.args):
            p = op_place(a)
            if p and p["l"] == l:
                out.append(("arg", c.bb, c))
    for i, b in enumerate(fn.blocks):
        if b["cleanup"]:
            continue
        t = b["term"]
        if t["k"] == "switch":
            p = op_place(t["op"])
            if p and p["l"] == l:
                out.append(("switch", i, t))
    return out


PASS_THROUGH = {"core::result::Result::map_err", "core::result::Result::map",
                "core::result::Result::and_then", "core::result::Result::or_else",
                "core::result::Result::map_or_else"}
SWALLOW = {"core::result::Result::ok", "core::result::Result::unwrap_or",
           "core::result::Result::unwrap_or_default", "core::result::Result::unwrap_or_else",
           "core::result::Result::is_ok", "core::result::Result::is_err",
           "core::result::Result::map_or", "core::result::Result::err"}
PANIC_ON_ERR = {"core::result::Result::unwrap", "core::result::Result::expect"}


def classify_result(fn, call, _depth=0):
    """How the Result returned by `call` is consumed. Returns (verdict, detail)
    verdict in: 'returned', 'try', 'matched-used', 'matched-dropped', 'swallowed',
    'dropped', 'panics', 'stored', 'passed'."""
    if call.dest is None or call.target is None:
        return "diverges", ""
    if call.dest["p"]:
        return "stored", "into a field"
    l = call.dest["l"]
    if l == 0:
        return "returned", "tail"
    uses = uses_of_local(fn, l)
    if not uses:
        return "dropped", "result never read"
    verdicts = []
    for kind, bb, x in uses:
        if kind == "arg":
            c = x
            if c.is_(*TRY_BRANCH):
                verdicts.append(("try", "?"))
            elif c.names & PASS_THROUGH:
                if _depth < 4:
                    verdicts.append(classify_result(fn, c, _depth + 1))
                else:
                    verdicts.append(("passed", c.path))
            elif c.names & SWALLOW:
                verdicts.append(("swallowed", c.path.split("::")[-1]))
            elif c.names & PANIC_ON_ERR:
                verdicts.append(("panics", c.path.split("::")[-1]))
            else:
                verdicts.append(("passed", c.path))
        elif kind == "discr":
            # matched on: is the Err payload read anywhere?
            used = False
            for bb2, j2, st2 in fn.stmts():
                if st2["k"] == "assign":
                    for op in _rv_operands(st2["rv"]):
                        p = op_place(op)
                        if p and p["l"] == l and any(isinstance(q, dict) and q.get("dc") == "Err" for q in p["p"]):
                            used = True
                    rv = st2["rv"]
                    if rv["k"] in ("ref", "rawptr") and rv["place"]["l"] == l and \
                            any(isinstance(q, dict) and q.get("dc") == "Err" for q in rv["place"]["p"]):
                        used = True
            verdicts.append(("matched-used", "") if used else ("matched-dropped", "Err payload never read"))
        elif kind == "read":
            st = x
            # reads through a downcast are payload reads, not uses of the Result itself
            projs = []
            for op in _rv_operands(st["rv"]):
                pp = op_place(op)
                if pp and pp["l"] == l:
                    projs.append(pp["p"])
            if projs and all(pr for pr in projs):
                if any(isinstance(q, dict) and q.get("dc") == "Err" for pr in projs for q in pr):
                    verdicts.append(("matched-used", "Err payload read"))
                continue
            if st["place"]["l"] == 0 and not st["place"]["p"]:
                verdicts.append(("returned", "moved to _0"))
            else:
                # moved into another local: follow one step
                tgt = st["place"]["l"]
                if not st["place"]["p"] and _depth < 4 and st["rv"]["k"] == "use":
                    fake = _FakeCall(call, st["place"])
                    verdicts.append(classify_result(fn, fake, _depth + 1))
                else:
                    verdicts.append(("stored", ""))
        elif kind in ("ref", "rawptr"):
            verdicts.append(("passed", "borrowed"))
        elif kind == "switch":
            verdicts.append(("matched-used", "switched on"))
    if not verdicts:
        return "dropped", "no consuming use"
    order = ["dropped", "swallowed", "matched-dropped", "panics", "stored", "passed",
             "matched-used", "try", "returned"]
    # the best use wins: a result that is both matched and `?`-ed is propagated
    best = max(verdicts, key=lambda v: order.index(v[0]) if v[0] in order else 0)
    return best


class _FakeCall:
    def __init__(self, call, dest):
        self.dest = dest
        self.target = call.target
        self.bb = call.bb


# ---------------------------------------------------------------------------
# A7 / A9: switch on the discriminant of an enum

def discr_switches(fn, adt=None):
    """Yield (bb, adt, place_expr, {variant: target}, otherwise_target, otherwise_live)
    for every switch whose operand is a discriminant read."""
    defs = fn.defs()
    for i, b in enumerate(fn.blocks):
        if b["cleanup"]:
            continue
        t = b["term"]
        if t["k"] != "switch":
            continue
        p = op_place(t["op"])
        if not p or p["p"]:
            continue
        ds = defs.get(p["l"], [])
        if len(ds) != 1 or ds[0][0] != "assign" or ds[0][3]["rv"]["k"] != "discr":
            continue
        rv = ds[0][3]["rv"]
        if adt is not None and rv.get("adt") != adt:
            continue
        vmap = {d: n for d, n in rv.get("variants", [])}
        arms = {}
        for v, tgt in t["targets"]:
            arms[vmap.get(v, str(v))] = tgt
        ow = t["otherwise"]
        ow_live = fn.blocks[ow]["term"]["k"] != "unreachable" or bool(fn.blocks[ow]["stmts"])
        missing = [n for n in vmap.values() if n not in arms]
        yield i, rv.get("adt"), rv["place"], arms, ow, ow_live, missing


def enum_table(fn):
    """For a fn of shape `match self { V1 => c1, ... }` returning constants:
    {variant: abstract return value}. Uses the seeded propagation per variant."""
    from .flow import Sccp, V
    sw = [s for s in discr_switches(fn)]
    if not sw:
        return None
    bb, adt, place, arms, ow, ow_live, missing = sw[0]
    table = {}
    variants = set(arms) | set(missing)
    for v in variants:
        tgt = arms.get(v, ow)
        s = Sccp(fn).run([(tgt, {})])
        vals = set(s.ret_values.values())
        table[v] = vals.pop() if len(vals) == 1 else None
    return adt, table
