"""Fact base: extraction (cached per tree state) and typed accessors.

The facts come from /verif/driver (rustc_private) run over /repo's current
working tree; see DESIGN.md section 2.1.
"""
import fcntl
import hashlib
import json
import os
import shutil
import subprocess
import sys
import time

VERIF = os.path.dirname(os.path.dirname(os.path.abspath(__file__)))
REPO = os.environ.get("VERIF_REPO", "/repo")
CACHE = os.path.join(VERIF, ".cache")

# Function-count floors per crate measured on the pinned tree (fail closed when
# the extractor sees fewer bodies than were confirmed).
CRATE_FLOORS = {
    "globset": 170, "grep_matcher": 60, "grep_regex": 150, "grep_searcher": 230,
    "grep_cli": 120, "ignore": 350, "grep_printer": 440, "rg": 1150,
}


def tree_hash(repo=REPO, extra=""):
    h = hashlib.sha256()
    files = []
    for root, dirs, names in os.walk(repo):
        dirs[:] = [d for d in dirs if d not in ("target", ".git")]
        for n in names:
            if n.endswith(".rs") or n in ("Cargo.toml", "Cargo.lock"):
                files.append(os.path.join(root, n))
    drv = os.path.join(VERIF, "driver")
    for root, dirs, names in os.walk(os.path.join(drv, "src")):
        for n in names:
            files.append(os.path.join(root, n))
    files.append(os.path.join(drv, "Cargo.toml"))
    for f in sorted(files):
        h.update(f.encode())
        try:
            with open(f, "rb") as fh:
                h.update(fh.read())
        except OSError:
            h.update(b"<unreadable>")
    h.update(extra.encode())
    return h.hexdigest()[:16]


def ensure_driver():
    drv = os.path.join(VERIF, "driver", "target", "release", "rgfacts")
    src = os.path.join(VERIF, "driver", "src")
    newest = max(os.path.getmtime(os.path.join(src, f)) for f in os.listdir(src))
    if not os.path.exists(drv) or os.path.getmtime(drv) < newest:
        env = dict(os.environ, CARGO_NET_OFFLINE="true")
        r = subprocess.run(["cargo", "+nightly", "build", "--release", "--offline"],
                           cwd=os.path.join(VERIF, "driver"), env=env,
                           stdout=subprocess.PIPE, stderr=subprocess.STDOUT, text=True)
        if r.returncode != 0:
            sys.stderr.write(r.stdout[-3000:])
            raise SystemExit("FATAL: cannot build fact extractor")
    return drv


def _mtime(p):
    # concurrent runs prune the same cache: an entry may vanish between listdir and stat
    try:
        return os.path.getmtime(p)
    except OSError:
        return 0.0


def _prune_cache(keep):
    try:
        ents = [os.path.join(CACHE, d) for d in os.listdir(CACHE) if d.startswith("facts-")]
    except OSError:
        return
    ents.sort(key=_mtime, reverse=True)
    now = time.time()
    for p in ents[40:]:
        # keep anything used in the last 30 minutes (parallel self-test / scratch runs must not evict /repo's facts)
        if p != keep and now - _mtime(p) > 1800:
            shutil.rmtree(p, ignore_errors=True)
    for p in ents[400:]:
        if p != keep:
            shutil.rmtree(p, ignore_errors=True)
    try:
        names = os.listdir(CACHE)
    except OSError:
        names = []
    for d in names:
        p = os.path.join(CACHE, d)
        if d.startswith("tgt.") and os.path.exists(p) and time.time() - _mtime(p) > 3600:
            shutil.rmtree(p, ignore_errors=True)


def extract(repo=REPO, features=None, quiet=False):
    """Return the directory holding one <crate>.json per workspace crate for the
    current state of `repo`, extracting if needed."""
    os.makedirs(CACHE, exist_ok=True)
    ensure_driver()
    key = tree_hash(repo, extra="features=%s" % (features or ""))
    out = os.path.join(CACHE, "facts-" + key)
    lock = open(os.path.join(CACHE, "extract-%s.lock" % key), "w")
    fcntl.flock(lock, fcntl.LOCK_EX)
    try:
        if os.path.exists(os.path.join(out, "OK")):
            os.utime(out, None)
            return out
        shutil.rmtree(out, ignore_errors=True)
        t0 = time.time()
        cmd = [os.path.join(VERIF, "extract.sh"), repo, out]
        if features:
            cmd += ["--features", features]
        r = subprocess.run(cmd, stdout=subprocess.PIPE, stderr=subprocess.PIPE, text=True)
        if r.returncode != 0:
            sys.stderr.write(r.stderr[-4000:])
            shutil.rmtree(out, ignore_errors=True)
            raise ExtractionFailed("fact extraction failed (does /repo build?)")
        with open(os.path.join(out, "OK"), "w") as fh:
            fh.write("%.1f\n" % (time.time() - t0))
        if not quiet:
            sys.stderr.write("[facts] extracted in %.1fs -> %s\n" % (time.time() - t0, out))
        _prune_cache(out)
        return out
    finally:
        fcntl.flock(lock, fcntl.LOCK_UN)
        lock.close()
        try:
            os.unlink(os.path.join(CACHE, "extract-%s.lock" % key))
        except OSError:
            pass


class ExtractionFailed(Exception):
    pass


class AnchorMissing(Exception):
    """A named item the rules are anchored on no longer resolves."""


# ---------------------------------------------------------------------------

def place_key(p):
    return (p["l"], tuple(_pk(x) for x in p["p"]))


def _pk(x):
    if isinstance(x, str):
        return x
    if "f" in x:
        return ("f", x["f"], x["of"])
    if "dc" in x:
        return ("dc", x["dc"])
    if "idx" in x:
        return ("idx", x["idx"])
    if "cidx" in x:
        return ("cidx", x["cidx"])
    return "other"


def op_place(op):
    """The place an operand reads, or None for constants."""
    if "copy" in op:
        return op["copy"]
    if "move" in op:
        return op["move"]
    return None


def op_const(op):
    return op.get("const")


def fields_of_place(p):
    return [(x["of"], x["f"]) for x in p["p"] if isinstance(x, dict) and "f" in x]


class Call:
    __slots__ = ("fn", "bb", "func", "args", "dest", "target", "loc", "exp", "term")

    def __init__(self, fn, bb, term):
        self.fn = fn
        self.bb = bb
        self.term = term
        self.func = term["func"]
        self.args = term["args"]
        self.dest = term.get("dest")
        self.target = term.get("t")
        self.loc = term.get("loc", "?")
        self.exp = term.get("exp", [])

    @property
    def names(self):
        f = self.func
        s = {f["path"]}
        if "resolved" in f:
            s.add(f["resolved"])
        return s

    @property
    def path(self):
        return self.func["path"]

    @property
    def callee(self):
        return self.func.get("resolved", self.func["path"])

    def is_(self, *names):
        ns = self.names
        return any(n in ns for n in names)

    def __repr__(self):
        return "<call %s @bb%d %s>" % (self.path, self.bb, self.loc)


class Fn:
    def __init__(self, crate, d):
        self.crate = crate
        self.d = d
        self.path = d["path"]
        self.kind = d["kind"]
        self.name = d.get("name", "")
        self.loc = d["loc"]
        self.mir = d["mir"]
        self.blocks = self.mir["blocks"]
        self.locals = self.mir["locals"]
        self.argc = self.mir["argc"]
        self.hir = d.get("hir")
        self._succ = None
        self._pred = None
        self._calls = None
        self._dom = None
        self._defs = None

    # -- CFG ---------------------------------------------------------------
    def term(self, bb):
        return self.blocks[bb]["term"]

    def succ(self, bb):
        if self._succ is None:
            self._succ = [self._succ_of(b["term"]) for b in self.blocks]
        return self._succ[bb]

    @staticmethod
    def _succ_of(t):
        k = t["k"]
        if k == "goto" or k == "drop" or k == "assert":
            return [t["t"]]
        if k == "switch":
            out = []
            for _, b in t["targets"]:
                if b not in out:
                    out.append(b)
            if t["otherwise"] not in out:
                out.append(t["otherwise"])
            return out
        if k == "call":
            return [t["t"]] if t.get("t") is not None else []
        if k == "other":
            return list(t.get("succ", []))
        return []

    def preds(self, bb):
        if self._pred is None:
            self._pred = [[] for _ in self.blocks]
            for b in range(len(self.blocks)):
                for s in self.succ(b):
                    self._pred[s].append(b)
        return self._pred[bb]

    def calls(self):
        if self._calls is None:
            self._calls = [Call(self, i, b["term"]) for i, b in enumerate(self.blocks)
                           if b["term"]["k"] == "call" and not b["cleanup"]]
        return self._calls

    def calls_to(self, *names):
        return [c for c in self.calls() if c.is_(*names)]

    def return_blocks(self):
        return [i for i, b in enumerate(self.blocks)
                if b["term"]["k"] == "return" and not b["cleanup"]]

    def local_name(self, l):
        n = self.locals[l].get("name")
        return n if n else "_%d" % l

    def local_ty(self, l):
        return self.locals[l]["ty"]

    def stmts(self):
        """Yield (bb, idx, stmt) for all non-cleanup statements."""
        for i, b in enumerate(self.blocks):
            if b["cleanup"]:
                continue
            for j, s in enumerate(b["stmts"]):
                yield i, j, s

    def defs(self):
        """local -> list of definitions: ('assign', bb, idx, stmt) or ('call', bb, Call)."""
        if self._defs is None:
            d = {}
            for bb, j, s in self.stmts():
                if s["k"] == "assign":
                    d.setdefault(s["place"]["l"], []).append(("assign", bb, j, s))
                elif s["k"] == "setdiscr":
                    d.setdefault(s["place"]["l"], []).append(("setdiscr", bb, j, s))
            for c in self.calls():
                if c.dest is not None:
                    d.setdefault(c.dest["l"], []).append(("call", c.bb, c))
            self._defs = d
        return self._defs

    def __repr__(self):
        return "<Fn %s>" % self.path


# ---------------------------------------------------------------------------
# Units: a known function with the helpers that did not exist on the reference tree inlined
#
# The rules are anchored on the functions of the tree they were confirmed on (sa/baseline_fns.json, regenerated with
# tools/gen_baseline_fns.py whenever /repo's HEAD moves). A function that is not in that list is new: a helper extracted by
# a refactoring, a routine added by a change. Its body is spliced into every known caller (MIR level: locals and blocks
# renumbered, arguments bound by assignments, `return` turned into an assignment of the call's destination and a goto), so
# that the rule sees the caller as it was before the extraction — and sees *through* a helper that hides something. On the
# reference tree itself nothing is new and nothing is inlined.

def _cp_place(p, lo):
    return {"l": p["l"] + lo, "p": [({"idx": x["idx"] + lo} if isinstance(x, dict) and "idx" in x else x) for x in p["p"]]}


def _cp_op(op, lo):
    if "copy" in op:
        return {"copy": _cp_place(op["copy"], lo)}
    if "move" in op:
        return {"move": _cp_place(op["move"], lo)}
    return op


def _cp_rv(rv, lo):
    r = dict(rv)
    for k in ("a", "b"):
        if isinstance(r.get(k), dict):
            r[k] = _cp_op(r[k], lo)
    if "place" in r:
        r["place"] = _cp_place(r["place"], lo)
    if "ops" in r:
        r["ops"] = [_cp_op(o, lo) for o in r["ops"]]
    return r


def _cp_stmt(st, lo):
    r = dict(st)
    if "place" in r:
        r["place"] = _cp_place(r["place"], lo)
    if "rv" in r:
        r["rv"] = _cp_rv(r["rv"], lo)
    return r


def _cp_term(t, lo, bo):
    r = dict(t)
    k = r["k"]
    if k == "call":
        r["args"] = [_cp_op(a, lo) for a in r["args"]]
        if r.get("dest") is not None:
            r["dest"] = _cp_place(r["dest"], lo)
        if r.get("t") is not None:
            r["t"] = r["t"] + bo
    elif k == "switch":
        r["op"] = _cp_op(r["op"], lo)
        r["targets"] = [[v, b + bo] for v, b in r["targets"]]
        r["otherwise"] = r["otherwise"] + bo
    elif k in ("goto", "drop", "assert"):
        r["t"] = r["t"] + bo
        if "place" in r:
            r["place"] = _cp_place(r["place"], lo)
        if isinstance(r.get("cond"), dict):
            r["cond"] = _cp_op(r["cond"], lo)
    elif k == "other":
        r["succ"] = [b + bo for b in r.get("succ", [])]
    return r


def inline_new_callees(fn, fns, is_new, max_inlines=24):
    """A copy of `fn` in which every call to a function for which is_new(path) holds (and whose body is known) is replaced by
    that body. Returns (Fn, [paths inlined]) or (fn, []) when there is nothing to do."""
    if not any(is_new(c.callee) and c.callee in fns and c.callee != fn.path for c in fn.calls()):
        return fn, []
    import copy
    d = dict(fn.d)
    mir = {"argc": fn.mir["argc"], "locals": [dict(l) for l in fn.mir["locals"]],
           "blocks": [{"stmts": list(b["stmts"]), "term": b["term"], "cleanup": b["cleanup"]} for b in fn.mir["blocks"]]}
    done = []
    stack_of = {}     # block index -> tuple of callee paths it was inlined from (recursion guard)
    work = True
    while work and len(done) < max_inlines:
        work = False
        for bi in range(len(mir["blocks"])):
            b = mir["blocks"][bi]
            t = b["term"]
            if t["k"] != "call" or b["cleanup"] or t.get("t") is None:
                continue
            callee = t["func"].get("resolved", t["func"]["path"])
            if not is_new(callee) or callee not in fns or callee == fn.path or callee in stack_of.get(bi, ()):
                continue
            g = fns[callee]
            if g.kind == "closure":
                # rust-call ABI: (closure, (a, b, ..)) at the call, (closure, a, b, ..) in the body
                if len(t["args"]) != 2 or op_place(t["args"][1]) is None:
                    continue
            elif len(t["args"]) != g.mir["argc"]:
                continue
            lo, bo = len(mir["locals"]), len(mir["blocks"])
            for l in g.mir["locals"]:
                l2 = dict(l)
                if l2.get("name"):
                    l2["name"] = l2["name"]
                mir["locals"].append(l2)
            # bind the arguments (parameter i of g is local i+1)
            if g.kind == "closure":
                tp = op_place(t["args"][1])
                actuals = [t["args"][0]] + [{"copy": {"l": tp["l"], "p": list(tp["p"]) + [{"f": str(i), "of": "(tuple)"}]}}
                                            for i in range(g.mir["argc"] - 1)]
            else:
                actuals = t["args"]
            binds = [{"k": "assign", "place": {"l": lo + i + 1, "p": []}, "rv": {"k": "use", "a": a}, "loc": t.get("loc", "?"),
                      "inlined": callee} for i, a in enumerate(actuals)]
            origin = stack_of.get(bi, ()) + (callee,)
            for gi, gb in enumerate(g.mir["blocks"]):
                nb = {"stmts": [_cp_stmt(st, lo) for st in gb["stmts"]], "cleanup": gb["cleanup"]}
                gt = gb["term"]
                if gt["k"] == "return" and not gb["cleanup"]:
                    if t.get("dest") is not None:
                        nb["stmts"].append({"k": "assign", "place": t["dest"], "rv": {"k": "use", "a": {"move": {"l": lo, "p": []}}},
                                            "loc": gt.get("loc", "?"), "inlined": callee})
                    nb["term"] = {"k": "goto", "t": t["t"], "loc": gt.get("loc", "?"), "inlined": callee}
                else:
                    nb["term"] = _cp_term(gt, lo, bo)
                mir["blocks"].append(nb)
                stack_of[bo + gi] = origin
            b["stmts"] = b["stmts"] + binds
            b["term"] = {"k": "goto", "t": bo, "loc": t.get("loc", "?"), "inlined": callee}
            done.append(callee)
            work = True
            break
    d["mir"] = mir
    d["inlined"] = done
    return Fn(fn.crate, d), done


def fn_sig(d):
    """A fingerprint of a function body that survives its own renaming (and that of its siblings): arity, result type, the
    callees outside its own type, the fields it touches, its integer constants."""
    path = d.get("path", "")
    parent = path.rsplit("::", 1)[0]
    mir = d.get("mir") or {}
    callees, fields, consts = [], [], []

    def walk_json(x):
        if isinstance(x, dict):
            if "f" in x and "of" in x and isinstance(x["f"], str):
                fields.append(x["f"])
            if x.get("k") == "call" and isinstance(x.get("func"), dict):
                cp = x["func"].get("path", "")
                if not cp.startswith(parent + "::"):
                    callees.append(cp)
            if "const" in x and isinstance(x["const"], dict) and isinstance(x["const"].get("val"), int):
                consts.append(x["const"]["val"])
            for v in x.values():
                walk_json(v)
        elif isinstance(x, list):
            for v in x:
                walk_json(v)
    walk_json(mir.get("blocks", []))
    return [mir.get("argc"), d.get("output"), sorted(callees), sorted(fields), sorted(consts)]


def _renamed_items(texts, already):
    """Private functions that were renamed in place: a function missing from the reference list and a new one under the same
    parent (type or module) with the same fingerprint (fn_sig), unique both ways. {new path: old path}."""
    d0 = os.path.dirname(os.path.abspath(__file__))
    bp, sp = os.path.join(d0, "baseline_fns.json"), os.path.join(d0, "baseline_sigs.json")
    if os.environ.get("VERIF_NO_INLINE") or not os.path.exists(bp) or not os.path.exists(sp):
        return {}
    with open(bp) as fh:
        base = set(json.load(fh))
    with open(sp) as fh:
        sigs = json.load(fh)
    cur = {}
    for t in texts.values():
        for d in json.loads(t)["fns"]:
            p = d.get("path", "")
            if "{closure" not in p:
                cur[p] = d
    crates_here = {p.split("::")[0].lstrip("<") for p in cur}
    missing = [p for p in base - set(cur) if p.split("::")[0].lstrip("<") in crates_here and not p.startswith("<") and p in sigs]
    new = [p for p in set(cur) - base if not p.startswith("<") and p not in already and not any(p.startswith(a + "::") for a in already)]
    out = {}
    by_parent = {}
    for p in missing:
        by_parent.setdefault(p.rsplit("::", 1)[0], {"m": [], "n": []})["m"].append(p)
    for p in new:
        by_parent.setdefault(p.rsplit("::", 1)[0], {"m": [], "n": []})["n"].append(p)
    for par, g in by_parent.items():
        if not g["m"] or not g["n"]:
            continue
        ms = {}
        for p in g["m"]:
            ms.setdefault(json.dumps(sigs[p]), []).append(p)
        ns = {}
        for p in g["n"]:
            ns.setdefault(json.dumps(fn_sig(cur[p])), []).append(p)
        for k, ps in ns.items():
            if len(ps) == 1 and len(ms.get(k, [])) == 1:
                out[ps[0]] = ms[k][0]
    return out


def _moved_items(texts):
    """Types / functions that were moved to another module of their crate since the reference tree: {new path prefix: old
    path prefix}. A function that is not on the reference list while a listed function of the same crate with the same
    `Type::method` (or, for a free function, the same name) is gone, uniquely both ways, is that function under its new
    address; the rules keep addressing it by the old one."""
    import re as _re
    bp = os.path.join(os.path.dirname(os.path.abspath(__file__)), "baseline_fns.json")
    if os.environ.get("VERIF_NO_INLINE") or not os.path.exists(bp):
        return {}
    with open(bp) as fh:
        base = set(json.load(fh))
    cur = set()
    for t in texts.values():
        for d in json.loads(t)["fns"]:
            p = d.get("path", "")
            if "{closure" not in p:
                cur.add(p)
    crates_here = {p.split("::")[0].lstrip("<") for p in cur}
    missing = {p for p in base - cur if p.split("::")[0].lstrip("<") in crates_here and not p.startswith("<")}
    new = {p for p in cur - base if not p.startswith("<")}
    if not missing or not new:
        return {}

    def key(p, n):
        segs = p.split("::")
        return (segs[0], "::".join(segs[-n:]))
    out = {}
    for n in (2, 1):
        mk, nk = {}, {}
        for p in missing:
            mk.setdefault(key(p, n), []).append(p)
        for p in new:
            nk.setdefault(key(p, n), []).append(p)
        for k, ps in nk.items():
            if len(ps) == 1 and len(mk.get(k, [])) == 1:
                a, b = ps[0], mk[k][0]
                if a.count("::") < n or b.count("::") < n:
                    continue
                # the part in front of the method (n == 2: the type's path) or of the function name
                pa, pb = a.rsplit("::", 1)[0], b.rsplit("::", 1)[0]
                if n == 2 and pa != pb and pa.split("::")[-1] == pb.split("::")[-1]:
                    out[pa] = pb
                elif n == 1 and pa != pb and a not in out and not any(a.startswith(x + "::") for x in out):
                    out[a] = b
    return out


class Facts:
    def __init__(self, directory, inline=True):
        self.dir = directory
        self._inline = inline
        self._raw = None
        self.crates = {}
        self.fns = {}      # path -> Fn (first wins; duplicates kept in fns_all)
        self.fns_all = {}  # path -> [Fn]
        self.adts = {}
        self.impls = []
        texts = {}
        for name in sorted(os.listdir(directory)):
            if name.endswith(".json"):
                with open(os.path.join(directory, name)) as fh:
                    texts[name] = fh.read()
        self.moved = _moved_items(texts) if inline is not None else {}
        self.renamed = _renamed_items(texts, self.moved) if inline is not None else {}
        # (a renamed function is addressed by its reference name: the quoted path, so that longer names are not clipped)
        for new_, old_ in self.renamed.items():
            self.moved['"%s"' % new_] = '"%s"' % old_
            self.moved['%s::{closure' % new_] = '%s::{closure' % old_
        for name in sorted(texts):
            t = texts[name]
            for new_, old_ in sorted(self.moved.items(), key=lambda kv: -len(kv[0])):
                t = t.replace(new_, old_)
            d = json.loads(t)
            self.crates[d["crate"]] = d
            for f in d["fns"]:
                fn = Fn(d["crate"], f)
                self.fns_all.setdefault(fn.path, []).append(fn)
                self.fns.setdefault(fn.path, fn)
            for a in d["adts"]:
                self.adts[a["path"]] = a
            for i in d["impls"]:
                i["crate"] = d["crate"]
                self.impls.append(i)
        self._closures = None
        self._callers = None
        self.inlined = {}
        self.spliced_fns = {}
        self.spliced = set()
        if inline:
            self._apply_baseline()

    @property
    def raw(self):
        """The same program without any splicing: every function as written (new helpers are functions of their own)."""
        if not self._inline or not (self.inlined or self.spliced):
            return self
        if self._raw is None:
            self._raw = Facts(self.dir, inline=False)
        return self._raw

    def _apply_baseline(self):
        """Splice functions that are not on the reference tree into their known callers (see inline_new_callees)."""
        bp = os.path.join(os.path.dirname(os.path.abspath(__file__)), "baseline_fns.json")
        if os.environ.get("VERIF_NO_INLINE") or not os.path.exists(bp):
            return
        with open(bp) as fh:
            base = set(json.load(fh))

        cp = os.path.join(os.path.dirname(os.path.abspath(__file__)), "baseline_closure_calls.json")
        croots = None
        if os.path.exists(cp):
            with open(cp) as fh:
                croots = set(json.load(fh))

        def is_new(path):
            if "{closure" in path:
                # a local closure called by name in a function that had no such call on the reference tree
                return croots is not None and path in self.fns and path.split("::{closure")[0] not in croots
            return path in self.fns and path not in base
        new = {p for p in self.fns if is_new(p) and "{closure" not in p}
        called_closures = set()
        for f in self.fns.values():
            for c in f.calls():
                r_ = c.func.get("resolved") or ""
                if c.path.startswith("core::ops::function::Fn") and "{closure" in r_ and is_new(r_):
                    called_closures.add(r_)
        if not new and not called_closures:
            return
        raw = dict(self.fns)
        spliced = set()
        for p, f in list(raw.items()):
            if p in new:
                continue
            g, done = inline_new_callees(f, raw, is_new)
            if done:
                self.fns[p] = g
                self.inlined[p] = done
                spliced |= set(done)
        # a helper that lives on inside its callers is not analysed a second time on its own (rules that enumerate "every
        # function that does X" would otherwise meet the same code twice, once out of context); one that is still called
        # somewhere as a function stays
        still_called = set()
        for p, f in self.fns.items():
            if p in new and p in spliced:
                continue
            for c in f.calls():
                if c.callee in spliced:
                    still_called.add(c.callee)
        self.spliced_fns = {}
        for p in spliced - still_called:
            self.spliced_fns[p] = self.fns.pop(p, None)
            self.fns_all.pop(p, None)
        self.spliced = spliced - still_called

    def check_floors(self):
        bad = []
        for c, floor in CRATE_FLOORS.items():
            n = len(self.crates.get(c, {}).get("fns", []))
            if n < floor:
                bad.append("%s: %d function bodies < floor %d" % (c, n, floor))
        return bad

    def fn(self, path):
        f = self.fns.get(path)
        if f is None:
            raise AnchorMissing("function %s not found in the fact base" % path)
        return f

    def has_fn(self, path):
        return path in self.fns

    def adt(self, path):
        a = self.adts.get(path)
        if a is None:
            raise AnchorMissing("type %s not found in the fact base" % path)
        return a

    def variants(self, path):
        return [v["name"] for v in self.adt(path)["variants"]]

    def struct_fields(self, path):
        return [f["name"] for f in self.adt(path)["variants"][0]["fields"]]

    def fns_in(self, prefix):
        return [f for p, f in self.fns.items() if p.startswith(prefix)]

    def closures_of(self, path, recursive=True):
        if self._closures is None:
            self._closures = {}
            for f in self.fns.values():
                if f.kind == "closure":
                    self._closures.setdefault(f.d["parent"], []).append(f)
        out = list(self._closures.get(path, []))
        for q in self.inlined.get(path, []):
            out.extend(self._closures.get(q, []))
        if recursive:
            i = 0
            while i < len(out):
                out.extend(self._closures.get(out[i].path, []))
                i += 1
        return out

    def with_closures(self, path):
        return [self.fn(path)] + self.closures_of(path)

    def callers_of(self, *names):
        """All call sites (Call objects) in the workspace whose callee matches."""
        names = set(names)
        out = []
        for f in self.fns.values():
            for c in f.calls():
                if c.names & names:
                    out.append(c)
        return out

    def impl_methods(self, trait, method):
        """Fns that implement trait::method."""
        out = []
        for f in self.fns.values():
            if f.d.get("impl_trait") == trait and f.name == method:
                out.append(f)
        return out


_loaded = {}


def load(repo=REPO, features=None):
    d = extract(repo, features)
    if d not in _loaded:
        _loaded[d] = Facts(d)
    return _loaded[d]
