"""A1/A2: CFG queries on one function body (cleanup blocks / unwind edges excluded)."""
from .facts import op_place, op_const


def reach(fn, starts, removed_blocks=(), removed_edges=(), stop_blocks=()):
    """Blocks reachable from `starts` (inclusive). `removed_blocks` cannot be
    entered; `removed_edges` is a set of (src, dst); `stop_blocks` are entered but
    not expanded."""
    removed_blocks = set(removed_blocks)
    removed_edges = set(removed_edges)
    stop_blocks = set(stop_blocks)
    seen = set()
    work = [s for s in starts if s not in removed_blocks]
    while work:
        b = work.pop()
        if b in seen:
            continue
        seen.add(b)
        if b in stop_blocks:
            continue
        for s in fn.succ(b):
            if s in removed_blocks or (b, s) in removed_edges or s in seen:
                continue
            work.append(s)
    return seen


def reach_after(fn, bb, **kw):
    """Blocks reachable strictly after the terminator of bb."""
    return reach(fn, fn.succ(bb), **kw)


def dominators(fn):
    """Immediate-dominator-free representation: dom[b] = set of blocks dominating b."""
    if fn._dom is not None:
        return fn._dom
    n = len(fn.blocks)
    live = reach(fn, [0])
    order = _rpo(fn, 0)
    dom = {b: None for b in live}
    dom[0] = {0}
    changed = True
    while changed:
        changed = False
        for b in order:
            if b == 0:
                continue
            ps = [p for p in fn.preds(b) if p in live and dom[p] is not None]
            if not ps:
                continue
            new = set.intersection(*[dom[p] for p in ps]) | {b}
            if new != dom[b]:
                dom[b] = new
                changed = True
    fn._dom = dom
    return dom


def _rpo(fn, entry):
    seen = set()
    out = []
    stack = [(entry, iter(fn.succ(entry)))]
    seen.add(entry)
    while stack:
        b, it = stack[-1]
        adv = False
        for s in it:
            if s not in seen:
                seen.add(s)
                stack.append((s, iter(fn.succ(s))))
                adv = True
                break
        if not adv:
            out.append(b)
            stack.pop()
    out.reverse()
    return out


def dominates(fn, a, b):
    """Block a dominates block b (a == b counts)."""
    d = dominators(fn).get(b)
    return d is not None and a in d


def site_dominates(fn, a, b):
    """Sites are (bb, idx) with idx an int statement index or 'T' for the terminator."""
    (ba, ia), (bb_, ib) = a, b
    if ba != bb_:
        return dominates(fn, ba, bb_)
    ia = 1 << 30 if ia == "T" else ia
    ib = 1 << 30 if ib == "T" else ib
    return ia < ib


def all_paths_pass(fn, starts, through_blocks, targets, removed_edges=()):
    """Every path from a start block to a target block passes through one of
    `through_blocks` (a target that is itself a through block counts as passed)."""
    through = set(through_blocks)
    r = reach(fn, [s for s in starts if s not in through], removed_blocks=through,
              removed_edges=removed_edges)
    return [t for t in targets if t in r and t not in through]


def back_edges(fn):
    dom = dominators(fn)
    out = []
    for b in dom:
        for s in fn.succ(b):
            if s in dom and s in dom[b]:
                out.append((b, s))
    return out


# ---------------------------------------------------------------------------
# Switch interpretation

def switch_edges(fn, bb):
    """For a switch terminator: list of (value or None for otherwise, target)."""
    t = fn.term(bb)
    assert t["k"] == "switch"
    out = [(v, b) for v, b in t["targets"]]
    out.append((None, t["otherwise"]))
    return out


def bool_switch(fn, bb):
    """If bb ends in a switch on a bool-typed operand return (operand, true_target,
    false_target) else None."""
    t = fn.term(bb)
    if t["k"] != "switch" or t["ty"] != "bool":
        return None
    tt = ft = None
    for v, b in t["targets"]:
        if v == 0:
            ft = b
        else:
            tt = b
    if tt is None:
        tt = t["otherwise"]
    if ft is None:
        ft = t["otherwise"]
    return t["op"], tt, ft
