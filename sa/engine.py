"""Rule bookkeeping: instances, floors, violations, known findings, evidence."""
import json
import os
import time
import traceback

from .facts import VERIF, AnchorMissing

EVID = os.path.join(VERIF, "evidence")
KNOWN = os.path.join(VERIF, "known_findings.json")


def load_known():
    try:
        with open(KNOWN) as fh:
            d = json.load(fh)
    except OSError:
        d = {}
    return d.get("findings", []), d.get("fixed", [])


class Rule:
    def __init__(self, ctx, rid, statement, floor, exhaustive, kind):
        self.ctx = ctx
        self.id = rid
        self.statement = statement
        self.floor = floor
        self.exhaustive = exhaustive
        self.kind = kind
        self.instances = []   # (key, detail, nontrivial)
        self.violations = []
        self.fns = set()
        self.sites = 0

    def ok(self, key, detail="", nontrivial=True, fn=None):
        self.instances.append((key, detail, nontrivial, True))
        if fn is not None:
            self.fns.add(fn if isinstance(fn, str) else fn.path)

    def bad(self, key, msg, fn=None, loc=None, path=None, construct=None):
        """Record a violated obligation. key identifies the instance without line
        numbers: it is what known_findings.json matches on."""
        fpath = fn if isinstance(fn, str) or fn is None else fn.path
        self.instances.append((key, msg, True, False))
        if fpath:
            self.fns.add(fpath)
        self.violations.append({
            "property": self.ctx.prop, "rule": self.id, "key": "%s|%s" % (self.id, key),
            "function": fpath, "loc": loc or (fn.loc if fn is not None and not isinstance(fn, str) else None),
            "message": msg, "rule_statement": self.statement, "path": path,
            "construct": construct,
        })

    def note_sites(self, n):
        self.sites += n

    def __enter__(self):
        return self

    def __exit__(self, et, ev, tb):
        if et is not None and issubclass(et, AnchorMissing):
            self.bad("anchor-missing:%s" % ev, "anchor-missing: %s" % ev)
            self.ctx.rules.append(self)
            return True
        if et is not None and issubclass(et, (KeyError, IndexError, AssertionError, TypeError,
                                              AttributeError, ValueError, NameError, RuntimeError)):
            # an analysis that cannot interpret the code shape fails closed
            tbs = traceback.format_exception(et, ev, tb)
            self.bad("analysis-failed:%s" % et.__name__,
                     "analysis-failed (code shape not recognised, failing closed): %s: %s\n%s"
                     % (et.__name__, ev, "".join(tbs[-3:])))
            self.ctx.rules.append(self)
            return True
        if et is None:
            n = len(self.instances)
            if self.floor is not None and n < self.floor:
                self.bad("floor", "anchor-missing: rule matched %d instance(s), fewer than the %d "
                         "confirmed by reading; the rule would pass vacuously" % (n, self.floor))
            self.ctx.rules.append(self)
        return False


class Ctx:
    def __init__(self, prop, tier, facts, seed=0, facts2=None):
        self.prop = prop
        self.tier = tier
        self.facts = facts
        from . import flow as _flow
        _flow.DEFAULT_FACTS[0] = facts
        self.facts_alt = facts2
        self.seed = seed
        self.rules = []
        self.t0 = time.time()
        self.notes = []
        self.extra = {}

    def rule(self, rid, statement, floor=None, exhaustive=False, kind=""):
        return Rule(self, rid, statement, floor, exhaustive, kind)

    def note(self, s):
        self.notes.append(s)

    # -- reporting -----------------------------------------------------------
    def finish(self, explanation, not_decided, assumptions=None, write=True):
        findings, fixed = load_known()
        known_keys = {(f["property"], f["key"]): f for f in findings}
        all_v = []
        for r in self.rules:
            all_v.extend(r.violations)
        new_v, known_v = [], []
        for v in all_v:
            # the thorough tier re-runs every rule on the pcre2 feature configuration and tags the key; a finding
            # is the same construct under either configuration
            base_key = v["key"][:-len("[pcre2]")] if v["key"].endswith("[pcre2]") else v["key"]
            kf = known_keys.get((self.prop, base_key))
            if kf is not None:
                known_v.append((v, kf))
            else:
                new_v.append(v)
        lines = []
        for r in self.rules:
            nb = len(r.violations)
            lines.append("  [%s] %-18s %3d instance(s)%s%s  %s" % (
                "FAIL" if nb else " ok ", r.id, len(r.instances),
                " (floor %d)" % r.floor if r.floor is not None else "",
                " exhaustive" if r.exhaustive else "",
                r.statement[:90]))
        for v, kf in known_v:
            lines.append("KNOWN-FINDING: property=%s %s [%s] %s" % (self.prop, kf.get("what", ""), v["key"],
                                                                    v["loc"] or ""))
        vdir = os.path.join(EVID, "violations")
        if write:
            os.makedirs(vdir, exist_ok=True)
            for f in os.listdir(vdir):
                if f.startswith(self.prop + "-"):
                    os.unlink(os.path.join(vdir, f))
        for i, v in enumerate(new_v):
            p = os.path.join(vdir, "%s-%d.json" % (self.prop, i))
            if write:
                with open(p, "w") as fh:
                    json.dump(v, fh, indent=1)
            lines.append("  violated %s at %s in %s: %s" % (v["key"], v["loc"], v["function"],
                                                            v["message"].split("\n")[0]))
            lines.append("VIOLATION property=%s replay=%s" % (self.prop, p))
        # evidence
        n_inst = sum(len(r.instances) for r in self.rules)
        distinct = set()
        for r in self.rules:
            for key, detail, nontrivial, ok in r.instances:
                if nontrivial:
                    distinct.add((r.id, key))
        fns = set()
        for r in self.rules:
            fns |= r.fns
        samples = []
        for r in self.rules:
            for key, detail, nontrivial, ok in r.instances[:3]:
                samples.append({"rule": r.id, "instance": key, "verdict": "holds" if ok else "violated",
                                "detail": detail[:300]})
        obligations = n_inst
        discharged = sum(1 for r in self.rules for i in r.instances if i[3])
        ev = {
            "property_id": self.prop, "tier": self.tier, "seed": self.seed, "level": "other",
            "coverage": {
                "explanation": explanation,
                "evaluations": n_inst,
                "distinct_nontrivial": len(distinct),
                "rule": "one evaluation = one rule instance (a named function, call site, field, table row "
                        "or sibling pair) decided from the MIR/HIR of /repo's current tree; an instance is "
                        "non-trivial when its verdict needed a CFG, flow, provenance or table computation "
                        "rather than mere presence; distinct = distinct (rule, instance key)",
                "samples": samples[:40],
                "obligations": obligations,
                "discharged": discharged,
                "exhaustive": False,
                "checker_cmd": "./check %s --tier %s" % (self.prop, self.tier),
                "trusted_base": ["rustc nightly type checker, MIR construction and Instance resolution",
                                 "/verif/driver fact serializer", "/verif/sa analyses",
                                 "rule tables in /verif/sa/props"],
                "functions_analysed": len(fns),
                "call_sites_examined": sum(r.sites for r in self.rules),
                "rules": [{"id": r.id, "kind": r.kind, "statement": r.statement,
                           "instances": len(r.instances), "floor": r.floor,
                           "violations": len(r.violations), "exhaustive": r.exhaustive}
                          for r in self.rules],
                "not_decided": not_decided,
                "known_findings_matched": [v["key"] for v, _ in known_v],
                "facts_dir": os.path.basename(self.facts.dir),
                "crates": sorted(self.facts.crates),
                "notes": self.notes,
            },
            "assumptions": assumptions or [
                "only the linux / default-feature configuration is analysed (plus pcre2 in the thorough tier)",
                "MIR is pre-monomorphisation; calls through generics are matched by trait method",
                "structural necessary conditions are decided, not the behaviour (see not_decided)"],
            "wall_s": round(time.time() - self.t0, 3),
            "violations": len(new_v),
        }
        ev["coverage"].update(self.extra)
        if write:
            os.makedirs(EVID, exist_ok=True)
            with open(os.path.join(EVID, "%s.json" % self.prop), "w") as fh:
                json.dump(ev, fh, indent=1)
        return lines, len(new_v), ev
