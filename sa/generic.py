"""Generic tables discovered from the code and frozen: same-named accessors and setters.

An accessor `T::x(&self)` returns the field `x` (directly or through one hop such as self.config.x); a setter
`T::x(&mut self, v)` stores its argument into the field `x`. The instances were discovered on the pinned tree by
signature and name (tools/gen_tables.py), every one was confirmed mechanically to have that shape, and the list is
frozen in sa/tables/*.json. A listed function that no longer exists is skipped (not every accessor is a mechanism
anchor); one that exists but no longer reads/writes its field is reported under every property whose anchor files
contain it."""
import json
import os

from .flow import ExprBuilder, strip, walk, show, X
from .graph import field_rw
from .facts import fields_of_place

HERE = os.path.dirname(os.path.abspath(__file__))
PEEL = ("clone", "as_ref", "as_deref", "as_str", "as_slice", "deref", "as_path", "copied", "as_bytes", "borrow", "get", "to_owned")


def peel(x):
    while True:
        x = strip(x)
        if isinstance(x, X) and x.k == "call" and x[1].split("::")[-1] in PEEL and x[3]:
            x = x[3][0]
            continue
        return x


def is_accessor(f):
    e = peel(ExprBuilder(f).local(0))
    if isinstance(e, X) and e.k == "field" and e[3] == f.name:
        # base chain must lead to self
        return any(y.k == "arg" and y[1] == 1 for y in walk(e))
    return False


def setter_field(f):
    """If f stores (something derived from) its second argument into a field named like f: the (owner, field)."""
    eb = ExprBuilder(f)
    hits = []
    for bb, j, st in f.stmts():
        if st["k"] == "assign":
            fs = fields_of_place(st["place"])
            if fs and fs[-1][1] == f.name:
                e = eb.rvalue(st["rv"])
                if any(y.k == "arg" and y[1] == 2 for y in walk(e)) and not any(y.k == "not" for y in walk(e)):
                    hits.append(fs[-1])
    return hits[0] if hits else None


def load_table(name):
    p = os.path.join(HERE, "tables", name + ".json")
    with open(p) as fh:
        return json.load(fh)


def files_of_property(pid):
    props = [json.loads(l) for l in open(os.path.join(os.path.dirname(HERE), "properties.jsonl"))]
    for p in props:
        if p["id"] == pid:
            return set(p["anchors"]["files"])
    return set()


def run(ctx):
    facts = ctx.facts
    files = files_of_property(ctx.prop)
    acc = [a for a in load_table("accessors") if a["file"] in files]
    sett = [a for a in load_table("setters") if a["file"] in files]
    if acc:
        with ctx.rule(ctx.prop + ".ACCESSOR", "same-named accessors in the property's files still return their field (discovered, frozen table)",
                      floor=max(1, len(acc) * 2 // 3), kind="TABLE") as r:
            for a in acc:
                f = facts.fns.get(a["path"])
                if f is None:
                    continue
                if is_accessor(f):
                    r.ok(a["path"], "returns self…%s" % f.name, fn=f, nontrivial=False)
                else:
                    r.bad(a["path"], "%s no longer returns the field `%s` (returns `%s`)" % (a["path"], f.name,
                          show(ExprBuilder(f).local(0))[:60]), fn=f, construct="accessor")
    if sett:
        with ctx.rule(ctx.prop + ".SETTER", "same-named builder setters in the property's files still store their argument in their field",
                      floor=max(1, len(sett) * 2 // 3), kind="TABLE") as r:
            for a in sett:
                f = facts.fns.get(a["path"])
                if f is None:
                    continue
                got = setter_field(f)
                if got is not None and got[1] == f.name:
                    r.ok(a["path"], "stores its argument in %s.%s" % (got[0].split("::")[-1], got[1]), fn=f, nontrivial=False)
                else:
                    _, w, _ = field_rw(f)
                    r.bad(a["path"], "%s no longer stores its argument in the field `%s` (writes %s)" % (
                        a["path"], f.name, sorted(x[1] for x in w)), fn=f, construct="setter")
