"""Helpers for wiring rules on MIR: builder call sites, their argument expressions and guards."""
from . import cfg as C
from .flow import ExprBuilder, mentions_field, mentions_call, is_call, is_field, walk, show, cond_switches, \
    discr_switch_edges, guarded, strip, X


def const_val(e):
    e = strip(e)
    if isinstance(e, X) and e.k == "const":
        return e[1]
    return None


def is_some_const(e, v):
    e = strip(e)
    return isinstance(e, X) and e.k == "agg" and e[2] == "Some" and e[3] and const_val(e[3][0]) == v


def is_none_agg(e):
    e = strip(e)
    return isinstance(e, X) and e.k == "agg" and e[2] == "None" and e[1].endswith("Option")


def field_of(e, owner, name):
    """e is (a copy/ref of) exactly owner.name."""
    return is_field(strip(e), owner, name)


def not_field(e, owner, name):
    e = strip(e)
    return isinstance(e, X) and e.k == "not" and field_of(e[1], owner, name)


def guard_bool_field(f, eb, site_bbs, owner, name, polarity):
    sw = cond_switches(f, lambda e: field_of(e, owner, name), eb)
    if not sw:
        return False
    return not guarded(f, site_bbs, sw, polarity)


def guard_cond(f, eb, site_bbs, pred, polarity):
    sw = cond_switches(f, pred, eb)
    if not sw:
        return False
    return not guarded(f, site_bbs, sw, polarity)


def unguarded_by_field(f, eb, site_bbs, owner, name):
    """site reachable whichever way switches on the field go (i.e. not gated by it at all)."""
    sw = cond_switches(f, lambda e: field_of(e, owner, name), eb)
    if not sw:
        return True
    return bool(guarded(f, site_bbs, sw, True)) and bool(guarded(f, site_bbs, sw, False))


def guard_variant(f, eb, site_bbs, pred, variant):
    """Every path to site takes the `variant` edge of a discriminant switch on a place satisfying pred."""
    sws = discr_switch_edges(f, pred, eb)
    removed = set()
    found = False
    for bb, arms, ow, e, missing in sws:
        if variant in arms:
            removed.add(arms[variant])
            found = True
        elif variant in missing:
            removed.add(ow)
            found = True
    if not found:
        return False
    r = C.reach(f, [0], removed_edges=removed)
    return not any(s in r for s in site_bbs)


def variant_arms(f, eb, pred):
    """{variant: target block} merged over switches on places satisfying pred; plus list of
    (bb, missing variants, otherwise live)."""
    out = {}
    info = []
    from .graph import discr_switches
    for bb, adt, place, arms, ow, ow_live, missing in discr_switches(f):
        e = eb.place(place)
        if pred(e):
            for v, t in arms.items():
                out[v] = t
            info.append((bb, adt, missing, ow, ow_live))
    return out, info


def struct_default(facts, adt, field):
    """The value `<adt as Default>::default()` gives `field`, read from the struct literal in that function: an abstract
    value (("i", n) / ("v", variant, None)) or None when it is not a constant there."""
    from .flow import Sccp, operand_at
    g = facts.fns.get("<%s as core::default::Default>::default" % adt)
    if g is None:
        return None
    # (Arc::new(x) / Box::new(x) / Some-less wrappers read as x)
    sx = Sccp(g, call_model=lambda c, argv: argv[0] if c.path in ("alloc::sync::Arc::new", "alloc::boxed::Box::new", "alloc::rc::Rc::new")
              and argv else None).run([(0, {})])
    for bb, j, st in g.stmts():
        if st["k"] == "assign" and st["rv"]["k"] == "agg" and st["rv"].get("adt") == adt and field in st["rv"].get("fields", []):
            return operand_at(sx, bb, st, st["rv"]["ops"][st["rv"]["fields"].index(field)])
    return None
