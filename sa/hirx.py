"""A8: HIR formulas, wiring and decision trees."""
import itertools


def children(n):
    if isinstance(n, dict):
        for k, v in n.items():
            if isinstance(v, (dict, list)):
                yield from _kids(v)
    elif isinstance(n, list):
        yield from _kids(n)


def _kids(v):
    if isinstance(v, dict):
        if "k" in v or "pat" in v or "body" in v:
            yield v
        else:
            for x in v.values():
                if isinstance(x, (dict, list)):
                    yield from _kids(x)
    elif isinstance(v, list):
        for x in v:
            yield from _kids(x)


def walk(n):
    stack = [n]
    while stack:
        x = stack.pop()
        if isinstance(x, dict):
            yield x
            for v in x.values():
                if isinstance(v, (dict, list)):
                    stack.append(v)
        elif isinstance(x, list):
            stack.extend(x)


def find(n, pred):
    return [x for x in walk(n) if isinstance(x, dict) and pred(x)]


def mcalls(n, name=None, recv_ty=None, def_=None):
    def p(x):
        if x.get("k") != "mcall":
            return False
        if name is not None and x.get("name") != name:
            return False
        if recv_ty is not None and x.get("recv_ty") != recv_ty:
            return False
        if def_ is not None and x.get("def") != def_:
            return False
        return True
    return find(n, p)


def calls(n, def_=None):
    def p(x):
        if x.get("k") != "call":
            return False
        f = x.get("f", {})
        return def_ is None or f.get("def") == def_
    return find(n, p)


def strip(e):
    """Peel &, *, blocks holding a single expression, casts."""
    while isinstance(e, dict):
        k = e.get("k")
        if k == "addr":
            e = e["a"]
        elif k == "un" and e.get("op") == "Deref":
            e = e["a"]
        elif k == "block" and not e.get("stmts") and "expr" in e:
            e = e["expr"]
        elif k == "cast":
            e = e["a"]
        else:
            break
    return e


class LetEnv:
    """Single-initialiser locals of a body: name/id -> init expression."""

    def __init__(self, body):
        self.inits = {}
        self.assigned = set()
        for x in walk(body):
            if not isinstance(x, dict):
                continue
            if x.get("k") == "let" and x.get("pat", {}).get("k") == "bind" and "init" in x \
                    and "els" not in x:
                self.inits.setdefault(x["pat"]["id"], []).append(x["init"])
            if x.get("k") in ("assign", "assignop"):
                l = strip(x["l"])
                if l.get("k") == "local":
                    self.assigned.add(l["id"])
            if x.get("k") == "addr" and x.get("mut"):
                l = strip(x["a"])
                if isinstance(l, dict) and l.get("k") == "local":
                    self.assigned.add(l["id"])

    def init_of(self, local, any_type=False):
        """Initialiser of a single-assignment local. By default only boolean locals are inlined (they are
        named sub-formulas); other locals stay atoms/values unless the caller asks (decision-tree positions)."""
        if not any_type and local.get("ty") != "bool":
            return None
        i = self.inits.get(local["id"], [])
        if len(i) == 1 and local["id"] not in self.assigned:
            return i[0]
        return None


def canon(e, env=None, depth=0):
    """Canonical text of an expression (atoms of truth tables, wiring values)."""
    e = strip(e)
    if not isinstance(e, dict) or depth > 30:
        return "?"
    k = e.get("k")
    if k == "local":
        if env is not None:
            i = env.init_of(e)
            if i is not None:
                return canon(i, env, depth + 1)
        return e["name"]
    if k == "path":
        return e.get("def", "?")
    if k == "field":
        return "%s.%s" % (canon(e["e"], env, depth + 1), e["name"])
    if k == "lit":
        v = e["v"]
        if isinstance(v, bool):
            return "true" if v else "false"
        if isinstance(v, str):
            return '"%s"' % v
        return str(v)
    if k == "mcall":
        d = e.get("def", e["name"])
        return "%s.%s(%s)" % (canon(e["recv"], env, depth + 1), e["name"],
                              ", ".join(canon(a, env, depth + 1) for a in e["args"]))
    if k == "call":
        return "%s(%s)" % (canon(e["f"], env, depth + 1),
                           ", ".join(canon(a, env, depth + 1) for a in e["args"]))
    if k == "un":
        op = {"Not": "!", "Neg": "-", "Deref": "*"}.get(e["op"], e["op"])
        return "%s%s" % (op, canon(e["a"], env, depth + 1))
    if k == "bin":
        return "(%s %s %s)" % (canon(e["a"], env, depth + 1), e["op"], canon(e["b"], env, depth + 1))
    if k == "struct":
        return "%s{%s}" % (e["adt"] + ("::" + e["variant"] if "variant" in e else ""),
                           ", ".join("%s: %s" % (f["name"], canon(f["e"], env, depth + 1))
                                     for f in e["fields"]))
    if k == "tup":
        return "(%s)" % ", ".join(canon(a, env, depth + 1) for a in e["xs"])
    if k == "closure":
        return "closure:" + e["def"]
    if k == "if":
        return "if(%s){%s}else{%s}" % (canon(e["c"], env, depth + 1), canon(e["t"], env, depth + 1),
                                      canon(e.get("e", {}), env, depth + 1))
    if k == "match":
        return "match(%s){%s}" % (canon(e["scrut"], env, depth + 1),
                                  "; ".join("%s=>%s" % (canon_pat(a["pat"]), canon(a["body"], env, depth + 1))
                                            for a in e["arms"]))
    if k == "block":
        if "expr" in e:
            return "{..%s}" % canon(e["expr"], env, depth + 1)
        return "{..}"
    if k == "index":
        return "%s[%s]" % (canon(e["a"], env, depth + 1), canon(e["i"], env, depth + 1))
    return "<%s>" % k


def canon_pat(p):
    k = p.get("k")
    if k == "wild":
        return "_"
    if k == "bind":
        return p["name"] + ("@" + canon_pat(p["sub"]) if "sub" in p else "")
    if k == "ts":
        return "%s(%s)" % (p["def"], ", ".join(canon_pat(x) for x in p["pats"]))
    if k == "struct":
        return "%s{%s}" % (p["def"], ", ".join(f["name"] for f in p["fields"]))
    if k == "path":
        return p["def"]
    if k == "or":
        return " | ".join(canon_pat(x) for x in p["pats"])
    if k == "lit":
        return str(p["v"])
    if k == "ref":
        return canon_pat(p["pat"])
    if k == "tuple":
        return "(%s)" % ", ".join(canon_pat(x) for x in p["pats"])
    return "<%s>" % k


class NotBoolean(Exception):
    pass


def atoms(e, env=None, is_atom=None, out=None):
    """Collect the atoms of a boolean expression in first-occurrence order."""
    if out is None:
        out = []
    e = strip(e)
    k = e.get("k")
    if is_atom and is_atom(e):
        a = canon(e, env)
        if a not in out:
            out.append(a)
        return out
    if k == "local" and env is not None and env.init_of(e) is not None:
        return atoms(env.init_of(e), env, is_atom, out)
    if k == "un" and e["op"] == "Not":
        return atoms(e["a"], env, is_atom, out)
    if k == "bin" and e["op"] in ("And", "Or"):
        atoms(e["a"], env, is_atom, out)
        atoms(e["b"], env, is_atom, out)
        return out
    if k == "bin" and e["op"] in ("Eq", "Ne") and _boolish(e["a"]) and _boolish(e["b"]):
        atoms(e["a"], env, is_atom, out)
        atoms(e["b"], env, is_atom, out)
        return out
    if k == "lit" and isinstance(e["v"], bool):
        return out
    if k == "if" and "e" in e:
        atoms(e["c"], env, is_atom, out)
        atoms(e["t"], env, is_atom, out)
        atoms(e["e"], env, is_atom, out)
        return out
    a = canon(e, env)
    if a not in out:
        out.append(a)
    return out


def _boolish(e):
    e = strip(e)
    return e.get("ty") == "bool" or (e.get("k") == "lit" and isinstance(e["v"], bool)) or \
        e.get("k") in ("un", "bin")


def evalb(e, val, env=None, is_atom=None):
    """Evaluate a boolean expression under val: atom string -> bool."""
    e = strip(e)
    k = e.get("k")
    if is_atom and is_atom(e):
        return val[canon(e, env)]
    if k == "local" and env is not None and env.init_of(e) is not None:
        return evalb(env.init_of(e), val, env, is_atom)
    if k == "lit" and isinstance(e["v"], bool):
        return e["v"]
    if k == "un" and e["op"] == "Not":
        return not evalb(e["a"], val, env, is_atom)
    if k == "bin" and e["op"] == "And":
        return evalb(e["a"], val, env, is_atom) and evalb(e["b"], val, env, is_atom)
    if k == "bin" and e["op"] == "Or":
        return evalb(e["a"], val, env, is_atom) or evalb(e["b"], val, env, is_atom)
    if k == "bin" and e["op"] in ("Eq", "Ne") and _boolish(e["a"]) and _boolish(e["b"]):
        r = evalb(e["a"], val, env, is_atom) == evalb(e["b"], val, env, is_atom)
        return r if e["op"] == "Eq" else not r
    if k == "if" and "e" in e:
        if evalb(e["c"], val, env, is_atom):
            return evalb(e["t"], val, env, is_atom)
        return evalb(e["e"], val, env, is_atom)
    return val[canon(e, env)]


def truth_table(e, env=None, is_atom=None):
    """Return (atoms, {assignment tuple -> bool})."""
    at = atoms(e, env, is_atom)
    if len(at) > 12:
        raise NotBoolean("too many atoms: %d" % len(at))
    tab = {}
    for bits in itertools.product([False, True], repeat=len(at)):
        val = dict(zip(at, bits))
        tab[bits] = evalb(e, val, env, is_atom)
    return at, tab


def equivalent(e, spec_atoms, spec_fn, env=None, is_atom=None, rename=None):
    """Is boolean expression e equivalent to spec_fn(**atoms)? spec_atoms is the
    expected atom list (canonical strings, after `rename`). Returns (ok, detail)."""
    at = atoms(e, env, is_atom)
    if rename:
        at_r = [rename(a) for a in at]
    else:
        at_r = at
    if set(at_r) != set(spec_atoms):
        return False, "atoms %s != expected %s" % (sorted(at_r), sorted(spec_atoms))
    for bits in itertools.product([False, True], repeat=len(at)):
        val = dict(zip(at, bits))
        got = evalb(e, val, env, is_atom)
        want = spec_fn(dict(zip(at_r, bits)))
        if bool(got) != bool(want):
            return False, "differs at %s: code=%s spec=%s" % (dict(zip(at_r, bits)), got, want)
    return True, "%d rows" % (2 ** len(at))


def decide(e, val, env=None, is_atom=None):
    """Evaluate an if/else-if decision tree whose leaves are arbitrary expressions;
    returns the canonical text of the selected leaf."""
    e = strip(e)
    if e.get("k") == "local" and env is not None and env.init_of(e, True) is not None:
        return decide(env.init_of(e, True), val, env, is_atom)
    if e.get("k") == "if" and "e" in e:
        if evalb(e["c"], val, env, is_atom):
            return decide(e["t"], val, env, is_atom)
        return decide(e["e"], val, env, is_atom)
    if e.get("k") == "block" and "expr" in e:
        return decide(e["expr"], val, env, is_atom)
    return canon(e, env)


def decision_atoms(e, env=None, is_atom=None, out=None):
    if out is None:
        out = []
    e = strip(e)
    if e.get("k") == "local" and env is not None and env.init_of(e, True) is not None:
        return decision_atoms(env.init_of(e, True), env, is_atom, out)
    if e.get("k") == "if" and "e" in e:
        atoms(e["c"], env, is_atom, out)
        decision_atoms(e["t"], env, is_atom, out)
        decision_atoms(e["e"], env, is_atom, out)
    elif e.get("k") == "block" and "expr" in e:
        decision_atoms(e["expr"], env, is_atom, out)
    return out


def tail_expr(body):
    """The value expression of a fn body (peels the outer block)."""
    e = body
    while isinstance(e, dict) and e.get("k") == "block" and "expr" in e:
        e = e["expr"]
    return e


def match_arms(m):
    """For a match node: list of (pattern canonical text, body)."""
    return [(canon_pat(a["pat"]), a["body"]) for a in m["arms"]]


# ---------------------------------------------------------------------------
# Straight-line boolean functions with early returns

class _Ret(Exception):
    def __init__(self, v):
        self.v = v


def eval_fn(body, val, is_atom=None, leaf=False):
    """Evaluate a function body of the shape
         [let x = e;]* [if c { return v; }]* tail
    under an assignment of atoms. Statements without `return` are ignored. With
    leaf=True the result is the canonical text of the selected leaf expression."""
    env = LetEnv(body)

    def ev(e):
        if leaf:
            return decide(e, val, env, is_atom)
        return evalb(e, val, env, is_atom)

    def run_block(b):
        for st in b.get("stmts", []):
            s = st["e"] if st.get("k") == "semi" else st
            k = s.get("k")
            if k == "ret":
                raise _Ret(ev(s["e"]))
            if k == "if":
                if not find(s, lambda x: x.get("k") == "ret"):
                    continue
                if evalb(s["c"], val, env, is_atom):
                    run_nested(s["t"])
                elif "e" in s:
                    run_nested(s["e"])
            elif k in ("match", "loop", "block") and find(s, lambda x: x.get("k") == "ret"):
                raise NotBoolean("return inside %s" % k)
        if "expr" in b:
            t = b["expr"]
            if t.get("k") == "ret":
                raise _Ret(ev(t["e"]))
            if t.get("k") == "if" and find(t, lambda x: x.get("k") == "ret") and "e" not in t:
                if evalb(t["c"], val, env, is_atom):
                    run_nested(t["t"])
                return None
            return ev(t)
        return None

    def run_nested(b):
        b = b if b.get("k") == "block" else {"k": "block", "stmts": [], "expr": b}
        r = run_block(b)
        if r is not None:
            raise _Ret(r)

    try:
        return run_block(body)
    except _Ret as r:
        return r.v


def fn_atoms(body, is_atom=None):
    """Atoms of all conditions / returned expressions of a straight-line boolean fn."""
    env = LetEnv(body)
    out = []

    def visit_block(b):
        for st in b.get("stmts", []):
            s = st["e"] if st.get("k") == "semi" else st
            if s.get("k") == "ret" and "e" in s:
                atoms(s["e"], env, is_atom, out)
            elif s.get("k") == "if" and find(s, lambda x: x.get("k") == "ret"):
                atoms(s["c"], env, is_atom, out)
                visit_block(s["t"] if s["t"].get("k") == "block" else {"stmts": [], "expr": s["t"]})
                if "e" in s:
                    visit_block(s["e"] if s["e"].get("k") == "block" else {"stmts": [], "expr": s["e"]})
        if "expr" in b:
            t = b["expr"]
            if t.get("k") == "ret":
                atoms(t["e"], env, is_atom, out)
            elif t.get("k") == "if" and find(t, lambda x: x.get("k") == "ret") and "e" not in t:
                atoms(t["c"], env, is_atom, out)
                visit_block(t["t"])
            else:
                atoms(t, env, is_atom, out)
    visit_block(body)
    return out


class NoInline:
    """LetEnv wrapper that keeps the named locals as atoms (they are not inlined)."""

    def __init__(self, env, names):
        self.env = env
        self.names = set(names)

    def init_of(self, local, any_type=False):
        if local.get("name") in self.names:
            return None
        return self.env.init_of(local, any_type)


class AllInline:
    """LetEnv wrapper that inlines every single-initialiser local regardless of type."""

    def __init__(self, env):
        self.env = env

    def init_of(self, local, any_type=False):
        return self.env.init_of(local, True)
