"""A3 seeded conditional constant propagation, A4 provenance / expression
reconstruction from MIR."""
from .facts import op_place, op_const, place_key, _pk
from . import cfg as C

# ---------------------------------------------------------------------------
# Expression reconstruction (def-use through single-definition locals)

MAXDEPTH = 40


class X(tuple):
    """Expression node: X(kind, *payload). Kinds:
    const(val,str,ty) fnref(path) arg(i,name) local(l,name) phi(l,[X]) field(base,owner,name)
    deref(base) dc(base,variant) idx(base) call(path,resolved,[X],Call) not(X) neg(X)
    bin(op,X,X) cast(X,ty) ref(X) discr(X) agg(adt,variant,[X],fields) closure(path,[X])
    static(path) other(str)"""
    __slots__ = ()

    @property
    def k(self):
        return self[0]


def _mut_borrowed_locals(fn):
    if getattr(fn, "_mutb", None) is None:
        s = set()
        for bb, j, st in fn.stmts():
            if st["k"] == "assign" and st["rv"]["k"] in ("ref", "rawptr") and st["rv"].get("mut", True):
                p = st["rv"]["place"]
                if "deref" not in p["p"]:
                    s.add(p["l"])
        fn._mutb = s
    return fn._mutb


class ExprBuilder:
    def __init__(self, fn, follow_named=True):
        self.fn = fn
        self.defs = fn.defs()
        self.memo = {}
        self.follow_named = follow_named
        self.mutb = _mut_borrowed_locals(fn)

    def local(self, l, depth=0, stack=()):
        if l in self.memo:
            return self.memo[l]
        fn = self.fn
        if l in stack or depth > MAXDEPTH:
            return X(("local", l, fn.local_name(l)))
        ds = self.defs.get(l, [])
        if 1 <= l <= fn.argc and not ds:
            r = X(("arg", l, fn.local_name(l)))
            self.memo[l] = r
            return r
        if 1 <= l <= fn.argc:
            # reassigned argument: phi of the argument and its defs
            xs = [X(("arg", l, fn.local_name(l)))] + [self._def(d, depth, stack + (l,)) for d in ds]
            r = X(("phi", l, xs))
        elif not ds:
            r = X(("local", l, fn.local_name(l)))
        elif len(ds) == 1 and l not in self.mutb:
            r = self._def(ds[0], depth, stack + (l,))
        else:
            xs = [self._def(d, depth, stack + (l,)) for d in ds]
            r = X(("phi", l, xs))
        if not stack:
            self.memo[l] = r
        return r

    def _def(self, d, depth, stack):
        if d[0] == "assign":
            st = d[3]
            if st["place"]["p"]:
                # partial assignment (field of the local): treat as opaque contribution
                return X(("partial", place_key(st["place"])[1], self.rvalue(st["rv"], depth + 1, stack)))
            return self.rvalue(st["rv"], depth + 1, stack)
        if d[0] == "call":
            return self.call(d[2], depth + 1, stack)
        if d[0] == "setdiscr":
            return X(("other", "setdiscr " + d[3]["variant"]))
        return X(("other", "?"))

    def call(self, c, depth=0, stack=()):
        args = [self.operand(a, depth + 1, stack) for a in c.args]
        return X(("call", c.func["path"], c.func.get("resolved"), args, c))

    def place(self, p, depth=0, stack=()):
        e = self.local(p["l"], depth, stack)
        for x in p["p"]:
            if x == "deref":
                e = X(("deref", e))
            elif isinstance(x, dict) and "f" in x:
                # a field of a struct / tuple literal built in this function is the operand it was built from (related
                # locals gathered in a small struct or a tuple read like the locals themselves)
                base = e
                while isinstance(base, X) and base.k in ("ref", "deref"):
                    base = base[1]
                if isinstance(base, X) and base.k == "agg" and base[1] not in ("(array)",):
                    if base[4] and x["f"] in base[4] and x["of"] == base[1]:
                        e = base[3][base[4].index(x["f"])]
                        continue
                    if base[1] == "(tuple)" and x["of"] == "(tuple)" and x["f"].isdigit() and int(x["f"]) < len(base[3]):
                        e = base[3][int(x["f"])]
                        continue
                e = X(("field", e, x["of"], x["f"]))
            elif isinstance(x, dict) and "dc" in x:
                e = X(("dc", e, x["dc"]))
            elif isinstance(x, dict) and "idx" in x:
                e = X(("idx", e, self.local(x["idx"], depth + 1, stack)))
            else:
                e = X(("idx", e, None))
        return e

    def operand(self, op, depth=0, stack=()):
        p = op_place(op)
        if p is not None:
            return self.place(p, depth, stack)
        c = op_const(op)
        if c is not None:
            if "fn" in c:
                return X(("fnref", c["fn"]["path"]))
            if "static" in c:
                return X(("static", c["static"]))
            return X(("const", c.get("val"), c.get("str"), c.get("ty")))
        return X(("other", str(op)))

    def rvalue(self, rv, depth=0, stack=()):
        k = rv["k"]
        if k == "use":
            return self.operand(rv["a"], depth, stack)
        if k in ("ref", "rawptr"):
            return X(("ref", self.place(rv["place"], depth, stack)))
        if k == "un":
            a = self.operand(rv["a"], depth, stack)
            if rv["op"] == "Not":
                return X(("not", a))
            if rv["op"] == "PtrMetadata":
                return X(("len", a))
            return X(("un", rv["op"], a))
        if k == "bin":
            return X(("bin", rv["op"], self.operand(rv["a"], depth, stack),
                      self.operand(rv["b"], depth, stack)))
        if k == "cast":
            return X(("cast", self.operand(rv["a"], depth, stack), rv["ty"]))
        if k == "discr":
            return X(("discr", self.place(rv["place"], depth, stack), rv.get("adt")))
        if k == "agg":
            ops = [self.operand(o, depth + 1, stack) for o in rv["ops"]]
            if "closure" in rv:
                return X(("closure", rv["closure"], ops))
            if "adt" in rv:
                return X(("agg", rv["adt"], rv["variant"], ops, rv.get("fields", [])))
            return X(("agg", "(tuple)" if rv.get("tuple") else "(array)", "", ops, []))
        if k == "repeat":
            return X(("agg", "(array)", "", [self.operand(rv["a"], depth, stack)], []))
        return X(("other", rv.get("str", k)))


def captured_expr(facts, clo, name):
    """What the variable `name` captured by closure `clo` is in its parent function: the parent's expression for the
    operand the closure value was built from (reference wrappers left in place), or None."""
    parent = facts.fns.get(clo.d.get("parent"))
    if parent is None:
        return None
    for bb, j, st in parent.stmts():
        if st["k"] == "assign" and st["rv"]["k"] == "agg" and st["rv"].get("closure") == clo.path:
            caps = st["rv"].get("captures") or []
            if name in caps and caps.index(name) < len(st["rv"]["ops"]):
                return ExprBuilder(parent).operand(st["rv"]["ops"][caps.index(name)])
    return None


def call_sites(facts, f, callee):
    """Where `f` runs `callee`: [(block in f, unit, call)] — directly, or inside a closure that a call of `f` consumes (the
    block is then that of the consuming call: `iter.map(|x| callee(x))`)."""
    out = [(c.bb, f, c) for c in f.calls_to(callee)]
    eb = None
    for g in facts.closures_of(f.path):
        inner = g.calls_to(callee)
        if not inner:
            continue
        eb = eb or ExprBuilder(f)
        # the closure of f itself that g is, or sits in
        rest = g.path[len(f.path):].split("::{closure")
        top = f.path + "::{closure" + rest[1] if len(rest) > 1 else g.path
        for c in f.calls():
            if any(x.k == "closure" and x[1] == top for a_ in c.args for x in walk(eb.operand(a_))):
                out += [(c.bb, g, ic) for ic in inner]
                break
    return out


def walk(x, seen=None):
    """Pre-order walk over an expression DAG."""
    if seen is None:
        seen = set()
    stack = [x]
    while stack:
        e = stack.pop()
        if not isinstance(e, X) or id(e) in seen:
            continue
        seen.add(id(e))
        yield e
        for c in e[1:]:
            if isinstance(c, X):
                stack.append(c)
            elif isinstance(c, list):
                stack.extend(y for y in c if isinstance(y, X))


def walk_until(x, stop):
    """Walk that does not descend below nodes for which stop(node) is true
    (the node itself is yielded)."""
    seen = set()
    stack = [x]
    while stack:
        e = stack.pop()
        if not isinstance(e, X) or id(e) in seen:
            continue
        seen.add(id(e))
        yield e
        if stop(e):
            continue
        for c in e[1:]:
            if isinstance(c, X):
                stack.append(c)
            elif isinstance(c, list):
                stack.extend(y for y in c if isinstance(y, X))


def strip(x):
    """Peel ref/deref/cast/copy wrappers."""
    while isinstance(x, X) and x.k in ("ref", "deref", "cast"):
        x = x[1]
    return x


def is_field(x, owner=None, name=None):
    return isinstance(x, X) and x.k == "field" and (owner is None or x[2] == owner) and \
        (name is None or x[3] == name)


def mentions_field(x, owner, name, stop=None):
    it = walk_until(x, stop) if stop else walk(x)
    return any(is_field(e, owner, name) for e in it)


def is_call(x, *names):
    if not (isinstance(x, X) and x.k == "call"):
        return False
    return x[1] in names or (x[2] is not None and x[2] in names)


def mentions_call(x, *names, stop=None):
    it = walk_until(x, stop) if stop else walk(x)
    return any(is_call(e, *names) for e in it)


def show(x, depth=0):
    if not isinstance(x, X):
        return str(x)
    if depth > 8:
        return "…"
    k = x.k
    d = depth + 1
    if k == "const":
        return str(x[2]) if x[2] is not None else str(x[1])
    if k == "fnref":
        return x[1].split("::")[-1]
    if k == "static":
        return x[1]
    if k in ("arg", "local"):
        return x[2]
    if k == "phi":
        return "φ(%s)" % " | ".join(show(y, d + 2) for y in x[2][:4])
    if k == "field":
        return "%s.%s" % (show(x[1], d), x[3])
    if k == "deref":
        return show(x[1], depth)
    if k == "ref":
        return "&" + show(x[1], depth)
    if k == "dc":
        return "(%s as %s)" % (show(x[1], d), x[2])
    if k == "idx":
        return "%s[..]" % show(x[1], d)
    if k == "call":
        return "%s(%s)" % ("::".join(x[1].split("::")[-2:]), ", ".join(show(a, d) for a in x[3]))
    if k == "not":
        return "!" + show(x[1], d)
    if k == "bin":
        return "(%s %s %s)" % (show(x[2], d), x[1], show(x[3], d))
    if k == "cast":
        return show(x[1], depth)
    if k == "discr":
        return "discr(%s)" % show(x[1], d)
    if k == "len":
        return "len(%s)" % show(x[1], d)
    if k == "agg":
        return "%s::%s(%s)" % (x[1].split("::")[-1], x[2], ", ".join(show(a, d) for a in x[3]))
    if k == "closure":
        return "closure %s" % x[1].split("::", 1)[-1]
    if k == "partial":
        return "partial(%s)" % show(x[2], d)
    return "?%s" % k


# ---------------------------------------------------------------------------
# A3: seeded sparse conditional constant propagation
#
# Abstract values: ("i", n) integers/bools; ("v", variant, payload-or-None) enum
# values with at most one tracked payload (field "0").  None = unknown.

def I(n):
    return ("i", n)


def V(variant, payload=None):
    return ("v", variant, payload)


def _union(a, b):
    """Small disjunction of abstract values: ("s", frozenset) with at most 4 members."""
    sa = a[1] if a[0] == "s" else frozenset([a])
    sb = b[1] if b[0] == "s" else frozenset([b])
    u = sa | sb
    if len(u) > 4:
        return None
    if len(u) == 1:
        return next(iter(u))
    return ("s", u)


def value_set(v):
    """Flatten an abstract value into the set of its alternatives (None = unknown)."""
    if v is None:
        return {None}
    if v[0] == "s":
        return set(v[1])
    return {v}


TRY_BRANCH = ("core::ops::try_trait::Try::branch",)
FROM_RESIDUAL = ("core::ops::try_trait::FromResidual::from_residual",)


DEFAULT_FACTS = [None]
_DEFAULT_MODEL = [None, None]


def _default_model():
    if _DEFAULT_MODEL[0] is not DEFAULT_FACTS[0]:
        _DEFAULT_MODEL[0] = DEFAULT_FACTS[0]
        _DEFAULT_MODEL[1] = combinator_model(DEFAULT_FACTS[0])
    return _DEFAULT_MODEL[1]


def with_default(model):
    """A call model that answers `model` first and the std combinators otherwise."""
    def m(call, argv):
        r = model(call, argv)
        if r is not None:
            return r
        return _default_model()(call, argv) if DEFAULT_FACTS[0] is not None else None
    return m


class Sccp:
    """Forward propagation of known constants from a seed.

    start: list of (block, env) where env maps place keys to abstract values.
    Follows only switch edges consistent with known values. After run():
      .exec_blocks   set of executable blocks
      .exec_edges    set of executable (src,dst)
      .env_in[b]     env at entry of b (intersection over executable in-edges)
      .ret_values    abstract values of _0 at executable return blocks (None = unknown)
    `call_model(call, argvals) -> value or None` models calls returning constants.
    """

    def __init__(self, fn, call_model=None, stop_blocks=(), removed_edges=(), field_model=None, stmt_values=None):
        self.fn = fn
        # stmt_values {(block, statement index): value}: the value one particular assignment is assumed to produce
        self.stmt_values = stmt_values or {}
        # field_model(owner, field) -> abstract value or None: the value of every read whose last projection is that field
        # (a configuration flag fixed for one row of a table), wherever the read sits — callee, closure or the function itself
        self.field_model = field_model
        self.stop_blocks = set(stop_blocks)
        self.removed_edges = set(removed_edges)
        # without a model of its own a propagation still knows the std combinators that merely re-spell a match
        # (map_err, unwrap_or, and_then, … over the fact base the check runs on)
        if call_model is None and DEFAULT_FACTS[0] is not None:
            call_model = _default_model()
        self.call_model = call_model
        self.mutb = _mut_borrowed_locals(fn)
        self.env_in = {}
        self.exec_blocks = set()
        self.exec_edges = set()
        self.ret_values = {}
        self.discr_maps = {}

    # env helpers
    @staticmethod
    def _read(env, key):
        l, proj = key
        # exact or prefix match
        if key in env:
            return env[key]
        for n in range(len(proj) - 1, -1, -1):
            base = (l, proj[:n])
            if base in env:
                v = env[base]
                for p in proj[n:]:
                    v = Sccp._project(v, p)
                    if v is None:
                        return None
                return v
        return None

    @staticmethod
    def _project(v, p):
        if v is None:
            return None
        if v[0] == "s":
            # one of several values: a reference to it is still it; narrowed to a variant, only the members of that variant
            if p == "deref":
                return v
            if isinstance(p, tuple) and p[0] == "dc":
                ms = [x for x in v[1] if x[0] == "v" and x[1] == p[1]]
                if len(ms) == 1:
                    return ms[0]
                return ("s", frozenset(ms)) if ms else None
            return None
        if p == "deref":
            return v
        if v[0] == "c":
            # a captured variable of a closure value, by name (or the only one)
            if isinstance(p, tuple) and p[0] == "f":
                names = v[3] if len(v) > 3 else ()
                if p[1] in names and names.index(p[1]) < len(v[2]):
                    return v[2][names.index(p[1])]
                if len(v[2]) == 1:
                    return v[2][0]
            return None
        if isinstance(p, tuple) and p[0] == "dc":
            if v[0] == "v" and v[1] == p[1]:
                return v
            return None
        if isinstance(p, tuple) and p[0] == "f":
            if v[0] == "v" and p[1] == "0":
                return v[2]
            if v[0] == "t" and str(p[1]).isdigit() and int(p[1]) < len(v[1]):
                return v[1][int(p[1])]
            if v[0] == "t" and len(v[1]) == 1 and len(p) > 2 and str(p[2]).startswith("{closure}"):
                # the single captured variable of a closure (captures are addressed by name)
                return v[1][0]
            return None
        return None

    @staticmethod
    def _write(env, key, val):
        l, proj = key
        for k in list(env):
            if k[0] == l and (k[1][:len(proj)] == proj or proj[:len(k[1])] == k[1]):
                del env[k]
        if val is not None:
            env[key] = val

    def _operand(self, env, op):
        p = op_place(op)
        if p is not None:
            if p["l"] in self.mutb and not p["p"]:
                pass
            if self.field_model is not None and p["p"]:
                v = self._field_value(p)
                if v is not None:
                    return v
            return self._read(env, place_key(p))
        c = op_const(op)
        if c is not None and c.get("val") is not None:
            return I(c["val"])
        if c is not None and isinstance(c.get("str"), str) and c.get("ty") == "&str" and c["str"].startswith('"'):
            # a string literal: a value like any other constant (compared for equality only)
            return ("str", c["str"])
        if c is not None and isinstance(c.get("str"), str):
            import re as _re
            m = _re.match(r"promoted\{(\d+)_\w+, core::option::Option::Some\}", c["str"])
            if m:
                return V("Some", I(int(m.group(1))))
            # Some(<unit variant>) / a unit variant, promoted (`== Some(Ordering::Greater)`)
            m = _re.match(r"promoted\{((?:\w+::)+\w+), core::option::Option::Some\}$", c["str"])
            if m:
                return V("Some", V(m.group(1).split("::")[-1]))
            m = _re.match(r"promoted\{((?:\w+::)+\w+)\}$", c["str"])
            if m and m.group(1)[0].islower() and m.group(1).split("::")[-1][0].isupper():
                return V(m.group(1).split("::")[-1])
        return None

    def _field_value(self, place):
        """The row's value for a place that reads a modelled field, or something inside it (`(low.threads as Some).0`)."""
        if self.field_model is None or not place["p"]:
            return None
        proj = place["p"]
        for i in range(len(proj) - 1, -1, -1):
            x = proj[i]
            if isinstance(x, dict) and "f" in x:
                v = self.field_model(x.get("of"), x["f"])
                if v is not None:
                    for q in proj[i + 1:]:
                        v = self._project(v, _pk(q) if not isinstance(q, str) else q)
                        if v is None:
                            return None
                    return v
        return None

    def _rvalue(self, env, rv):
        k = rv["k"]
        if k == "use":
            return self._operand(env, rv["a"])
        if k in ("ref", "discr") and self.field_model is not None:
            fv = self._field_value(rv["place"])
            if fv is not None:
                if k == "ref":
                    return fv if not rv.get("mut") else None
                if fv[0] == "v":
                    for d, name in rv.get("variants", []):
                        if name == fv[1]:
                            return I(d)
        if k == "un" and rv["op"] == "PtrMetadata":
            # the length of a slice: a row may model the slice (a field) by its length
            a = self._operand(env, rv["a"])
            return a if a is not None and a[0] == "i" else None
        if k == "un" and rv["op"] == "Not":
            a = self._operand(env, rv["a"])
            if a and a[0] == "i" and a[1] in (0, 1):
                return I(1 - a[1])
            if a and a[0] == "s" and all(x[0] == "i" and x[1] in (0, 1) for x in a[1]):
                return ("s", frozenset(I(1 - x[1]) for x in a[1]))
            return None
        if k == "bin" and rv["op"] in ("Add", "Sub", "AddWithOverflow", "SubWithOverflow", "AddUnchecked", "SubUnchecked"):
            a = self._operand(env, rv["a"])
            b = self._operand(env, rv["b"])
            if a and b and a[0] == "i" and b[0] == "i":
                v = a[1] + b[1] if rv["op"].startswith("Add") else a[1] - b[1]
                if v < 0:
                    return None
                return ("t", (I(v), I(0))) if rv["op"].endswith("WithOverflow") else I(v)
            return None
        if k == "bin" and rv["op"] in ("Eq", "Ne", "Lt", "Le", "Gt", "Ge", "BitAnd", "BitOr", "BitXor"):
            a = self._operand(env, rv["a"])
            b = self._operand(env, rv["b"])
            if a and b and a[0] == "i" and b[0] == "i":
                x, y = a[1], b[1]
                r = {"Eq": x == y, "Ne": x != y, "Lt": x < y, "Le": x <= y, "Gt": x > y,
                     "Ge": x >= y, "BitAnd": x & y, "BitOr": x | y, "BitXor": x ^ y}[rv["op"]]
                return I(int(r))
            return None
        if k == "discr":
            v = self._read(env, place_key(rv["place"]))
            if v and v[0] == "s" and all(x[0] == "v" for x in v[1]):
                ds = set()
                for x in v[1]:
                    for d, name in rv.get("variants", []):
                        if name == x[1]:
                            ds.add(I(d))
                if len(ds) == len({x[1] for x in v[1]}):
                    return ("s", frozenset(ds)) if len(ds) > 1 else next(iter(ds))
                return None
            if v and v[0] == "v":
                for d, name in rv.get("variants", []):
                    if name == v[1]:
                        return I(d)
            return None
        if k == "agg" and "adt" in rv:
            payload = None
            if len(rv["ops"]) == 1:
                payload = self._operand(env, rv["ops"][0])
            return V(rv["variant"], payload)
        if k == "agg" and "closure" in rv:
            # a closure value: which closure, and what it captured (by value or through a shared reference)
            return ("c", rv["closure"], tuple(self._operand(env, o) for o in rv["ops"]), tuple(rv.get("captures") or ()))
        if k == "agg" and rv.get("tuple") and len(rv["ops"]) >= 2:
            # (a, b, …) as scrutinee of a match: tracked per component
            vals = tuple(self._operand(env, o) for o in rv["ops"])
            return ("t", vals) if any(x is not None for x in vals) else None
        if k == "ref":
            # a shared reference to a known value reads as that value through deref
            if not rv.get("mut"):
                return self._read(env, place_key(rv["place"]))
            return None
        if k == "cast":
            return self._operand(env, rv["a"])
        return None

    def _transfer(self, b, env):
        env = dict(env)
        blk = self.fn.blocks[b]
        for j_, st in enumerate(blk["stmts"]):
            if st["k"] == "assign":
                key = place_key(st["place"])
                val = self.stmt_values[(b, j_)] if (b, j_) in self.stmt_values else self._rvalue(env, st["rv"])
                if st["rv"]["k"] in ("ref", "rawptr") and st["rv"].get("mut", True):
                    # value may change behind our back: forget the borrowed place
                    self._write(env, place_key(st["rv"]["place"]), None)
                if key[0] in self.mutb:
                    val = None
                self._write(env, key, val)
            elif st["k"] == "setdiscr":
                self._write(env, place_key(st["place"]), V(st["variant"]))
        t = blk["term"]
        k = t["k"]
        outs = []
        if k == "switch":
            v = self._operand(env, t["op"])
            if v is not None and v[0] == "s" and all(x[0] == "i" for x in v[1]):
                tg = []
                for x in v[1]:
                    t1 = None
                    for val, bb in t["targets"]:
                        if val == x[1]:
                            t1 = bb
                            break
                    if t1 is None:
                        t1 = t["otherwise"]
                    if t1 not in tg:
                        tg.append(t1)
                outs = [(t1, env) for t1 in tg]
            elif v is not None and v[0] == "i":
                tgt = None
                for val, bb in t["targets"]:
                    if val == v[1]:
                        tgt = bb
                        break
                if tgt is None:
                    tgt = t["otherwise"]
                outs = [(tgt, env)]
            else:
                outs = [(s, env) for s in self.fn.succ(b)]
        elif k == "call":
            if t.get("t") is not None:
                argv = [self._operand(env, a) for a in t["args"]]
                val = None
                names = {t["func"]["path"], t["func"].get("resolved")}
                if names & set(TRY_BRANCH):
                    a = argv[0] if argv else None
                    if a and a[0] == "v":
                        if a[1] in ("Ok", "Some"):
                            val = V("Continue", a[2])
                        elif a[1] in ("Err", "None"):
                            val = V("Break", None)
                elif names & set(FROM_RESIDUAL):
                    dty = self.fn.local_ty(t["dest"]["l"]) if not t["dest"]["p"] else ""
                    if dty.startswith("std::option::Option<"):
                        val = V("None", None)
                    elif dty.startswith("std::result::Result<"):
                        val = V("Err", None)
                elif self.call_model is not None:
                    from .facts import Call
                    val = self.call_model(Call(self.fn, b, t), argv)
                env2 = dict(env)
                # &mut arguments may be modified by the callee
                for a in t["args"]:
                    p = op_place(a)
                    if p is not None and not p["p"]:
                        self._forget_borrow_targets(env2, p["l"])
                self._write(env2, place_key(t["dest"]), val)
                outs = [(t["t"], env2)]
        elif k == "drop":
            env2 = dict(env)
            outs = [(t["t"], env2)]
        else:
            outs = [(s, env) for s in self.fn.succ(b)]
        if k == "return":
            self.ret_values[b] = self._read(env, (0, ()))
        return outs

    def _forget_borrow_targets(self, env, l):
        # if local l is a &mut borrow of some place, forget that place
        for d in self.fn.defs().get(l, []):
            if d[0] == "assign" and d[3]["rv"]["k"] in ("ref", "rawptr") and d[3]["rv"].get("mut", True):
                self._write(env, place_key(d[3]["rv"]["place"]), None)

    def run(self, starts):
        work = []
        for b, env in starts:
            self._merge(b, env, None)
            work.append(b)
        n = 0
        while work:
            b = work.pop()
            n += 1
            if n > 20000:
                raise RuntimeError("sccp did not converge in %s" % self.fn.path)
            self.exec_blocks.add(b)
            if b in self.stop_blocks:
                continue
            for s, env in self._transfer(b, self.env_in[b]):
                if (b, s) in self.removed_edges:
                    continue
                self.exec_edges.add((b, s))
                if self._merge(s, env, b):
                    work.append(s)
        return self

    def _merge(self, b, env, src):
        if b not in self.env_in:
            self.env_in[b] = dict(env)
            return True
        old = self.env_in[b]
        new = {}
        for k, v in old.items():
            w = env.get(k)
            if w is None:
                continue
            if w == v:
                new[k] = v
            else:
                u = _union(v, w)
                if u is not None:
                    new[k] = u
        if new != old:
            self.env_in[b] = new
            return True
        return b not in self.exec_blocks


def seed_after_call(fn, call, value, call_model=None, stop_blocks=(), removed_edges=(), field_model=None):
    """Run SCCP assuming `call` just returned `value`."""
    s = Sccp(fn, call_model=call_model, stop_blocks=stop_blocks, removed_edges=removed_edges, field_model=field_model)
    if call.target is None:
        return s
    env = {}
    Sccp._write(env, place_key(call.dest), value)
    return s.run([(call.target, env)])


# ---------------------------------------------------------------------------
# A2: edge guards

def cond_switches(fn, pred, eb=None):
    """Boolean switches whose operand is `e` or `!e` (any nesting of not) with
    pred(e) true. Returns [(bb, edge_when_e_true, edge_when_e_false, expr)] where
    edges are (src, dst)."""
    eb = eb or ExprBuilder(fn)
    out = []
    for i, b in enumerate(fn.blocks):
        if b["cleanup"] or b["term"]["k"] != "switch":
            continue
        bs = C.bool_switch(fn, i)
        if bs is None:
            continue
        op, tt, ft = bs
        e = eb.operand(op)
        neg = False
        while isinstance(e, X) and e.k == "not":
            e = e[1]
            neg = not neg
        if pred(e):
            if neg:
                tt, ft = ft, tt
            out.append((i, (i, tt), (i, ft), e))
    return out


def discr_switch_edges(fn, pred, eb=None):
    """Switches on the discriminant of a place whose expression satisfies pred.
    Returns [(bb, {variant: (src,dst)}, otherwise_edge, expr)]."""
    from .graph import discr_switches
    eb = eb or ExprBuilder(fn)
    out = []
    for bb, adt, place, arms, ow, ow_live, missing in discr_switches(fn):
        e = eb.place(place)
        if pred(e):
            out.append((bb, {v: (bb, t) for v, t in arms.items()}, (bb, ow), e, missing))
    return out


def guarded(fn, site_bbs, switches, polarity=True):
    """Is every path from entry to each of site_bbs forced through the `polarity`
    edge of one of `switches` (as returned by cond_switches)? Returns the list of
    site blocks that are reachable without taking such an edge."""
    removed = set()
    for bb, te, fe, e in switches:
        removed.add(te if polarity else fe)
    r = C.reach(fn, [0], removed_edges=removed)
    return [s for s in site_bbs if s in r]


CMP_OPS = ("Eq", "Ne", "Lt", "Le", "Gt", "Ge")
_FLIP = {"Lt": "Gt", "Gt": "Lt", "Le": "Ge", "Ge": "Le", "Eq": "Eq", "Ne": "Ne"}


def cmp_stmts(fn, eb=None):
    """Every comparison the function computes, wherever its answer goes (a switch, a named flag, one leg of `&&`):
    [(bb, stmt index, op, lhs expr, rhs expr)]."""
    eb = eb or ExprBuilder(fn)
    out = []
    for bb, j, st in fn.stmts():
        if st["k"] == "assign" and st["rv"]["k"] == "bin" and st["rv"].get("op") in CMP_OPS and not fn.blocks[bb]["cleanup"]:
            out.append((bb, j, st["rv"]["op"], eb.operand(st["rv"]["a"]), eb.operand(st["rv"]["b"])))
    return out


def cmp_truth(op, lhs_is_x, relation):
    """The value (0/1) a comparison `x op y` (lhs_is_x) or `y op x` takes when `x relation y` holds, or None when the
    comparison does not decide that relation. relation ∈ {"Ge", "Gt", "Lt", "Le"} read as x REL y."""
    if not lhs_is_x:
        op = _FLIP[op]
    table = {("Ge", "Ge"): 1, ("Lt", "Ge"): 0, ("Gt", "Gt"): 1, ("Le", "Gt"): 0,
             ("Lt", "Lt"): 1, ("Ge", "Lt"): 0, ("Le", "Le"): 1, ("Gt", "Le"): 0}
    return table.get((op, relation))


def excluded_by_test(fn, tests, site_bbs, call_model=None):
    """tests: [(bb, stmt index, value)]. Is there a test such that (a) no site is reached when the comparison at (bb, index)
    yields `value`, and (b) no site is reached without evaluating it? Decided by constant propagation, so a named flag or
    an `&&` chain between the comparison and the branch makes no difference. Returns the tests that qualify."""
    out = []
    for bb, j, val in tests:
        sx = Sccp(fn, call_model=call_model, stmt_values={(bb, j): I(val)}).run([(bb, {})])
        if any(s_ in sx.exec_blocks for s_ in site_bbs):
            continue
        sy = Sccp(fn, call_model=call_model, stop_blocks=[bb]).run([(0, {})])
        if any(s_ in sy.exec_blocks and s_ != bb for s_ in site_bbs):
            continue
        out.append((bb, j, val))
    return out


def always_after(fn, first_bbs, site_bbs, call_model=None, start=0, field_model=None):
    """Is every execution that reaches one of site_bbs one that went through one of first_bbs before? Dominance decided by
    constant propagation (the blocks of first_bbs are cut out; what is still reached did not need them), so that a flag
    computed on the way (`let stop = a()? || !b()?; if stop { return }`) does not hide the order."""
    first_bbs = set(first_bbs)
    if not first_bbs:
        return False
    sx = Sccp(fn, call_model=call_model, stop_blocks=first_bbs, field_model=field_model).run([(start, {})])
    return not any(s_ in sx.exec_blocks and s_ not in first_bbs for s_ in site_bbs)


# ---------------------------------------------------------------------------
# Option / Result / bool combinators whose closures are in the fact base

def combinator_model(facts, inner=None, depth=0, field_model=None, callees=None):
    """A call model that answers the std combinators which merely re-spell an `if let` / `match` — Option::map_or, map,
    filter, is_some_and, and_then, unwrap_or, is_some/is_none, Result::is_ok/is_err, bool::then_some … — by evaluating the
    closure they are given (seeded propagation on the closure's body, same model inside). `inner(call, argv)` is consulted
    first and for every call this model does not know. What a closure captures from its parent is unknown to it."""
    def closure_of(call, i, argv=None):
        # (closure fn, captured values)
        if argv is not None and i < len(argv) and argv[i] is not None and argv[i][0] == "c" and argv[i][1] in facts.fns:
            return facts.fns[argv[i][1]], argv[i]
        try:
            e = ExprBuilder(call.fn).operand(call.args[i])
        except Exception:
            return None, ()
        for x in walk(e):
            if x.k == "closure" and x[1] in facts.fns:
                return facts.fns[x[1]], ()
        return None, ()

    def run_closure(gc, params):
        g, caps = gc
        if g is None or depth > 3:
            return None
        env = {}
        if caps and caps[0] == "c":
            # the environment is the closure value itself (captures addressed by name)
            Sccp._write(env, (1, ()), caps)
        elif caps:
            Sccp._write(env, (1, ()), ("t", tuple(caps)))
        for i, v in enumerate(params):
            if v is not None:
                Sccp._write(env, (2 + i, ()), v)
        sx = Sccp(g, call_model=combinator_model(facts, inner, depth + 1, field_model, callees), field_model=field_model).run([(0, env)])
        vals = set()
        for v in sx.ret_values.values():
            vals |= set(value_set(v))
        if len(vals) == 1 and None not in vals:
            return next(iter(vals))
        if vals and None not in vals and len(vals) <= 4:
            return ("s", frozenset(vals))
        return None

    def variant(v):
        return v[1] if v is not None and v[0] == "v" else None

    def run_callee(g, argv):
        # a function of the workspace evaluated in place (callees(path) says which ones: small pure predicates / accessors)
        if depth > 3:
            return None
        env = {}
        for i, v in enumerate(argv):
            if v is not None:
                Sccp._write(env, (1 + i, ()), v)
        sx = Sccp(g, call_model=combinator_model(facts, inner, depth + 1, field_model, callees), field_model=field_model).run([(0, env)])
        vals = set()
        for v in sx.ret_values.values():
            vals |= set(value_set(v))
        if len(vals) == 1 and None not in vals:
            return next(iter(vals))
        if vals and None not in vals and len(vals) <= 4:
            return ("s", frozenset(vals))
        return None

    def model(call, argv):
        if inner is not None:
            r = inner(call, argv)
            if r is not None:
                return r
        if callees is not None and call.callee in facts.fns and callees(call.callee):
            return run_callee(facts.fns[call.callee], argv)
        p = call.path
        a0 = argv[0] if argv else None
        if a0 is not None and a0[0] == "s" and p.startswith(("core::option::Option::", "core::result::Result::")):
            # one of several receivers: the answers for each
            out = None
            for m_ in a0[1]:
                r_ = model(call, [m_] + list(argv[1:]))
                if r_ is None:
                    return None
                out = r_ if out is None else (out if out == r_ else _union(out, r_))
                if out is None:
                    return None
            return out
        va = variant(a0)
        if p in ("core::cmp::PartialEq::eq", "core::cmp::PartialEq::ne") and len(argv) == 2 and \
                all(a is not None and a[0] in ("i", "v") for a in argv):
            def known(v):
                return v is not None and (v[0] == "i" or (v[0] == "v" and (v[2] is None or known(v[2]))))

            def differ(a, b):
                # True / False / None (cannot tell: equal variants whose payloads are not both known)
                if a[0] != b[0]:
                    return True
                if a[0] == "i":
                    return a[1] != b[1]
                if a[1] != b[1]:
                    return True
                if a[2] is None and b[2] is None:
                    return None if a[1] in ("Some", "Ok", "Err") else False
                if a[2] is None or b[2] is None:
                    return None
                return differ(a[2], b[2])
            d = differ(argv[0], argv[1])
            if d is not None:
                return I(int(d if p.endswith("::ne") else not d))
        ints = len(argv) == 2 and all(a is not None and a[0] == "i" for a in argv)
        if ints and p in ("core::cmp::Ord::cmp", "core::cmp::PartialOrd::partial_cmp"):
            o = V("Less" if argv[0][1] < argv[1][1] else ("Equal" if argv[0][1] == argv[1][1] else "Greater"))
            return o if p.endswith("::cmp") else V("Some", o)
        if ints and p in ("core::cmp::PartialOrd::lt", "core::cmp::PartialOrd::le", "core::cmp::PartialOrd::gt", "core::cmp::PartialOrd::ge"):
            x_, y_ = argv[0][1], argv[1][1]
            return I(int({"lt": x_ < y_, "le": x_ <= y_, "gt": x_ > y_, "ge": x_ >= y_}[p[-2:]]))
        if ints and p in ("core::cmp::max", "core::cmp::Ord::max"):
            return I(max(argv[0][1], argv[1][1]))
        if ints and p in ("core::cmp::min", "core::cmp::Ord::min"):
            return I(min(argv[0][1], argv[1][1]))
        if ints and p.endswith("::saturating_sub") and p.split("::")[0] in ("usize", "u64", "u32", "u8", "u16", "core"):
            return I(max(0, argv[0][1] - argv[1][1]))
        if p.endswith(("Option::map_or", "Result::map_or")):
            if va in ("None", "Err"):
                return argv[1]
            if va in ("Some", "Ok"):
                return run_closure(closure_of(call, 2, argv), [a0[2]])
            return None
        if p.endswith(("Option::is_some_and", "Result::is_ok_and")):
            if va in ("None", "Err"):
                return I(0)
            if va in ("Some", "Ok"):
                return run_closure(closure_of(call, 1, argv), [a0[2]])
            return None
        if p.endswith("Option::is_none_or"):
            if va == "None":
                return I(1)
            if va == "Some":
                return run_closure(closure_of(call, 1, argv), [a0[2]])
            return None
        if p.endswith(("Option::map", "Result::map")):
            if va in ("None", "Err"):
                return a0
            if va in ("Some", "Ok"):
                return V(va, run_closure(closure_of(call, 1, argv), [a0[2]]))
            return None
        if p.endswith(("Option::and_then", "Result::and_then")):
            if va == "None":
                return a0
            if va == "Err":
                return V("Err", a0[2])
            if va in ("Some", "Ok"):
                return run_closure(closure_of(call, 1, argv), [a0[2]])
            return None
        if p.endswith(("Option::or_else", "Result::or_else")):
            if va in ("Some", "Ok"):
                return a0
            if va == "None":
                return run_closure(closure_of(call, 1, argv), [])
            if va == "Err":
                return run_closure(closure_of(call, 1, argv), [a0[2]])
            return None
        if p.endswith(("Option::and", "Result::and")):
            if va in ("None", "Err"):
                return a0
            if va in ("Some", "Ok"):
                return argv[1]
            return None
        if p.endswith(("Option::or", "Result::or")):
            if va in ("Some", "Ok"):
                return a0
            if va in ("None", "Err"):
                return argv[1]
            return None
        if p.endswith(("Option::ok_or", "Option::ok_or_else")):
            if va == "Some":
                return V("Ok", a0[2])
            if va == "None":
                return V("Err", None)
            return None
        if p.endswith(("Result::ok",)):
            if va == "Ok":
                return V("Some", a0[2])
            if va == "Err":
                return V("None", None)
            return None
        if p.endswith("Option::filter"):
            if va == "None":
                return a0
            if va == "Some":
                keep = run_closure(closure_of(call, 1, argv), [a0[2]])
                if keep == I(1):
                    return a0
                if keep == I(0):
                    return V("None", None)
                return ("s", frozenset([a0, V("None", None)]))
            return None
        if p.endswith(("Option::as_ref", "Option::as_mut", "Option::as_deref", "Option::cloned", "Option::copied", "Result::as_ref",
                       "Option::as_deref_mut", "Result::as_mut")) and a0 is not None and a0[0] == "v":
            return a0
        if p in ("core::convert::From::from", "core::convert::Into::into") and a0 is not None and a0[0] == "i" and len(argv) == 1:
            # integer / bool widening
            return a0
        if p.endswith("Result::map_err"):
            if va == "Ok":
                return a0
            if va == "Err":
                return V("Err", None)
            return None
        if p.endswith("Option::transpose"):
            if va == "None":
                return V("Ok", V("None", None))
            if va == "Some" and a0[2] is not None and a0[2][0] == "v":
                return V("Ok", V("Some", a0[2][2])) if a0[2][1] == "Ok" else (V("Err", a0[2][2]) if a0[2][1] == "Err" else None)
            return None
        if p.endswith(("Option::unwrap_or", "Result::unwrap_or")):
            if va in ("None", "Err"):
                return argv[1]
            if va in ("Some", "Ok"):
                return a0[2]
            return None
        if p.endswith(("Option::is_some", "Result::is_ok")):
            return I(1) if va in ("Some", "Ok") else (I(0) if va in ("None", "Err") else None)
        if p.endswith(("Option::is_none", "Result::is_err")):
            return I(1) if va in ("None", "Err") else (I(0) if va in ("Some", "Ok") else None)
        if p.endswith("bool::then_some"):
            if a0 == I(1):
                return V("Some", argv[1])
            if a0 == I(0):
                return V("None", None)
            return None
        if p.endswith("bool::then"):
            if a0 == I(1):
                return V("Some", run_closure(closure_of(call, 1, argv), []))
            if a0 == I(0):
                return V("None", None)
            return None
        return None
    return model


def table(facts, f, fields=None, args=None, calls=None, callees=None, start=0, stop_blocks=()):
    """Rows of a decision table computed on the MIR of `f` (seeded propagation; helper methods evaluated in place when
    callees(path) says so; closures of Option/Result combinators evaluated).
      fields: {(owner, field): [values …]}    every read of that field has the row's value
      args:   {param index (1-based): [values …]}
      calls:  {path suffix: [values …]}      every call whose path ends so answers the row's value
    Yields (row, sccp) with row = {"field:owner.f" | "arg:i" | "call:suffix": value}."""
    import itertools
    fields, args, calls = fields or {}, args or {}, calls or {}
    keys = [("field", k) for k in fields] + [("arg", k) for k in args] + [("call", k) for k in calls]
    doms = [fields[k] for k in fields] + [args[k] for k in args] + [calls[k] for k in calls]
    for combo in itertools.product(*doms):
        row = dict(zip(keys, combo))

        def fm(owner, name, row=row):
            return row.get(("field", (owner, name)))

        def inner(call, argv, row=row):
            for (kind, k), v in row.items():
                if kind == "call" and call.path.endswith(k):
                    return v
            return None
        env = {}
        for (kind, k), v in row.items():
            if kind == "arg" and v is not None:
                Sccp._write(env, (k, ()), v)
        sx = Sccp(f, call_model=combinator_model(facts, inner, field_model=fm, callees=callees), field_model=fm,
                  stop_blocks=stop_blocks).run([(start, env)])
        yield row, sx


def ret_set(sx):
    out = set()
    for v in sx.ret_values.values():
        out |= set(value_set(v))
    return out


def operand_at(sx, bb, stmt, op):
    """The abstract value of operand `op` as read by statement `stmt` of block `bb` under the propagation result `sx`
    (the block's statements before `stmt` are replayed on the block's entry environment)."""
    if bb not in sx.exec_blocks:
        return None
    env = dict(sx.env_in.get(bb, {}))
    for st in sx.fn.blocks[bb]["stmts"]:
        if st is stmt:
            break
        if st["k"] == "assign":
            val = sx._rvalue(env, st["rv"])
            if st["rv"]["k"] in ("ref", "rawptr") and st["rv"].get("mut", True):
                sx._write(env, place_key(st["rv"]["place"]), None)
            sx._write(env, place_key(st["place"]), val)
    return sx._operand(env, op)
