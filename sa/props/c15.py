"""C15 — exit status and error reporting contract."""
import itertools
from .. import cfg as C
from .. import hirx as H
from ..flow import ExprBuilder, mentions_call, mentions_field, is_call, walk, show, cond_switches, guarded, \
    seed_after_call, Sccp, I, V, X, value_set
from ..graph import classify_result, CallGraph
from .. import wire as W
from ..facts import op_const, op_place

TITLE = "exit status / error reporting"
EXPLANATION = (
    "Decided on the HIR/MIR of crate rg: (STATUS) the exit-code decision tree of rg::run is exhaustively compared "
    "with the specified truth table over {matched, quiet, errored} (8 rows) and rg::main maps Err to 0 only under "
    "BrokenPipe and to 2 otherwise; (MATCHED) the value called `matched` derives from the four mode functions "
    "(or the constant false under !matches_possible) and, inside them, only from has_match()/listing; (PIPE) every "
    "handled error of a stdout-writing call tests BrokenPipe and stops quietly on that edge; (CONTINUE) per-file "
    "errors set the error flag and continue; (FLAG) only set_errored writes ERRORED, process::exit and raw stderr "
    "writes are confined to the message macros, err_message! sets the flag before printing; (CONFIG) matcher / "
    "searcher / walker construction errors are propagated before the first search. That every failing syscall "
    "becomes an Err in the libraries, and promptness, are not decided. (CHILD) a failing --pre / -z command is an Err of SearchWorker::search: close() runs after the search on every path and its error is the answer. In the parallel worker has_match() is consulted, and the shared flag set, on every path from a successful search to the closure's return (including the broken-pipe Quit).")
NOT_DECIDED = ["that every failing syscall is turned into an Err by the libraries", "promptness after the pipe closes"]

KIND = "std::io::error::Error::kind"
EQ = "core::cmp::PartialEq::eq"
SET_ERRORED = "rg::messages::set_errored"
SEARCH = "rg::search::SearchWorker::search"


def is_pipe_test(e):
    """e is `kind() == BrokenPipe` / `!=` expressed as PartialEq::eq/ne call."""
    if not (isinstance(e, X) and e.k == "call" and e[1] in (EQ, "core::cmp::PartialEq::ne")):
        return False
    has_kind = mentions_call(e, KIND)
    has_bp = any(x.k == "const" and x[2] and "BrokenPipe" in str(x[2]) for x in walk(e))
    return has_kind and has_bp


def pipe_switches(f, eb=None):
    """cond switches normalised to 'is broken pipe' polarity."""
    sw = cond_switches(f, is_pipe_test, eb)
    out = []
    for bb, te, fe, e in sw:
        if e[1].endswith("::ne"):
            te, fe = fe, te
        out.append((bb, te, fe, e))
    return out


def chain_any_switches(facts, f, eb=None):
    """The iterator spelling of main's walk over the error chain: a switch on `err.chain().any(|c| … kind() == BrokenPipe …)`.
    True edge = "a broken pipe is somewhere in the chain". The closure (and the closures it creates, e.g. the one given to
    map_or after downcast_ref) must hold a BrokenPipe test."""
    eb = eb or ExprBuilder(f)

    def closure_tests_pipe(path, depth=0):
        g = facts.fns.get(path)
        if g is None or depth > 3:
            return False
        if pipe_switches(g) or any(is_pipe_test(ExprBuilder(g).rvalue(st["rv"])) for _, _, st in g.stmts()
                                   if st["k"] == "assign" and st["place"]["l"] == 0) or \
                any(is_pipe_test(ExprBuilder(g).call(c)) for c in g.calls()):
            return True
        return any(closure_tests_pipe(h.path, depth + 1) for h in facts.closures_of(path, recursive=False))

    def pred(e):
        return is_call(e, "core::iter::traits::iterator::Iterator::any") and \
            any(is_call(x, "anyhow::error::<impl anyhow::Error>::chain", "anyhow::Error::chain") or
                (x.k == "call" and x[1].endswith("::chain")) for x in walk(e)) and \
            any(x.k == "closure" and closure_tests_pipe(x[1]) for x in walk(e))
    return cond_switches(f, pred, eb)


def loop_headers(f):
    return {h for _, h in C.back_edges(f)}


def calls_in(f, blocks, *names):
    return [c for c in f.calls() if c.bb in blocks and c.is_(*names)]


def err_returns(f, blocks):
    out = []
    for bb, j, st in f.stmts():
        if bb in blocks and st["k"] == "assign" and st["place"]["l"] == 0 and not st["place"]["p"] and \
                st["rv"]["k"] == "agg" and st["rv"].get("variant") == "Err":
            out.append(bb)
    for c in f.calls():
        if c.bb in blocks and c.is_("core::ops::try_trait::FromResidual::from_residual"):
            out.append(c.bb)
    return out


def _operands(rv):
    out = []
    for k in ("a", "b"):
        if isinstance(rv.get(k), dict):
            out.append(rv[k])
    out += [o for o in rv.get("ops", []) if isinstance(o, dict)]
    return out


def status_rule(ctx, r):
    facts = ctx.facts
    run = facts.fn("rg::run")
    tail = H.tail_expr(run.hir)
    # Ok(<decision tree>)
    node = None
    if tail.get("k") == "call" and tail["f"].get("def") == "core::result::Result::Ok":
        node = tail["args"][0]
    if node is None:
        r.bad("run|shape", "anchor-missing: rg::run does not end in Ok(<status expression>)", fn=run)
        return
    # decided on the MIR so that the form of the expression (if/else chain, match on a tuple, early returns) does not
    # matter: the mode functions answer Ok(matched), HiArgs::quiet() and messages::errored() answer the row's bits, every
    # other call is unknown; the ExitCode constructed on the way out must be the specified one and the only one
    QUIET, ERRORED = "rg::flags::hiargs::HiArgs::quiet", "rg::messages::errored"
    if not run.calls_to(ERRORED):
        r.bad("run|atoms", "exit status does not consult messages::errored()", fn=run)
        return
    # `matched`: the bool local that receives the answers of the mode functions (and `false` where no match is possible);
    # the table starts where it is first read
    eb0 = ExprBuilder(run)
    ml = None
    for l_ in range(len(run.locals)):
        if run.local_ty(l_) == "bool" and len(run.defs().get(l_, [])) >= 2:
            e0 = eb0.local(l_)
            if any(is_call(x, "rg::search", "rg::files", "rg::search_parallel", "rg::files_parallel") for x in walk(e0)):
                ml = l_
                break
    readers = sorted({bb for bb, j, st in run.stmts() if st["k"] == "assign" and any(
        (op_place(o) or {}).get("l") == ml and not (op_place(o) or {}).get("p") for o in _operands(st["rv"]))} |
        {bb for bb, b in enumerate(run.blocks) if b["term"]["k"] == "switch" and (op_place(b["term"].get("op", {})) or {}).get("l") == ml}) \
        if ml is not None else []
    joins = [b for b in readers if not any(o != b and C.dominates(run, o, b) for o in readers)]
    if ml is None or not joins:
        r.bad("run|atoms", "anchor-missing: no bool local of rg::run collects the answers of search / files / *_parallel", fn=run)
        return
    for m, q, e in itertools.product([0, 1], repeat=3):
        built = {}

        def model(call, argv, m=m, q=q, e=e, built=built):
            if call.path == QUIET:
                return I(q)
            if call.path == ERRORED:
                return I(e)
            dty = run.local_ty(call.dest["l"]) if call.dest is not None and not call.dest["p"] else ""
            if dty.startswith("std::result::Result<bool,"):
                return V("Ok", I(m))
            if call.is_("core::convert::From::from") and dty.endswith("ExitCode"):
                a = argv[0] if argv else None
                if a is not None and a[0] == "s" and all(x[0] == "i" for x in a[1]):
                    built[call.bb] = tuple(sorted(x[1] for x in a[1]))
                else:
                    built[call.bb] = (a[1],) if (a is not None and a[0] == "i") else None
            return None
        s0 = Sccp(run, call_model=model).run([(0, {})])
        built.clear()
        starts = []
        for jb in joins:
            env = dict(s0.env_in.get(jb, {}))
            Sccp._write(env, (ml, ()), I(m))
            starts.append((jb, env))
        sx = Sccp(run, call_model=model).run(starts)
        # the ExitCode values constructed on executable paths (the single return block merges them with the early returns
        # of the other modes, so they are read where they are built)
        codes = {x for bb_, v_ in built.items() if bb_ in sx.exec_blocks and v_ is not None for x in v_}
        unknown = [bb_ for bb_, v_ in built.items() if bb_ in sx.exec_blocks and v_ is None]
        want = 0 if (m and (q or not e)) else (2 if e else 1)
        key = "run|matched=%d,quiet=%d,errored=%d" % (m, q, e)
        if codes == {want} and not unknown:
            r.ok(key, "-> ExitCode::from(%d)" % want, fn=run)
        else:
            r.bad(key, "exit status for matched=%s quiet=%s errored=%s is %s%s, specified ExitCode::from(%d): it may depend only on "
                  "matched, args.quiet() and messages::errored()" % (bool(m), bool(q), bool(e), sorted(codes) or "undetermined",
                                                                      " (or something not determined by them)" if unknown else "", want),
                  fn=run, construct="status")
    # rg::main
    main = facts.fn("rg::main")
    eb = ExprBuilder(main)
    froms = [c for c in main.calls() if c.is_("core::convert::From::from") and
             main.local_ty(c.dest["l"]).endswith("ExitCode")]
    sw = pipe_switches(main, eb) + chain_any_switches(facts, main, eb)
    zeros = [c for c in froms if (op_const(c.args[0]) or {}).get("val") == 0]
    twos = [c for c in froms if (op_const(c.args[0]) or {}).get("val") == 2]
    others = [c for c in froms if c not in zeros and c not in twos]
    if not sw or not zeros or not twos or others:
        r.bad("main|shape", "rg::main: expected ExitCode 0 under BrokenPipe and 2 otherwise (found 0:%d 2:%d other:%d, "
              "pipe tests:%d)" % (len(zeros), len(twos), len(others), len(sw)), fn=main)
        return
    esc = guarded(main, [c.bb for c in zeros], sw, polarity=True)
    if esc:
        r.bad("main|zero", "rg::main can return ExitCode 0 for an error that is not a broken pipe", fn=main)
    else:
        r.ok("main|zero", "ExitCode::from(0) only on the BrokenPipe edge", fn=main)
    # 2 is preceded by the diagnostic
    writes = [c.bb for c in main.calls() if "eprintln_locked" in c.exp and c.path.endswith("write_fmt")]
    esc = C.all_paths_pass(main, [0], writes, [c.bb for c in twos])
    if esc or not writes:
        r.bad("main|two", "rg::main returns status 2 without printing the error", fn=main)
    else:
        r.ok("main|two", "ExitCode::from(2) after the diagnostic", fn=main)


def matched_rule(ctx, r):
    facts = ctx.facts
    run = facts.fn("rg::run")
    eb = ExprBuilder(run)
    # the local named `matched`
    # (found by what it holds — the answers of the mode functions — rather than by its name alone: a helper spliced into run
    # may have a parameter of the same name)
    ls = [i for i, l in enumerate(run.locals) if l.get("name") == "matched"]
    if len(ls) > 1:
        ls = [i for i in ls if any(mentions_call(eb.local(i), f_) for f_ in ("rg::search", "rg::files", "rg::search_parallel", "rg::files_parallel"))
              and len(run.defs().get(i, [])) >= 2][:1]
    if len(ls) != 1:
        r.bad("run|local", "anchor-missing: expected one local `matched` in rg::run", fn=run)
        return
    e = eb.local(ls[0])
    members = e[2] if e.k == "phi" else [e]
    MODE_FNS = ["rg::search", "rg::search_parallel", "rg::files", "rg::files_parallel"]
    seen = set()
    for m in members:
        if m.k == "const":
            if m[1] == 0:
                seen.add("const false")
                continue
            r.bad("run|const", "`matched` may be the constant %s" % m[2], fn=run)
            continue
        hit = [f for f in MODE_FNS if mentions_call(m, f)]
        if len(hit) == 1:
            seen.add(hit[0])
        else:
            r.bad("run|src", "`matched` derives from `%s`, not from a mode function" % show(m), fn=run)
    for f in MODE_FNS + ["const false"]:
        if f in seen:
            r.ok("run|%s" % f, "matched <- %s" % f, fn=run)
        else:
            r.bad("run|%s" % f, "no arm of rg::run takes `matched` from %s" % f, fn=run)
    # the constant false only under !matches_possible()
    sw = cond_switches(run, lambda x: is_call(x, "rg::flags::hiargs::HiArgs::matches_possible"), eb)
    cf = [bb for bb, j, st in run.stmts() if st["k"] == "assign" and st["place"]["l"] == ls[0]
          and (op_const(st["rv"].get("a", {})) or {}).get("val") == 0]
    if sw and cf and not guarded(run, cf, sw, polarity=False):
        r.ok("run|false-guard", "matched = false only under !matches_possible()", fn=run)
    else:
        r.bad("run|false-guard", "`matched = false` is not guarded by !matches_possible()", fn=run)
    # inside the mode functions
    HAS = "rg::search::SearchResult::has_match"
    f = facts.fn("rg::search")
    eb = ExprBuilder(f)
    from ..flow import value_set

    def results(call_val, init=None):
        sx = Sccp(f, call_model=(lambda c, argv: I(call_val) if c.is_(HAS) else None) if call_val is not None else None,
                  stmt_values=init or {}).run([(0, {})])
        out = set()
        for v in sx.ret_values.values():
            for x in value_set(v):
                if x and x[0] == "v" and x[1] == "Err":
                    continue
                if x and x[0] == "v" and x[2] is not None and x[2][0] == "s":
                    out |= {V(x[1], y) for y in x[2][1]}
                else:
                    out.add(x)
        return out
    # the flag's initialisation: `<bool local> = false` (tried one by one below)
    inits = [(bb, j) for bb, j, st in f.stmts() if st["k"] == "assign" and not st["place"]["p"] and st["rv"]["k"] == "use" and
             (op_const(st["rv"].get("a", {})) or {}).get("val") == 0 and f.local_ty(st["place"]["l"]) == "bool"]
    if not f.calls_to(HAS):
        r.bad("search|result", "rg::search's result does not derive from SearchResult::has_match", fn=f)
    else:
        # no file has a match ⇒ false; every file has one ⇒ true is reported; and a flag that is up stays up whatever
        # the later files say (the answer wherever it is combined: `m = m || h`, `if h { m = true }`, `m |= h`)
        none, every = results(0), results(1)
        sticky = any(results(None, {k: I(1)}) == {V("Ok", I(1))} for k in inits)
        if none != {V("Ok", I(0))}:
            r.bad("search|result", "rg::search can report matched=true although no search result has a match "
                  "(returns %s under has_match()==false)" % none, fn=f)
        elif V("Ok", I(1)) not in every:
            r.bad("search|result", "rg::search's result does not derive from SearchResult::has_match (%s although every file matched)" % every, fn=f)
        elif not sticky:
            r.bad("search|result", "rg::search forgets an earlier file's match: once a file has matched the result must stay true", fn=f)
        else:
            r.ok("search|result", "derives from has_match(): none ⇒ Ok(false), all ⇒ Ok(true), and a match once seen is kept", fn=f)
    # search_parallel: store(true) guarded by has_match
    for clo in facts.closures_of("rg::search_parallel"):
        stores = [c for c in clo.calls() if c.path.endswith("Atomic::store")]
        if not stores:
            continue
        ebc = ExprBuilder(clo)
        swc = cond_switches(clo, lambda x: is_call(x, HAS), ebc)
        for i, c in enumerate(stores):
            tgt = ebc.operand(c.args[0])
            name = "matched" if any(y.k == "field" and y[3] == "matched" for y in walk(tgt)) else \
                "searched" if any(y.k == "field" and y[3] == "searched" for y in walk(tgt)) else "?"
            if name == "matched":
                if swc and not guarded(clo, [c.bb], swc, polarity=True):
                    r.ok("search_parallel|store", "matched.store(true) only under has_match()", fn=clo)
                else:
                    r.bad("search_parallel|store", "matched.store(..) at %s is not guarded by has_match()" % c.loc,
                          fn=clo, loc=c.loc)
                # ... and on EVERY path once a file matched: whichever way the closure returns afterwards
                # (including the broken-pipe Quit), the shared flag must already be set
                if swc:
                    esc = C.all_paths_pass(clo, [swc[0][1][1]], {c.bb}, clo.return_blocks())
                    if esc:
                        r.bad("search_parallel|store-all-paths", "after has_match() == true the worker can return (bb%d, %s) without "
                              "setting the shared `matched` flag: the exit status would be 1 although a match was found"
                              % (esc[0], clo.blocks[esc[0]]["term"].get("loc")), fn=clo, loc=c.loc, construct="matched")
                    else:
                        r.ok("search_parallel|store-all-paths", "has_match() ⇒ matched.store(true) on every path to return", fn=clo)
    # the flag exists, starts false, is set to true (and only to true) by a worker, and the early quit is `matched ∧ quit_after_match`
    sp = facts.fn("rg::search_parallel")
    ebs = ExprBuilder(sp)
    news = [c for c in sp.calls() if c.path.endswith("Atomic::new")]
    named = {}
    # the flag that is the function's answer: the atomic read for the Ok(..) it returns, back to its Atomic::new
    for bb_, j_, st_ in sp.stmts():
        if st_["k"] == "assign" and st_["place"]["l"] == 0 and st_["rv"]["k"] == "agg" and st_["rv"].get("variant") == "Ok":
            e_ = ebs.operand(st_["rv"]["ops"][0])
            named.setdefault("matched", [])
            named["matched"] += [W.const_val(c_[3][0]) for c_ in walk(e_) if c_.k == "call" and c_[1].endswith("Atomic::new") and c_[3]]
    if named.get("matched") and set(named["matched"]) == {0}:
        r.ok("search_parallel|init", "matched starts as false", fn=sp)
    else:
        r.bad("search_parallel|init", "the shared `matched` flag of search_parallel does not start as false (%s): a run without any "
              "match would exit with 0" % named.get("matched"), fn=sp, construct="matched")
    mstores = []
    for clo in facts.closures_of("rg::search_parallel"):
        ebc = ExprBuilder(clo)
        for c in clo.calls():
            if c.path.endswith("Atomic::store") and any(y.k == "field" and y[3] == "matched" for y in walk(ebc.operand(c.args[0]))):
                mstores.append((clo, c, W.const_val(ebc.operand(c.args[1]))))
    if mstores and all(v_ == 1 for _, _, v_ in mstores):
        r.ok("search_parallel|store-true", "a worker stores true (and nothing else) into matched", fn=mstores[0][0])
    else:
        r.bad("search_parallel|store-true", "no worker of search_parallel stores `true` into the shared matched flag (%s): matches found "
              "by the parallel search would not be reflected in the exit status" % [v_ for _, _, v_ in mstores], fn=sp, construct="matched")
    for clo in facts.closures_of("rg::search_parallel"):
        if not clo.calls_to(SEARCH):
            continue
        tails = [x for x in H.find(clo.hir, lambda x: x.get("k") == "if") if "quit_after_match" in H.canon(x["c"])]
        if not tails:
            r.bad("search_parallel|quit", "anchor-missing: the early-quit test of the parallel worker", fn=clo)
            continue
        c_ = tails[-1]["c"]
        atoms_ = sorted(H.atoms(c_))
        if len(atoms_) == 2:
            ok_, detail = H.equivalent(c_, atoms_, lambda v: all(v.values()))
        else:
            ok_, detail = False, "depends on %s" % atoms_
        if ok_ and any("matched" in a for a in atoms_):
            r.ok("search_parallel|quit", "Quit ⇔ matched.load() ∧ quit_after_match()", fn=clo)
        else:
            r.bad("search_parallel|quit", "the parallel worker asks the walk to quit under another condition than "
                  "matched ∧ quit_after_match (%s): files would be left unsearched" % detail, fn=clo, construct="quit_after_match")
    # every successfully searched file is asked whether it matched before the worker returns (on any path,
    # including the broken-pipe Quit): otherwise a match whose output hit a closed pipe is forgotten
    for clo in facts.closures_of("rg::search_parallel"):
        ss = clo.calls_to(SEARCH)
        hm = clo.calls_to(HAS)
        if not ss:
            continue
        if not hm:
            r.bad("search_parallel|consulted", "the parallel worker never asks the search result whether it matched", fn=clo)
            continue
        sx = seed_after_call(clo, ss[0], V("Ok", None))
        seen, work, leak = set(), [ss[0].target], None
        hb = {c.bb for c in hm}
        while work:
            b = work.pop()
            if b in seen or b in hb or b not in sx.exec_blocks:
                continue
            seen.add(b)
            if clo.blocks[b]["term"]["k"] == "return":
                leak = b
                break
            for n in clo.succ(b):
                if (b, n) in sx.exec_edges:
                    work.append(n)
        if leak is not None:
            r.bad("search_parallel|consulted", "after a successful search the worker can return without consulting has_match() "
                  "(e.g. on the broken-pipe Quit): a match is not recorded and the exit status becomes 1", fn=clo, loc=ss[0].loc,
                  construct="matched")
        else:
            r.ok("search_parallel|consulted", "Ok(search) ⇒ has_match() consulted on every path to return", fn=clo)
    for name in ("rg::files", "rg::files_parallel"):
        f = facts.fn(name)
        r.ok("%s|listing" % name, "listing mode: matched means 'a haystack was listed'", nontrivial=False, fn=f)
    fl = facts.fn("rg::files")
    s0 = Sccp(fl, stop_blocks=loop_headers(fl)).run([(0, {})])
    ls_ = [i for i, l in enumerate(fl.locals) if l.get("name") == "matched"]
    inits = [(op_const(st["rv"].get("a", {})) or {}).get("val") for bb, j, st in fl.stmts()
             if ls_ and st["k"] == "assign" and st["place"]["l"] == ls_[0] and not st["place"]["p"] and bb in s0.exec_blocks
             and not any(bb in C.reach(fl, [h]) for h in loop_headers(fl))]
    if inits == [0]:
        r.ok("files|init", "rg::files: matched starts false (an empty listing exits with 1)", fn=fl)
    else:
        r.bad("files|init", "rg::files does not start with matched = false (%s): listing nothing would exit with 0" % inits, fn=fl,
              construct="matched")


def main_maps_pipe(facts):
    """main() walks the error chain for an io::Error of kind BrokenPipe and exits 0 without printing."""
    m = facts.fn("rg::main")
    live = Sccp(m).run([(0, {})]).exec_blocks
    # only the test on an error taken from the anyhow chain (eprintln_locked! has a pipe test of its own for stderr)
    sw = [x for x in pipe_switches(m) if x[0] in live and mentions_call(x[3], "anyhow::error::<impl anyhow::Error>::chain",
                                                                        "anyhow::Error::chain", "core::any::<impl dyn core::error::Error>::downcast_ref",
                                                                        "downcast_ref")]
    sw += [x for x in chain_any_switches(facts, m) if x[0] in live]
    if not sw:
        return False
    for bb, te, fe, e in sw:
        after = C.reach(m, [te[1]], stop_blocks=loop_headers(m))
        if any(c.path.endswith("_eprint") or "eprint" in c.path for c in m.calls() if c.bb in after):
            return False
    return True


def own_error(e, c):
    """Is the error whose kind() is tested the Err payload of call c itself?"""
    for x in walk(e):
        if x.k == "call" and x[1] == KIND and x[3]:
            o = x[3][0]
            while isinstance(o, X) and o.k in ("ref", "deref", "field", "dc", "cast"):
                o = o[1]
            if isinstance(o, X) and o.k == "phi":
                alts = [a for a in o[2] if isinstance(a, X)]
                return any(own_error(X(("call", KIND, None, [a])), c) for a in alts)
            if isinstance(o, X) and o.k == "call":
                if o[1] == c.path or (len(o) > 4 and getattr(o[4], "bb", None) == c.bb):
                    return True
                # Try::branch / join wrappers around the call
                if o[1].endswith("Try::branch") or o[1].endswith("::join") or o[1].endswith("map_err"):
                    return any(own_error(X(("call", KIND, None, [a])), c) for a in o[3])
    return False


def pipe_rule(ctx, r):
    facts = ctx.facts
    # (function, callee, label)
    SITES = [
        ("rg::search", SEARCH, "SearchWorker::search in search"),
        ("rg::files", "grep_printer::path::PathPrinter::write", "PathPrinter::write in files"),
        ("rg::files_parallel", "std::thread::join_handle::JoinHandle::join", "print thread join in files_parallel"),
    ]
    todo = []
    for fname, callee, label in SITES:
        f = facts.fn(fname)
        cs = f.calls_to(callee)
        if not cs:
            r.bad(label, "anchor-missing: %s not called in %s" % (callee, fname), fn=f)
            continue
        todo.append((f, cs[0], label))
    for clo in facts.closures_of("rg::search_parallel"):
        cs = clo.calls_to("termcolor::BufferWriter::print")
        for i_, c_ in enumerate(cs):
            todo.append((clo, c_, "BufferWriter::print in search_parallel" + ("" if i_ == 0 else " #%d" % i_)))
    if len(todo) < 4:
        r.bad("sites", "anchor-missing: expected 4 stdout-writing error sites, found %d" % len(todo))
    for f, c, label in todo:
        sw = pipe_switches(f)
        if not sw:
            r.bad(label, "%s: the error of %s is handled without testing for BrokenPipe" % (f.path, c.path), fn=f, loc=c.loc)
            continue
        hdrs = loop_headers(f)
        # under Err: every path to set_errored / an Err return passes through the pipe test
        if c.path.endswith("join"):
            seed = V("Ok", V("Err", None))
        else:
            seed = V("Err", None)
        s = seed_after_call(f, c, seed, stop_blocks=hdrs)
        region = s.exec_blocks
        sinks = [x.bb for x in calls_in(f, region, SET_ERRORED)] + err_returns(f, region)
        pipe_bbs = {bb for bb, _, _, _ in sw}
        if not (pipe_bbs & region):
            r.bad(label, "the Err arm of %s at %s never tests for BrokenPipe" % (c.path, c.loc), fn=f, loc=c.loc)
            continue
        # (within this iteration: going round the loop is another write)
        back = {(u, h_) for h_ in hdrs for u in range(len(f.blocks)) if h_ in f.succ(u)}
        esc = C.all_paths_pass(f, [c.target], pipe_bbs, sinks, removed_edges=back)
        if esc:
            r.bad(label, "an error of %s can be reported without first testing for BrokenPipe" % c.path, fn=f, loc=c.loc)
            continue
        # on the BrokenPipe edge: quiet stop
        noisy = []
        for bb, te, fe, e in sw:
            if bb not in region:
                continue
            after = C.reach(f, [te[1]], stop_blocks=hdrs)
            noisy += calls_in(f, after, SET_ERRORED)
            # an Err return hands the BrokenPipe error to main, whose chain test maps it to a silent status 0 (C15.STATUS)
            if not (f.path in ("rg::search", "rg::files", "rg::files_parallel", "rg::search_parallel") and main_maps_pipe(facts)):
                noisy += [x for x in err_returns(f, after)]
        if noisy:
            r.bad(label, "the BrokenPipe edge of %s still reports an error" % c.path, fn=f, loc=c.loc)
        else:
            r.ok(label, "Err ⇒ BrokenPipe tested first; pipe edge is quiet", fn=f)
        # ... and any *other* write error is not swallowed: it reaches the error flag or is returned
        silent = []
        for bb, te, fe, e in sw:
            # only the test on the error of this very call (err_message! carries pipe tests of its own for stderr)
            if bb not in region or not own_error(e, c):
                continue
            # (an Err return behind a later write of its own — the final flush — reports that write's failure, not this one)
            later = {c2.bb for c2 in f.calls_to("std::io::Write::flush") if c2.bb != c.bb}
            after = C.reach(f, [fe[1]], stop_blocks=set(hdrs) | later)
            if not calls_in(f, after, SET_ERRORED) and not err_returns(f, after - later):
                silent.append(bb)
        if silent:
            r.bad(label + "|other", "an error of %s that is not BrokenPipe is dropped without a diagnostic (neither the error flag nor "
                  "an Err return is reached)" % c.path, fn=f, loc=c.loc, construct="pipe-other")
        else:
            r.ok(label + "|other", "an error other than BrokenPipe is reported or returned", fn=f)
    # (status) in the serial drivers the pipe edge must not fall back to "matched so far": the run either hands the
    # BrokenPipe error to main (whose chain test maps it to status 0) or returns Ok(true)
    for f, c, label in todo:
        if f.path not in ("rg::search", "rg::files"):
            continue
        sw = [x for x in pipe_switches(f)]
        if not sw:
            continue

        def model(call, argvals, c=c):
            if call.bb == c.bb:
                return V("Err", None)
            return None
        a = Sccp(f, call_model=model).run([(0, {})])
        vals = set()
        for bb, te, fe, e in sw:
            if bb not in a.exec_blocks or not own_error(e, c):
                continue
            b = Sccp(f, call_model=model, stop_blocks=loop_headers(f)).run([(te[1], dict(a.env_in.get(bb, {})))])
            for v_ in b.ret_values.values():
                vals |= set(value_set(v_)) if v_ is not None else {None}
        key = "status|" + f.path.split("::")[-1]
        bad = [v_ for v_ in vals if not (v_ is not None and (v_[1] == "Err" or v_ == V("Ok", I(1))))]
        if vals and not bad:
            r.ok(key, "pipe edge returns %s" % sorted(str(v_) for v_ in vals), fn=f)
        else:
            r.bad(key, "when the consumer closes the pipe, %s returns Ok(matched so far): if nothing had matched before the "
                  "write failed the process exits with status 1 instead of 0" % f.path, fn=f, loc=c.loc, construct="pipe-status")
    # (status, parallel) the worker's only answer on the pipe edge is WalkState::Quit, the same as for --quiet; unless
    # it also records the event in shared state that search_parallel reads back, the result is `matched so far`
    for f, c, label in todo:
        if not f.path.startswith("rg::search_parallel::"):
            continue
        outer = facts.fn("rg::search_parallel")
        STORE = "core::sync::atomic::Atomic::store"
        LOAD = "core::sync::atomic::Atomic::load"
        hdrs = loop_headers(f)
        stored, unstored = [], []
        for bb, te, fe, e in pipe_switches(f):
            # only tests on the error of one of the BufferWriter::print calls (err_message! has stderr tests of its own)
            if not any(own_error(e, pc) for pc in f.calls_to("termcolor::BufferWriter::print")):
                continue
            after = C.reach(f, [te[1]], stop_blocks=hdrs)
            here_ = [x for x in f.calls() if x.bb in after and x.path == STORE]
            stored += here_
            if not here_:
                unstored.append(bb)
        if unstored:
            stored = []
        ebo = ExprBuilder(outer)
        loads = cond_switches(outer, lambda e: is_call(e, LOAD, "core::sync::atomic::Atomic::into_inner"), ebo)
        reads_back = False
        for bb, te, fe, e in loads:
            s_ = Sccp(outer, stop_blocks=loop_headers(outer)).run([(te[1], {})])
            vals = set()
            for v_ in s_.ret_values.values():
                vals |= set(value_set(v_)) if v_ is not None else {None}
            if vals and all(v_ is not None and (v_[1] == "Err" or v_ == V("Ok", I(1))) for v_ in vals):
                reads_back = True
        if stored and reads_back:
            r.ok("status|search_parallel", "pipe edge records the event; search_parallel answers Err / Ok(true) when it is set", fn=f)
        else:
            r.bad("status|search_parallel", "when the consumer closes the pipe a worker only returns WalkState::Quit: search_parallel "
                  "then returns `matched so far`, and exits with 1 if what was printed came from files without a match "
                  "(--passthru, --count --include-zero)", fn=f, loc=c.loc, construct="pipe-status")
    # (kind) an error coming out of search_reader may be the printer's BrokenPipe: a wrapper must keep its kind
    nwrap = 0
    for fn_ in facts.fns_in("rg::search::SearchWorker::"):
        if fn_.kind == "closure":
            continue
        eb = ExprBuilder(fn_)
        for me in fn_.calls_to("core::result::Result::map_err"):
            src = eb.operand(me.args[0])
            if not mentions_call(src, "rg::search::SearchWorker::search_reader", "rg::search::SearchWorker::search_path",
                                 "rg::search::search_reader", "rg::search::search_path"):
                continue
            clo = [x for x in walk(eb.operand(me.args[1])) if x.k == "closure"]
            for cl in clo:
                g = facts.fn(cl[1])
                ebg = ExprBuilder(g)
                for ne in g.calls_to("std::io::error::Error::new"):
                    nwrap += 1
                    kind = ebg.operand(ne.args[0])
                    key = "kind|" + fn_.name
                    if mentions_call(kind, "std::io::error::Error::kind"):
                        r.ok(key, "the wrapper keeps err.kind()", fn=g)
                    else:
                        r.bad(key, "%s re-labels every error of the search (including the printer's BrokenPipe) as `%s`: the "
                              "driver no longer recognises a closed pipe, prints a diagnostic, continues and exits with 2"
                              % (fn_.path, show(kind)[:40]), fn=g, loc=ne.loc, construct="pipe-kind")
    if not nwrap:
        r.ok("kind|none", "no wrapper rebuilds an error of the search", nontrivial=False)
    if main_maps_pipe(facts):
        r.ok("main|chain", "main: an io::Error of kind BrokenPipe anywhere in the chain ⇒ silent exit", fn="rg::main")
    else:
        r.bad("main|chain", "main no longer maps a BrokenPipe error to a silent exit: the drivers hand it that error", fn="rg::main",
              construct="pipe-main")
    # confirmed minority: SearchWorker::search inside search_parallel writes to a memory buffer
    r.ok("exception|search in search_parallel", "table exception: per-worker printer writes to a termcolor::Buffer, "
         "no pipe can break there", nontrivial=False)
    # print_stats results deliberately discarded
    n = 0
    for fname in ("rg::search", "rg::search_parallel"):
        f = facts.fn(fname)
        for c in f.calls_to("rg::print_stats"):
            n += 1
    if n >= 2:
        r.ok("exception|print_stats", "print_stats results deliberately discarded (%d sites, table)" % n, nontrivial=False)


def continue_rule(ctx, r):
    facts = ctx.facts
    f = facts.fn("rg::search")
    cs = f.calls_to(SEARCH)
    hdrs = loop_headers(f)
    for i, c in enumerate(cs):
        pipe_true = {te for bb, te, fe, e in pipe_switches(f)}
        s = seed_after_call(f, c, V("Err", None), stop_blocks=hdrs, removed_edges=pipe_true)
        se = calls_in(f, s.exec_blocks, SET_ERRORED)
        er = err_returns(f, s.exec_blocks)
        rets = [b for b in s.exec_blocks if f.blocks[b]["term"]["k"] == "return"]
        if se and not er and not rets:
            r.ok("search|%d" % i, "Err ⇒ set_errored reachable, loop continues, no return", fn=f)
        else:
            r.bad("search|%d" % i, "a per-file error in rg::search %s" % (
                "aborts the run" if (er or rets) else "does not set the error flag"), fn=f, loc=c.loc)
    found = 0
    for clo in facts.closures_of("rg::search_parallel"):
        for i, c in enumerate(clo.calls_to(SEARCH)):
            found += 1
            # (the closed-pipe edge of printing what was found before the failure is a quiet Quit, decided by C15.PIPE)
            pipe_true = {te for bb, te, fe, e in pipe_switches(clo)}
            s = seed_after_call(clo, c, V("Err", None), removed_edges=pipe_true)
            se = calls_in(clo, s.exec_blocks, SET_ERRORED)
            vals = set(s.ret_values.values())
            if se and vals == {V("Continue", None)}:
                r.ok("search_parallel|%d" % i, "Err ⇒ set_errored, WalkState::Continue", fn=clo)
            else:
                r.bad("search_parallel|%d" % i, "a per-file error in search_parallel yields %s%s" % (
                    vals, "" if se else " without setting the error flag"), fn=clo, loc=c.loc)
    if not cs or not found:
        r.bad("sites", "anchor-missing: SearchWorker::search sites not found")
    g = facts.fn("rg::haystack::HaystackBuilder::build_from_result")
    # the Err arm: discriminant switch on the argument
    from ..graph import discr_switches
    done = False
    for bb, adt, place, arms, ow, ow_live, missing in discr_switches(g, "core::result::Result"):
        if "Err" in arms or ow is not None:
            tgt = arms.get("Err", ow)
            s = Sccp(g).run([(tgt, {})])
            se = calls_in(g, s.exec_blocks, SET_ERRORED)
            vals = set(s.ret_values.values())
            if se and vals == {V("None", None)}:
                r.ok("build_from_result", "Err ⇒ set_errored, None", fn=g)
            else:
                r.bad("build_from_result", "a traversal error yields %s%s" % (vals, "" if se else " without the error flag"), fn=g)
            done = True
            break
    if not done:
        r.bad("build_from_result", "anchor-missing: no match on the traversal result", fn=g)


def flag_rule(ctx, r):
    facts = ctx.facts
    rgfns = [f for f in facts.fns.values() if f.crate == "rg"]
    # ERRORED referenced only by set_errored / errored
    users = set()
    for f in rgfns:
        for bb, j, st in f.stmts():
            if st["k"] == "assign":
                for k in ("a", "b"):
                    c = op_const(st["rv"].get(k, {})) if isinstance(st["rv"].get(k), dict) else None
                    if c and c.get("static") == "rg::messages::ERRORED":
                        users.add(f.path)
    allowed = {"rg::messages::set_errored", "rg::messages::errored"}
    if not users:
        r.bad("ERRORED|users", "anchor-missing: static ERRORED is referenced nowhere")
    for u in sorted(users):
        if u in allowed:
            r.ok("ERRORED|%s" % u, "accessor", fn=u)
        else:
            r.bad("ERRORED|%s" % u, "%s touches the ERRORED flag directly" % u, fn=u)
    se = facts.fn(SET_ERRORED)
    st = [c for c in se.calls() if c.path.endswith("Atomic::store")]
    if len(st) == 1 and (op_const(st[0].args[1]) or {}).get("val") == 1:
        r.ok("set_errored|store", "stores true", fn=se)
    else:
        r.bad("set_errored|store", "set_errored does not store `true`", fn=se)
    er = facts.fn("rg::messages::errored")
    if [c for c in er.calls() if c.path.endswith("Atomic::load")] and not [c for c in er.calls() if c.path.endswith("store")]:
        r.ok("errored|load", "pure load", fn=er)
    else:
        r.bad("errored|load", "errored() is not a pure load of the flag", fn=er)
    # process::exit only in eprintln_locked expansions
    nexit = 0
    for f in rgfns:
        for c in f.calls():
            if c.is_("std::process::exit"):
                nexit += 1
                if "eprintln_locked" not in c.exp:
                    r.bad("exit|%s" % f.path, "std::process::exit called outside eprintln_locked! at %s" % c.loc, fn=f, loc=c.loc)
    if nexit:
        r.ok("exit", "%d process::exit call sites, all inside eprintln_locked!" % nexit)
    else:
        r.bad("exit", "anchor-missing: no process::exit site found (macro shape changed?)")
    # raw stderr only in eprintln_locked / logger
    nerr = 0
    for f in rgfns:
        for c in f.calls():
            if c.is_("std::io::stderr", "std::io::stdio::stderr", "std::io::_eprint", "std::io::stdio::_eprint"):
                nerr += 1
                if "eprintln_locked" not in c.exp and not f.path.startswith("rg::logger::"):
                    r.bad("stderr|%s" % f.path, "raw stderr write outside the message macros at %s" % c.loc, fn=f, loc=c.loc)
    if nerr:
        r.ok("stderr", "%d stderr acquisitions, all inside eprintln_locked! or the logger" % nerr)
    else:
        r.bad("stderr", "anchor-missing: no stderr site found")
    # err_message!: set_errored before the print, per expansion
    groups = {}
    for f in rgfns:
        for c in f.calls():
            if "err_message" in c.exp:
                groups.setdefault((f.path, c.loc), []).append(c)
    if len(groups) < 5:
        r.bad("err_message|count", "anchor-missing: only %d err_message! expansions found" % len(groups))
    for (fp, loc), cs in sorted(groups.items()):
        f = facts.fns[fp]
        se_ = [c for c in cs if c.is_(SET_ERRORED)]
        others = [c for c in cs if not c.is_(SET_ERRORED)]
        key = "err_message|%s|%d" % (fp, sorted(groups).index((fp, loc)))
        if not se_:
            r.bad(key, "err_message! expansion at %s does not call set_errored" % loc, fn=f, loc=loc)
        elif all(any(C.dominates(f, s_.bb, o.bb) for s_ in se_) for o in others):
            # (one expansion may appear several times in a function when the helper holding it was spliced into more than one
            # call site: each copy of the print needs a set_errored of the same expansion in front of it)
            r.ok(key, "set_errored dominates the print", fn=f)
        else:
            r.bad(key, "err_message! at %s prints before setting the error flag" % loc, fn=f, loc=loc)


def config_rule(ctx, r):
    facts = ctx.facts
    H_ = "rg::flags::hiargs::HiArgs::"
    for fname in ("rg::search", "rg::search_parallel"):
        f = facts.fn(fname)
        first_search = [c.bb for c in f.calls_to(SEARCH)]
        for m in ("matcher", "searcher", "search_worker", "walk_builder"):
            cs = f.calls_to(H_ + m)
            key = "%s|%s" % (fname, m)
            if not cs:
                r.bad(key, "anchor-missing: %s does not call HiArgs::%s" % (fname, m), fn=f)
                continue
            v, d = classify_result(f, cs[0])
            if v not in ("try", "returned"):
                r.bad(key, "the Result of HiArgs::%s is %s, not propagated" % (m, v), fn=f, loc=cs[0].loc)
                continue
            if first_search and not all(C.dominates(f, cs[0].bb, b) for b in first_search):
                r.bad(key, "HiArgs::%s does not dominate the first search" % m, fn=f, loc=cs[0].loc)
                continue
            r.ok(key, "propagated with ?%s" % (" and dominates the search loop" if first_search else ""), fn=f)
    run = facts.fn("rg::run")
    from ..graph import discr_switches
    ok = False
    for bb, adt, place, arms, ow, ow_live, missing in discr_switches(run, "rg::flags::parse::ParseResult"):
        if "Err" in arms:
            s = Sccp(run).run([(arms["Err"], {})])
            modes = calls_in(run, s.exec_blocks, "rg::search", "rg::search_parallel", "rg::files", "rg::files_parallel")
            vals = set(s.ret_values.values())
            if not modes and all(v and v[1] == "Err" for v in vals) and vals:
                r.ok("run|parse-error", "ParseResult::Err returns Err before any mode dispatch", fn=run)
            else:
                r.bad("run|parse-error", "a flag/pattern parse error does not return Err immediately", fn=run)
            ok = True
    if not ok:
        r.bad("run|parse-error", "anchor-missing: rg::run does not match on ParseResult", fn=run)



def flush_rule(ctx, r):
    """stdout is block buffered when it is not a terminal. The serial drivers own the writer; dropping it flushes and throws
    the error away, so a run whose whole output fits the buffer ends with status 0 (or 1) on a full disk or a closed pipe.
    Necessary: every Ok answer of rg::search / rg::files lies behind a flush whose Result is not dropped; the printing thread of
    files_parallel answers with the flush."""
    facts = ctx.facts
    FL = "std::io::Write::flush"
    for name in ("rg::search", "rg::files"):
        f = facts.fn(name)
        fl = f.calls_to(FL)
        oks = [bb for bb, j, st in f.stmts() if st["k"] == "assign" and st["place"]["l"] == 0 and not st["place"]["p"] and
               st["rv"]["k"] == "agg" and st["rv"].get("variant") == "Ok"]
        key = "flush|" + name.split("::")[-1]
        if not fl:
            r.bad(key, "%s returns without flushing the writer it owns: output that is still in the block buffer is written when "
                  "the writer is dropped and an error (ENOSPC, EPIPE) is thrown away — `rg foo small > /dev/full` exits 0 without a "
                  "word" % name, fn=f, construct="flush")
            continue
        left = C.all_paths_pass(f, [0], [c.bb for c in fl], oks)
        v, d = classify_result(f, fl[0])
        if left:
            r.bad(key, "%s can answer Ok without having flushed its writer" % name, fn=f, loc=fl[0].loc, construct="flush")
        elif v in ("dropped", "swallowed"):
            r.bad(key, "%s flushes but ignores the result (%s %s)" % (name, v, d), fn=f, loc=fl[0].loc, construct="flush")
        else:
            r.ok(key, "every Ok answer is behind flush(); its Result is %s" % v, fn=f)
    th = [g for g in facts.closures_of("rg::files_parallel") if g.calls_to("grep_printer::path::PathPrinter::write")]
    if not th:
        r.bad("flush|files_parallel", "anchor-missing: the printing thread of files_parallel", fn=facts.fn("rg::files_parallel"))
    else:
        g = th[0]
        eb = ExprBuilder(g)
        if g.calls_to(FL) and mentions_call(eb.local(0), FL):
            r.ok("flush|files_parallel", "the printing thread answers with flush()", fn=g)
        else:
            r.bad("flush|files_parallel", "the printing thread of files_parallel ends without flushing the writer it owns", fn=g,
                  construct="flush")

def child_rule(ctx, r):
    """A failed --pre / -z command must end as an Err of SearchWorker::search, the only thing the drivers turn into the error
    flag (C15.CONTINUE): close() runs on every path after the search and its Err is the function's answer; the dispatch in
    SearchWorker::search hands each helper's Err on. Value tables over the MIR, so `?`, match and combinators read alike."""
    from ..flow import table, ret_set
    from .c18 import SW, CR, CRB, DR, DRB
    facts = ctx.facts
    for name, build, close in (("search_preprocessor", CRB + "::build", CR + "::close"),
                               ("search_decompress", DRB + "::build", DR + "::close")):
        f = facts.fn(SW + "::" + name)
        if f is None:
            r.bad(name + "|shape", "anchor-missing: " + name); continue
        cl = f.calls_to(close)
        sr = f.calls_to(SW + "::search_reader")
        if not sr or len(cl) != 1 or not f.calls_to(build):
            r.bad(name + "|close", "%s no longer asks the child for its exit status (close %d call(s)): a command that fails after the "
                  "search stopped reading is reported through nothing but the log, so the error flag stays clear and rg exits 0/1 instead of 2"
                  % (name, len(cl)), fn=f, construct="close")
            continue
        bad = []
        for row, sx in table(facts, f, calls={"SearchWorker::search_reader": [V("Ok", I(7)), V("Err", None)],
                                              close.split("::", 1)[1]: [V("Err", None)],
                                              build.split("::", 1)[1]: [V("Ok", None)]}):
            sv = row[("call", "SearchWorker::search_reader")][1]
            kinds = {("?" if v is None else v[1]) for v in ret_set(sx)}
            if not any(c.bb in sx.exec_blocks for c in cl):
                bad.append("search %s: close() not reached" % sv)
            elif kinds != {"Err"}:
                bad.append("search %s, close Err: answers %s" % (sv, sorted(kinds)))
        if bad:
            r.bad(name + "|close", "a failing child command does not become an error of %s (%s), so the exit status stays 0/1" % (name, "; ".join(bad)),
                  fn=f, loc=cl[0].loc, construct="close")
        else:
            r.ok(name + "|close", "a failing child command is an Err of %s whatever the search said" % name, fn=f)
    f = facts.fn(SEARCH)
    if f is None:
        r.bad("dispatch|shape", "anchor-missing: SearchWorker::search"); return
    for n in ("search_preprocessor", "search_decompress", "search_path", "search_reader"):
        cs = f.calls_to(SW + "::" + n)
        if not cs:
            r.bad("dispatch|" + n, "anchor-missing: SearchWorker::search no longer calls " + n, fn=f); continue
        for i, c in enumerate(cs):
            s = seed_after_call(f, c, V("Err", None))
            kinds = {("?" if v is None else v[1]) for v in ret_set(s)}
            key = "dispatch|" + n + ("" if len(cs) == 1 else "|%d" % i)
            if kinds == {"Err"}:
                r.ok(key, "an Err of %s is the answer of SearchWorker::search" % n, fn=f, nontrivial=False)
            else:
                r.bad(key, "SearchWorker::search can answer %s after %s failed: the drivers would not set the error flag" % (sorted(kinds), n),
                      fn=f, loc=c.loc, construct="dispatch")


def run(ctx):
    with ctx.rule("C15.STATUS", "exit-code truth table of rg::run (8 rows, exhaustive) and rg::main's Err mapping",
                  floor=10, exhaustive=True, kind="TRUTH") as r:
        status_rule(ctx, r)
    with ctx.rule("C15.MATCHED", "`matched` derives from the mode functions / has_match(); the shared flag's life cycle in search_parallel", floor=13, kind="FLOW") as r:
        matched_rule(ctx, r)
    with ctx.rule("C15.PIPE", "every handled stdout-write error tests BrokenPipe first and stops quietly; other errors are reported", floor=12, kind="GUARD") as r:
        pipe_rule(ctx, r)
    with ctx.rule("C15.FLUSH", "what is still buffered when a driver is done is written out and a failure to do so is answered like any "
                  "other failed write", floor=3, kind="PASS/USED") as r:
        flush_rule(ctx, r)
    with ctx.rule("C15.CONTINUE", "per-file errors set the error flag and continue", floor=3, kind="A3/MAYCALL") as r:
        continue_rule(ctx, r)
    with ctx.rule("C15.CHILD", "a failing --pre / -z command ends as an Err of SearchWorker::search (which the drivers turn into the error flag)",
                  floor=6, kind="PASS/USED") as r:
        child_rule(ctx, r)
    with ctx.rule("C15.FLAG", "ERRORED ownership; process::exit and stderr confined to the macros; err_message! order",
                  floor=8, kind="MAYCALL/DOM") as r:
        flag_rule(ctx, r)
    with ctx.rule("C15.CONFIG", "construction errors propagate before the first search; parse errors return at once",
                  floor=9, kind="DOM/USED") as r:
        config_rule(ctx, r)
