"""C11 — line-mode matcher promises: structure of the four HIR walkers and of the literal extractor."""
from .. import cfg as C
from .. import hirx as H
from ..flow import ExprBuilder, mentions_field, mentions_call, is_call, is_field, walk, show, cond_switches, \
    guarded, seed_after_call, Sccp, I, V, X, strip, value_set
from ..graph import field_rw, discr_switches, classify_result
from ..facts import op_const, op_place, fields_of_place
from .. import wire as W

TITLE = "regex HIR walkers (structure)"
EXPLANATION = (
    "Structure of the four HIR walkers of grep-regex and of the inner-literal extractor, decided on their MIR; the "
    "soundness of the extracted literals as a language inclusion is NOT decided (it needs an automata decision "
    "procedure, a different technique). (ARMS) strip_from_match_ascii, remove_matching_bytes, ban::check and "
    "Extractor::extract have an explicit arm for every HirKind variant and no live wildcard; Repetition and Capture arms "
    "recurse into `sub`; Concat and Alternation arms recurse into all children (loop, mapping closure, or the "
    "extract_concat / extract_alternation helpers which call extract in their loop); the consuming leaves (Literal and "
    "both Class kinds) reach the rejecting error / class difference (strip), ByteSet::remove* (non-matching) or the "
    "error (ban); remove_matching_bytes classifies every Look variant explicitly. (CRLF) both \\r and \\n are stripped "
    "under a CRLF terminator, the second pass running on the first's result, and non-ASCII terminators are rejected "
    "before any rewriting; LineTerminator::as_byte() (which collapses CRLF to \\n) is consulted in the regex crate only on a !is_crlf() edge, and the fixed-strings gate has_line_terminator tests both \\r and \\n under CRLF. (EXACT) exactness bookkeeping: choose() makes both operands inexact on every path, each "
    "repetition arm other than {0,1} and in-limit {n} passes make_inexact, a restarted concat sequence is marked "
    "not-prefix, cross defers to choose when the right side is not a prefix, and union/cross go infinite when over "
    "the total limit. (GATE) no literal extraction without a line terminator, no candidate regex from an infinite or "
    "empty sequence, the terminator is withheld under haystack anchors, and find_candidate_line answers Candidate only "
    "from the literal regex and Confirmed only from the real one.")
NOT_DECIDED = ["soundness of the extracted literal set as a prefilter (language inclusion over all lines)",
               "that the stripped pattern cannot match the terminator for every regex construct (semantic)",
               "completeness of non_matching_bytes for multi-byte encodings"]

R = "grep_regex"
HK = "regex_syntax::hir::HirKind"
LOOK = "regex_syntax::hir::Look"
TSEQ = R + "::literal::TSeq"
EXT = R + "::literal::Extractor"
KINDS = ["Empty", "Literal", "Class", "Look", "Repetition", "Capture", "Concat", "Alternation"]


def canon_target(f, t):
    """Follow call-free straight-line binding stubs (or-patterns bind per variant, then share the arm body)."""
    seen = set()
    while t not in seen:
        seen.add(t)
        b = f.blocks[t]
        if b["term"]["k"] != "goto":
            break
        nxt = b["term"]["t"]
        if any(st["k"] == "assign" and st["rv"]["k"] not in ("ref", "use", "discr", "rawptr") for st in b["stmts"]):
            break
        t = nxt
        if len(f.preds(t)) > 1:
            break
    return t


def own_region(f, arms, ow, v, variants):
    t = canon_target(f, arms.get(v, ow))
    others = set()
    for v2 in variants:
        t2 = canon_target(f, arms.get(v2, ow))
        if t2 != t:
            others |= C.reach(f, [t2])
    return C.reach(f, [t]) - others


def recursion_in(facts, f, region, names, loop_required=False):
    """Does the region contain a (possibly indirect: mapping closure) call of one of `names`?"""
    for c in f.calls():
        if c.bb in region and c.names & names:
            if not loop_required or c.bb in C.reach_after(f, c.bb):
                return "direct%s" % (" in loop" if c.bb in C.reach_after(f, c.bb) else "")
    for bb, j, st in f.stmts():
        if bb in region and st["k"] == "assign" and st["rv"]["k"] == "agg" and "closure" in st["rv"]:
            g = facts.fns.get(st["rv"]["closure"])
            if g is not None and any(c.names & names for c in g.calls()):
                return "via mapping closure"
    return None


def walker_rule(ctx, r, fname, label, leaf_check, helpers=None):
    facts = ctx.facts
    f = facts.fn(fname)
    sws = sorted([s for s in discr_switches(f, HK)], key=lambda s: -len(s[3]))
    # drop elaboration re-reads the discriminant; the dispatching match is the switch with the most arms
    if not sws or (len(sws) > 1 and len(sws[1][3]) == len(sws[0][3]) and len(sws[0][3]) > 2):
        r.bad(label + "|switch", "anchor-missing: %s must match on HirKind exactly once (found %d)" % (fname, len(sws)), fn=f)
        return
    bb, adt, place, arms, ow, ow_live, missing = sws[0]
    variants = sorted(set(arms) | set(missing))
    if set(variants) != set(KINDS):
        r.bad(label + "|variants", "regex-syntax HirKind has variants %s; the walker table must be re-confirmed" % variants, fn=f)
    for v in variants:
        if v in arms:
            continue
        r.bad(label + "|arm|" + v, "%s has no explicit arm for HirKind::%s (it falls into a wildcard)" % (fname.split("::")[-1], v),
              fn=f, construct=v)
    # (a recursive worker split off the walker and spliced into it: recursing into the worker is recursing into the walker)
    names = {fname} | set(facts.inlined.get(fname, []))
    helpers = helpers or {}
    for v in ("Repetition", "Capture"):
        if v not in arms:
            continue
        reg = own_region(f, arms, ow, v, variants)
        how = recursion_in(facts, f, reg, names | set(helpers.get(v, [])))
        if how:
            r.ok(label + "|rec|" + v, "%s arm recurses into sub (%s)" % (v, how), fn=f)
        else:
            r.bad(label + "|rec|" + v, "%s: the %s arm does not recurse into its sub-expression: everything beneath it is "
                  "unchecked" % (fname.split("::")[-1], v), fn=f, construct=v)
    for v in ("Concat", "Alternation"):
        if v not in arms:
            continue
        reg = own_region(f, arms, ow, v, variants)
        how = recursion_in(facts, f, reg, names, loop_required=True) or \
            (recursion_in(facts, f, reg, names) if False else None) or \
            _closure_rec(facts, f, reg, names) or _helper_rec(facts, f, reg, helpers.get(v, []), names)
        if how:
            r.ok(label + "|rec|" + v, "%s arm visits all children (%s)" % (v, how), fn=f)
        else:
            r.bad(label + "|rec|" + v, "%s: the %s arm does not visit every child" % (fname.split("::")[-1], v), fn=f, construct=v)
    for v in ("Literal", "Class"):
        if v not in arms:
            continue
        reg = own_region(f, arms, ow, v, variants)
        subregs = [(v, reg)]
        if v == "Class":
            # both class kinds are consuming leaves: check each sub-arm on its own
            csw = [s_ for s_ in discr_switches(f, "regex_syntax::hir::Class") if s_[0] in reg or s_[0] == bb]
            if csw:
                cb, cadt, cplace, carms, cow, cow_live, cmissing = csw[0]
                cvars = sorted(set(carms) | set(cmissing))
                subregs = [("Class::" + cv, own_region(f, carms, cow, cv, cvars) & (reg | {carms.get(cv, cow)})) for cv in cvars]
        for name_, sreg in subregs:
            ok, detail = leaf_check(f, sreg, v)
            if ok:
                r.ok(label + "|leaf|" + name_, detail, fn=f)
            else:
                r.bad(label + "|leaf|" + name_, "%s: the %s arm %s" % (fname.split("::")[-1], name_, detail), fn=f, construct=name_)
    return f, arms, ow, variants


def _closure_rec(facts, f, region, names):
    for bb, j, st in f.stmts():
        if bb in region and st["k"] == "assign" and st["rv"]["k"] == "agg" and "closure" in st["rv"]:
            g = facts.fns.get(st["rv"]["closure"])
            if g is not None and any(c.names & names for c in g.calls()):
                return "mapping closure over all children"
    return None


def _helper_rec(facts, f, region, helper_names, names):
    for c in f.calls():
        if c.bb in region and c.path in helper_names:
            g = facts.fns.get(c.path)
            if g is not None:
                rec = [x for x in g.calls() if x.names & names]
                if rec and any(x.bb in C.reach_after(g, x.bb) for x in rec):
                    return "helper %s loops over the children" % c.path.split("::")[-1]
                # the adapter spelling: the helper folds / maps a closure that recurses over the iterator of children
                for cl in facts.closures_of(g.path):
                    if any(x.names & names for x in cl.calls()):
                        ebg_ = ExprBuilder(g)
                        for x in g.calls():
                            if x.path.startswith("core::iter::traits::iterator::Iterator::") and \
                                    x.path.rsplit("::", 1)[1] in ("try_fold", "fold", "for_each", "try_for_each", "map", "flat_map", "all", "any") and \
                                    any(y.k == "closure" and y[1] == cl.path for a_ in x.args for y in walk(ebg_.operand(a_))):
                                return "helper %s visits the children through %s" % (c.path.split("::")[-1], x.path.rsplit("::", 1)[1])
    return None



def byteset_rule(ctx, r):
    """non_matching_bytes() is a ByteSet from which every byte a pattern can match was removed. That a byte really leaves
    the set is decided by (a) writer/reader agreement: add, remove and contains compute the same (bucket, bit) pair from the
    byte, remove clears exactly that bit, contains tests it; (b) the range forms remove_all / add_all being the per-byte loop
    over start..=end. A word-wise range form would need arithmetic reasoning about masks, which this technique does not do:
    it is reported as not decidable (failing closed) rather than accepted."""
    facts = ctx.facts
    BS = "grep_matcher::ByteSet::"

    def addr(f):
        eb = ExprBuilder(f)
        out = []
        for bb, j, st in f.stmts():
            if st["k"] != "assign":
                continue
            e = eb.rvalue(st["rv"])
            for x in walk(e):
                if x.k == "bin" and x[1] == "Shl":
                    out.append(("bit", show(x[3])))
        idx = [show(eb.operand(c.args[0])) for c in f.calls() if c.path == "core::convert::From::from"]
        return eb, sorted(set(out)), sorted(set(idx))
    shapes = {}
    for nm in ("add", "remove", "contains"):
        f = facts.fn(BS + nm)
        eb, bits, idx = addr(f)
        shapes[nm] = (bits, idx)
        if nm == "contains":
            e = eb.local(0)
            okv = isinstance(e, X) and e.k == "bin" and e[1] in ("Gt", "Ne") and any(x.k == "bin" and x[1] == "BitAnd" for x in walk(e))
            what = "tests the bit"
        else:
            ws = [eb.rvalue(st["rv"]) for bb, j, st in f.stmts() if st["k"] == "assign" and st["place"]["p"] and
                  any(isinstance(q, dict) and "idx" in q for q in st["place"]["p"])]
            if nm == "add":
                okv = len(ws) == 1 and ws[0].k == "bin" and ws[0][1] == "BitOr" and ws[0][3].k == "bin" and ws[0][3][1] == "Shl"
                what = "sets the bit"
            else:
                okv = len(ws) == 1 and ws[0].k == "bin" and ws[0][1] == "BitAnd" and ws[0][3].k == "not" and \
                    ws[0][3][1].k == "bin" and ws[0][3][1][1] == "Shl"
                what = "clears exactly the bit (`&= !(1 << bit)`)"
        if okv and len(bits) == 1 and len(idx) == 1:
            r.ok("byteset|" + nm, "%s at bucket %s, bit %s" % (what, idx[0], bits[0][1]), fn=f)
        else:
            r.bad("byteset|" + nm, "ByteSet::%s no longer %s of one (bucket, bit) pair computed from the byte (buckets %s, shifts %s)"
                  % (nm, what.split(" (")[0], idx, bits), fn=f, construct="byteset")
    if len({(tuple(b), tuple(i)) for b, i in shapes.values()}) != 1:
        f = facts.fn(BS + "contains")
        r.bad("byteset|agree", "ByteSet::add / remove / contains do not compute the same bucket and bit for a byte (%s): a byte removed "
              "from non_matching_bytes can still be reported as never matching" % shapes, fn=f, construct="byteset")
    else:
        r.ok("byteset|agree", "add, remove and contains address bucket %s, bit %s" % (shapes["add"][1], shapes["add"][0]), fn=facts.fn(BS + "contains"))
    for nm, one in (("remove_all", "remove"), ("add_all", "add")):
        f = facts.fn(BS + nm)
        eb = ExprBuilder(f)
        rn = f.calls_to("core::ops::range::RangeInclusive::new")
        each = f.calls_to(BS + one)
        ok_ = False
        if rn and each:
            a0, a1 = strip(eb.operand(rn[0].args[0])), strip(eb.operand(rn[0].args[1]))
            item = eb.operand(each[0].args[1])
            ok_ = a0.k == "arg" and a0[1] == 2 and a1.k == "arg" and a1[1] == 3 and \
                any(is_call(x, "core::iter::traits::iterator::Iterator::next") for x in walk(item)) and \
                any(is_call(x, "core::ops::range::RangeInclusive::new") for x in walk(item)) and \
                not any(x.k == "bin" for x in walk(item))
        if not ok_ and rn and not each:
            # the adapter spelling: (start..=end).for_each(|b| self.add(b)) — for_each visits every element, the closure hands its
            # parameter on unchanged
            fe = [c for c in f.calls() if c.path.endswith("Iterator::for_each")]
            a0, a1 = strip(eb.operand(rn[0].args[0])), strip(eb.operand(rn[0].args[1]))
            for c in fe:
                recv = eb.operand(c.args[0])
                for x in walk(eb.operand(c.args[1])):
                    g_ = facts.fns.get(x[1]) if x.k == "closure" else None
                    if g_ is None:
                        continue
                    inner = g_.calls_to(BS + one)
                    if inner and a0.k == "arg" and a0[1] == 2 and a1.k == "arg" and a1[1] == 3 and \
                            any(is_call(y, "core::ops::range::RangeInclusive::new") for y in walk(recv)) and \
                            not any(y.k == "call" and "Iterator::" in y[1] for y in walk(recv)):
                        item_ = strip(ExprBuilder(g_).operand(inner[0].args[1]))
                        ok_ = item_.k == "arg" and item_[1] == 2
        if ok_:
            r.ok("byteset|" + nm, "for b in start..=end { %s(b) }" % one, fn=f)
        else:
            r.bad("byteset|" + nm, "ByteSet::%s is no longer the per-byte loop `for b in start..=end { %s(b) }`: whether every byte of "
                  "the range is %s cannot be decided from the shape of the code any more (the bytes of a class range that stay "
                  "in non_matching_bytes are then promised never to occur in a match although they do)"
                  % (nm, one, "removed" if one == "remove" else "added"), fn=f, construct="byteset")


def engine_rule(ctx, r):
    """Line anchors compiled by the engine look at one byte (default `\\n`). The searcher hands out lines cut at the configured
    terminator; the printers re-search a line *inside* its buffer. Unless the engine is given the same byte, `^a` under
    --null-data matches a record only where it happens to start a haystack: -c counts the record, --count-matches / -o / JSON
    submatches find nothing in it."""
    facts = ctx.facts
    f = facts.fn(R + "::config::ConfiguredHIR::to_regex")
    eb = ExprBuilder(f)
    lt = [c for c in f.calls() if c.path.endswith("meta::regex::Config::line_terminator")]
    if lt and any(x.k == "field" and x[3] == "line_terminator" for x in walk(eb.operand(lt[0].args[1]))):
        r.ok("engine|line_terminator", "meta::Config::line_terminator(config.line_terminator …)", fn=f)
    else:
        r.bad("engine|line_terminator", "ConfiguredHIR::to_regex builds the regex without the configured line terminator: its line "
              "anchors stay tied to `\\n` while the searcher's lines end at the configured byte (NUL with --null-data), so a "
              "line matches or not depending on whether it is searched alone or inside its buffer", fn=f, construct="to_regex")


def anchors_tables(ctx, r):
    """The terminator promise of a configured expression, as value tables (seeded propagation through the accessor, the
    ConfiguredHIR helpers it calls and the closures of Option combinators; the look-set predicates, config.crlf and
    config.line_terminator are the row's inputs). How the functions spell the decision — if/else, a shared helper,
    `Option::filter` — does not matter.

      line_terminator():      None ⇔ no terminator configured ∨ haystack anchors ∨ (crlf ? LF anchors : CRLF anchors)
      non_matching_bytes():   terminator configured ∧ the promise is withheld ⇒ its bytes are removed from the set;
                              no terminator configured ∧ line anchors ⇒ every byte but \\n is removed
    """
    import itertools as _it
    from ..flow import combinator_model
    facts = ctx.facts
    CFG = R + "::config::Config"
    h = facts.fn(R + "::config::ConfiguredHIR::line_terminator")
    nb = facts.fn(R + "::config::ConfiguredHIR::non_matching_bytes")

    def helpers(path):
        return path.startswith(R + "::config::ConfiguredHIR::") and path not in (h.path, nb.path)

    def models(hay, lf, ca, crlf, term):
        def inner(call, argv):
            p = call.path
            if p.endswith("LookSet::contains_anchor_haystack"):
                return I(hay)
            if p.endswith("LookSet::contains_anchor_lf"):
                return I(lf)
            if p.endswith("LookSet::contains_anchor_crlf"):
                return I(ca)
            if p.endswith("LookSet::contains_anchor_line"):
                return I(lf | ca)
            if p.endswith("LookSet::contains_anchor"):
                return I(hay | lf | ca)
            return None

        def fields(owner, name):
            if owner == CFG and name == "crlf":
                return I(crlf)
            if owner == CFG and name == "line_terminator":
                return V("Some", None) if term else V("None", None)
            return None
        return combinator_model(facts, inner, field_model=fields, callees=helpers), fields
    # which look set is consulted: the set of *all* look-arounds (Properties::look_set), not the prefix/suffix variants, which
    # hold only what is guaranteed on every path (\\A inside one alternation branch would slip through)
    scope = [h, nb] + [f_ for p_, f_ in facts.fns.items() if helpers(p_)]
    scope += [g_ for f_ in list(scope) for g_ in facts.closures_of(f_.path)]
    partial = [c for f_ in scope for c in f_.calls()
               if c.path.split("::")[-1] in ("look_set_prefix", "look_set_suffix", "look_set_prefix_any", "look_set_suffix_any")]
    consults = [c for f_ in scope for c in f_.calls() if c.path.endswith("LookSet::contains_anchor_haystack")]
    wrong, kind_wrong = [], []
    for hay, lf, ca, crlf in _it.product([0, 1], repeat=4):
        m, fm = models(hay, lf, ca, crlf, 1)
        sx = Sccp(h, call_model=m, field_model=fm).run([(0, {})])
        vals = {x for v in sx.ret_values.values() for x in value_set(v)}
        withheld = bool(vals) and all(v is not None and v[0] == "v" and v[1] == "None" for v in vals)
        kept = bool(vals) and not any(v is not None and v[0] == "v" and v[1] == "None" for v in vals)
        want = bool(hay or (lf if crlf else ca))
        if (want and not withheld) or (not want and not kept):
            row = "haystack=%d lf=%d crlf-anchors=%d config.crlf=%d ⇒ %s" % (hay, lf, ca, crlf, sorted(map(str, vals)))
            (wrong if hay else kind_wrong).append(row) if want else (wrong if not (lf or ca) else kind_wrong).append(row)
    if partial:
        r.bad("anchors", "ConfiguredHIR::line_terminator looks for haystack anchors in a partial look set (prefix/suffix), not "
              "in Properties::look_set(): \\A or \\z inside one alternation branch keeps the terminator promise and the fast "
              "line path then evaluates it against the scan position", fn=h, loc=partial[0].loc, construct="anchors")
    elif not consults:
        r.bad("anchors", "the terminator promise no longer depends on haystack anchors", fn=h, construct="anchors")
    elif wrong:
        r.bad("anchors", "ConfiguredHIR::line_terminator promises a terminator despite haystack anchors (or withholds it without "
              "any anchor): %s" % wrong[0], fn=h, construct="anchors")
    else:
        r.ok("anchors", "\\A / \\z in the pattern ⇒ no terminator promise; otherwise the configured one", fn=h)
    if kind_wrong:
        r.bad("anchors|kind", "line_terminator keeps the terminator promise for line anchors that disagree with the configured terminator "
              "(%s; %d of 16 rows): `(?R)\\s$` without --crlf or `a(?-R)$` with it match a line searched alone but not inside its "
              "buffer, and the fast line path passes over it" % (kind_wrong[0], len(kind_wrong)), fn=h, construct="anchors")
    else:
        r.ok("anchors|kind", "withheld ⇔ haystack anchors ∨ (crlf ? LF anchors : CRLF anchors) (16 rows)", fn=h)
    # non_matching_bytes(): which removals run
    ebn = ExprBuilder(nb)
    AS_B = ("grep_matcher::LineTerminator::as_bytes", "grep_matcher::LineTerminator::as_byte")
    rem = [c for c in nb.calls() if c.path.endswith("ByteSet::remove")]
    rem_term = [c for c in rem if mentions_call(ebn.operand(c.args[1]), *AS_B)]
    rem_all = [c for c in rem if c not in rem_term]
    # a removal inside a closure handed to an iterator (`bytes.iter().for_each(|&b| set.remove(b))`) happens where the
    # closure is consumed; what it removes is what the iterator yields
    for g_ in facts.closures_of(nb.path):
        if not any(c.path.endswith("ByteSet::remove") for c in g_.calls()):
            continue
        for c in nb.calls():
            ops_ = [ebn.operand(a_) for a_ in c.args]
            if any(x.k == "closure" and x[1] == g_.path for o_ in ops_ for x in walk(o_)):
                (rem_term if any(mentions_call(o_, *AS_B) for o_ in ops_) else rem_all).append(c)
    nm_wrong, ml_wrong = [], []
    for hay, lf, ca, crlf in _it.product([0, 1], repeat=4):
        for term in (1, 0):
            m, fm = models(hay, lf, ca, crlf, term)
            sx = Sccp(nb, call_model=m, field_model=fm).run([(0, {})])
            t_run = any(c.bb in sx.exec_blocks for c in rem_term)
            a_run = any(c.bb in sx.exec_blocks for c in rem_all)
            if term:
                want_t = bool(hay or (lf if crlf else ca))
                if t_run != want_t:
                    nm_wrong.append("haystack=%d lf=%d crlf-anchors=%d config.crlf=%d: terminator bytes %sremoved" % (hay, lf, ca, crlf, "" if t_run else "not "))
                if a_run:
                    ml_wrong.append("with a configured terminator every other byte is removed (haystack=%d lf=%d crlf-anchors=%d)" % (hay, lf, ca))
            else:
                if a_run != bool(lf or ca):
                    ml_wrong.append("no terminator configured, lf=%d crlf-anchors=%d: other bytes %sremoved" % (lf, ca, "" if a_run else "not "))
    # the loop over "every byte" spares \\n: some comparison with 10 decides the removal (in the function or in a closure of it)
    spares = any(st["k"] == "assign" and st["rv"]["k"] == "bin" and st["rv"]["op"] in ("Ne", "Eq") and
                 any((op_const(o) or {}).get("val") == 10 for o in (st["rv"]["a"], st["rv"]["b"]))
                 for g_ in [nb] + facts.closures_of(nb.path) for _, _, st in g_.stmts())
    if not rem_term or nm_wrong:
        r.bad("anchors|non_matching", "with \\A / \\z in the pattern line_terminator() is withheld, but non_matching_bytes() still "
              "lists the configured terminator (only \\n is special-cased): with --null-data the searcher takes the fast line path and "
              "evaluates the anchors against the scan position, passing over matching records (%s)"
              % (nm_wrong[0] if nm_wrong else "no removal of the terminator's bytes"), fn=nb, construct="anchors")
    else:
        r.ok("anchors|non_matching", "promise withheld ⇒ the configured terminator is taken out of non_matching_bytes() (32 rows)", fn=nb)
    if not rem_all or ml_wrong or not spares:
        r.bad("anchors|multiline", "with no terminator configured (multi-line search) and line anchors in the pattern, "
              "non_matching_bytes() still advertises other bytes: under -U --null-data the searcher then cuts its input at NUL and "
              "searches buffer by buffer, and `^a` matches a record only if a buffer happens to begin there (--mmap and --no-mmap "
              "disagree)%s" % (" [%s]" % ml_wrong[0] if ml_wrong else ""), fn=nb, construct="anchors")
    else:
        r.ok("anchors|multiline", "no terminator configured ∧ line anchors ⇒ only \\n may stay in non_matching_bytes()", fn=nb)

def run(ctx):
    facts = ctx.facts
    with ctx.rule("C11.ARMS", "HirKind walkers: explicit arm per variant, recursion into all children, leaves handled", floor=28,
                  kind="ARMS") as r:
        ERRNEW = R + "::error::Error::new"

        def strip_leaf(f, reg, v):
            # the rejecting closure `invalid` or a class difference
            calls = [c for c in f.calls() if c.bb in reg]
            inv = any(c.is_("core::ops::function::Fn::call") or c.is_(ERRNEW) for c in calls)
            diff = any(c.path.endswith("::difference") for c in calls)
            if v == "Literal":
                return (inv and any(c.path.endswith("Iterator::find") or c.path.endswith("memchr") or "find" in c.path or
                                    c.path.endswith("::contains") or c.path.endswith("Iterator::any") or c.path.endswith("Iterator::position")
                                    for c in calls),
                        "searches the literal for the byte and rejects it" if inv else "never rejects a literal containing the terminator")
            return (diff and inv, "removes the byte with a class difference and rejects an emptied class" if diff and inv
                    else "does not remove the terminator from classes (difference %s, reject %s)" % (diff, inv))

        def nm_leaf(f, reg, v):
            calls = [c for c in f.calls() if c.bb in reg]
            rm = [c for c in calls if c.path in ("grep_matcher::ByteSet::remove", "grep_matcher::ByteSet::remove_all")]
            looped = any(c.bb in C.reach_after(f, c.bb) for c in rm)
            if not rm:
                # the iterator spelling: `….for_each(|b| set.remove(b))` — a closure created in the arm whose body removes, handed
                # to an adapter that visits every element
                ebf = ExprBuilder(f)
                for c in calls:
                    if c.path in ("core::iter::traits::iterator::Iterator::for_each", "core::iter::traits::iterator::Iterator::fold"):
                        for x in walk(ebf.operand(c.args[1])):
                            if x.k == "closure" and x[1] in facts.fns and any(
                                    c2.path in ("grep_matcher::ByteSet::remove", "grep_matcher::ByteSet::remove_all")
                                    for g_ in [facts.fns[x[1]]] + facts.closures_of(x[1]) for c2 in g_.calls()):
                                rm, looped = [c], True
            return (bool(rm) and looped, "removes every byte of the leaf from the set (in a loop)" if rm and looped
                    else "does not remove all bytes the leaf can match")

        def ban_leaf(f, reg, v):
            calls = [c for c in f.calls() if c.bb in reg]
            inv = any(c.is_("core::ops::function::Fn::call") or c.is_(ERRNEW) for c in calls)
            if not inv:
                # the arm may only compute the verdict (`let banned = match .. { Literal(l) => l.contains(&b), .. }`) and the
                # rejection follow the match: it has to be reachable with what this arm computed (constant propagation from
                # the arm's entry; an arm that yields a constant `false` does not reach it)
                entries = [b_ for b_ in reg if any(p_ not in reg for p_ in f.preds(b_))]
                for e_ in entries:
                    sx = Sccp(f).run([(e_, {})])
                    if any(c.bb in sx.exec_blocks and (c.is_("core::ops::function::Fn::call") or c.is_(ERRNEW)) for c in f.calls()):
                        inv = True
            return (inv, "rejects the banned byte" if inv else "never rejects the banned byte")

        def ext_leaf(f, reg, v):
            calls = [c for c in f.calls() if c.bb in reg]
            if v == "Literal":
                ok = any(c.path == TSEQ + "::singleton" for c in calls) and any(c.path == EXT + "::enforce_literal_len" for c in calls)
                return ok, "exact singleton, length-limited" if ok else "does not produce a length-limited exact literal"
            ok = any(c.path in (EXT + "::extract_class_unicode", EXT + "::extract_class_bytes") for c in calls)
            return ok, "delegates to extract_class_{unicode,bytes}" if ok else "does not handle classes"

        walker_rule(ctx, r, R + "::strip::strip_from_match_ascii", "strip", strip_leaf)
        res = walker_rule(ctx, r, R + "::non_matching::remove_matching_bytes", "non_matching", nm_leaf)
        walker_rule(ctx, r, R + "::ban::check", "ban", ban_leaf)
        walker_rule(ctx, r, EXT + "::extract", "extract", ext_leaf,
                    helpers={"Repetition": [EXT + "::extract_repetition"], "Concat": [EXT + "::extract_concat"],
                             "Alternation": [EXT + "::extract_alternation"]})
        # extract_repetition recurses into sub
        er = facts.fn(EXT + "::extract_repetition")
        if er.calls_to(EXT + "::extract"):
            r.ok("extract|rec|Repetition-helper", "extract_repetition extracts from rep.sub", fn=er)
        else:
            r.bad("extract|rec|Repetition-helper", "extract_repetition no longer looks at the repeated sub-expression", fn=er)
        # every Look variant classified in remove_matching_bytes
        if res:
            f, arms, ow, variants = res
            lsw = [s for s in discr_switches(f, LOOK)]
            lv = facts.adts.get(LOOK)
            if lsw:
                got = set()
                missing = set()
                for s in lsw:
                    got |= set(s[3])
                    missing |= set(s[6])
                allv = {d for s in lsw for d in list(s[3]) + list(s[6])}
                live_wild = any(s[5] and s[6] for s in lsw)
                if missing and live_wild:
                    r.bad("non_matching|look", "Look variants %s fall into a wildcard in remove_matching_bytes: a new look-around "
                          "kind would be silently treated as matching nothing" % sorted(missing), fn=f, construct="Look")
                else:
                    r.ok("non_matching|look", "%d Look variants classified explicitly" % len(got), fn=f)
                # line anchors remove the terminator bytes
                rm = [c for c in f.calls() if c.path == "grep_matcher::ByteSet::remove"]
                eb = ExprBuilder(f)
                consts = sorted({W.const_val(eb.operand(c.args[1])) for c in rm if W.const_val(eb.operand(c.args[1])) is not None})
                if 10 in consts and 13 in consts:
                    r.ok("non_matching|anchors", "line anchors remove \\n (and \\r for CRLF) from the non-matching set", fn=f)
                else:
                    r.bad("non_matching|anchors", "line anchors no longer remove the terminator bytes (%s)" % consts, fn=f, construct="anchors")
            else:
                r.bad("non_matching|look", "anchor-missing: no match on Look in remove_matching_bytes", fn=f)

    with ctx.rule("C11.CRLF", "CRLF strips both bytes in sequence; non-ASCII terminators rejected first; as_byte() only off CRLF", floor=6, kind="FLOW/GUARD") as r:
        f = facts.fn(R + "::strip::strip_from_match")
        eb = ExprBuilder(f)
        ASC = R + "::strip::strip_from_match_ascii"
        # value table over line_term.is_crlf(): which strip passes run, with which byte, and on what. A pass may sit in the
        # function or in a closure it hands to and_then / try_fold (the site is then the consuming call).
        from ..flow import call_sites as _cs, with_default as _wd
        sites = _cs(facts, f, ASC)
        asks = f.calls_to("grep_matcher::LineTerminator::is_crlf")
        LT_AB = "grep_matcher::LineTerminator::as_bytes"

        def passes(crlf_val):
            sx = Sccp(f, call_model=_wd(lambda c_, argv: I(crlf_val) if c_.is_("grep_matcher::LineTerminator::is_crlf") else None)).run([(0, {})])
            out = []
            for bb_, unit, c_ in sites:
                if bb_ not in sx.exec_blocks:
                    continue
                ebu = ExprBuilder(unit)
                byte_e, expr_e = ebu.operand(c_.args[1]), ebu.operand(c_.args[0])
                # for a pass inside a closure: what the consuming call is applied to
                host = [x for x in f.calls() if x.bb == bb_][0] if unit is not f else None
                host_args = [eb.operand(a_) for a_ in host.args] if host is not None else []
                out.append({"byte": W.const_val(byte_e), "as_byte": mentions_call(byte_e, "grep_matcher::LineTerminator::as_byte"),
                            "chained": mentions_call(expr_e, ASC) or any(mentions_call(h_, ASC) for h_ in host_args),
                            "fold_bytes": host is not None and host.path.rsplit("::", 1)[-1] in ("try_fold", "fold", "try_for_each") and
                            any(mentions_call(h_, LT_AB) for h_ in host_args),
                            "call": c_, "unit": unit})
            return out
        if not sites or not asks and not any(mentions_call(eb.operand(a_), LT_AB) for c_ in f.calls() for a_ in c_.args):
            r.bad("crlf", "anchor-missing: strip_from_match shape (calls %d)" % len(sites), fn=f)
        else:
            pc, pn = passes(1), passes(0)
            consts = sorted(p_["byte"] for p_ in pc if p_["byte"] is not None)
            folded = any(p_["fold_bytes"] for p_ in pc)
            if (consts == [10, 13] and any(p_["chained"] for p_ in pc if p_["byte"] == 10)) or folded:
                r.ok("crlf", "CRLF: strip \\r then \\n, the second pass on the first's result", fn=f)
            else:
                r.bad("crlf", "under a CRLF terminator the pattern is not stripped of both \\r and \\n in sequence (bytes %s, chained %s)"
                      % (consts, any(p_["chained"] for p_ in pc)), fn=f, construct="crlf")
            if any(p_["as_byte"] for p_ in pn) and not any(p_["byte"] in (10, 13) for p_ in pn) or any(p_["fold_bytes"] for p_ in pn):
                r.ok("single", "otherwise strip line_term.as_byte()", fn=f)
            else:
                r.bad("single", "the single-byte terminator path does not strip line_term.as_byte()", fn=f, construct="single")
            for p_ in pc:
                if p_["unit"] is f and not p_["chained"] and p_["byte"] == 13:
                    v, d = classify_result(f, p_["call"])
                    if v not in ("try", "returned"):
                        r.bad("crlf|err", "an error of the first CRLF pass is %s" % v, fn=f)
        g = facts.fn(ASC)
        ebg = ExprBuilder(g)
        ia = cond_switches(g, lambda e: is_call(e, "core::num::<impl u8>::is_ascii") or (e.k == "call" and e[1].endswith("is_ascii")), ebg)
        ik = [c for c in g.calls() if c.path.endswith("Hir::into_kind")]
        if ia and ik and not guarded(g, [ik[0].bb], ia, True):
            s = Sccp(g).run([(ia[0][2][1], {})])
            vals = {x for v in s.ret_values.values() for x in value_set(v)}
            if vals and all(v is not None and v[1] == "Err" for v in vals):
                r.ok("ascii", "non-ASCII terminator ⇒ Err before any rewriting", fn=g)
            else:
                r.bad("ascii", "a non-ASCII terminator is not rejected", fn=g, construct="ascii")
        else:
            r.bad("ascii", "the pattern is rewritten before the terminator is checked to be ASCII", fn=g, construct="ascii")

        # as_byte() collapses CRLF to \n: inside the regex crate, where the terminator names bytes a match may not
        # contain, it may be consulted only where is_crlf() was tested false (strip path and the fixed-strings gate alike)
        AB = "grep_matcher::LineTerminator::as_byte"
        n_ab = 0
        for fn_ in facts.fns_in(R + "::"):
            cs_ = fn_.calls_to(AB)
            if not cs_:
                continue
            n_ab += 1
            if fn_.kind == "closure":
                par = facts.fn(fn_.d["parent"])
                sites = [bb for bb, j, st in par.stmts() if st["k"] == "assign" and st["rv"].get("closure") == fn_.path]
            else:
                par, sites = fn_, [c.bb for c in cs_]
            swp = cond_switches(par, lambda e: is_call(e, "grep_matcher::LineTerminator::is_crlf"), ExprBuilder(par))
            key = "asbyte|" + fn_.path.split("::", 1)[1]
            # table exception, one reason: the byte handed to the engine as *its* line terminator (meta::Config::
            # line_terminator) is what LF anchors look at; under CRLF the translator emits CRLF anchors, which do not consult
            # it, and `\n` is the right byte for an explicit `(?-R)` anchor. Nothing is rejected or stripped with it.
            ebp = ExprBuilder(par)
            eng = [c for c in par.calls() if c.path.endswith("meta::regex::Config::line_terminator")]
            if eng and fn_.kind == "closure" and any(x.k == "closure" and x[1] == fn_.path for x in walk(ebp.operand(eng[0].args[1]))) and \
                    len(cs_) == 1:
                r.ok(key, "as_byte() only names the engine's LF-anchor byte (C11.ENGINE)", fn=fn_, nontrivial=False)
                continue
            if sites and swp and not guarded(par, sites, swp, False):
                r.ok(key, "as_byte() consulted only on the !is_crlf() edge", fn=fn_)
            else:
                r.bad(key, "%s consults LineTerminator::as_byte() without excluding CRLF first: under --crlf a \\r in the "
                      "pattern is neither rejected nor stripped" % fn_.path, fn=fn_, loc=cs_[0].loc, construct="as_byte")
        hl = facts.fn(R + "::config::has_line_terminator")
        swh = cond_switches(hl, lambda e: is_call(e, "grep_matcher::LineTerminator::is_crlf"), ExprBuilder(hl))
        allb = [c for fn_ in facts.with_closures(hl.path) for c in fn_.calls_to("grep_matcher::LineTerminator::as_bytes")]
        if swh:
            consts = set()
            for cl in facts.closures_of(hl.path):
                sites = [bb for bb, j, st in hl.stmts() if st["k"] == "assign" and st["rv"].get("closure") == cl.path]
                if sites and not guarded(hl, sites, swh, True):
                    ebc = ExprBuilder(cl)
                    for bb, j, st in cl.stmts():
                        if st["k"] == "assign" and st["rv"]["k"] == "bin" and st["rv"]["op"] == "Eq":
                            for o in (st["rv"]["a"], st["rv"]["b"]):
                                v_ = W.const_val(ebc.operand(o))
                                if v_ is not None:
                                    consts.add(v_)
            # decide the closure for b = 13, b = 10 and an unrelated byte (three-row table)
            table_ok = True
            for cl in facts.closures_of(hl.path):
                sites = [bb for bb, j, st in hl.stmts() if st["k"] == "assign" and st["rv"].get("closure") == cl.path]
                if not (sites and not guarded(hl, sites, swh, True)):
                    continue
                for val, want in ((13, 1), (10, 1), (97, 0)):
                    sx = Sccp(cl).run([(0, {(2, ()): I(val)})])
                    got = {x for v_ in sx.ret_values.values() for x in value_set(v_)}
                    if got != {I(want)}:
                        table_ok = False
            if {10, 13} <= consts and table_ok:
                r.ok("gate|crlf", "has_line_terminator: under CRLF a literal containing \\r or \\n is not a fixed string", fn=hl)
            elif {10, 13} <= consts:
                r.bad("gate|crlf", "has_line_terminator's CRLF test is not `b == \\r || b == \\n` (its three-row table differs): a fixed-strings "
                      "pattern containing a terminator byte skips stripping", fn=hl, construct="has_line_terminator")
            else:
                r.bad("gate|crlf", "has_line_terminator tests only %s under CRLF: a fixed-strings pattern containing the other "
                      "terminator byte skips stripping and can match the terminator" % sorted(consts), fn=hl, construct="has_line_terminator")
        elif allb and not any(fn_.calls_to(AB) for fn_ in facts.with_closures(hl.path)):
            r.ok("gate|crlf", "has_line_terminator tests every byte of as_bytes()", fn=hl)
        else:
            r.bad("gate|crlf", "has_line_terminator neither distinguishes CRLF nor tests all of as_bytes()", fn=hl,
                  construct="has_line_terminator")
        isf = facts.fn(R + "::config::Config::is_fixed_strings")
        hc = isf.calls_to(hl.path) + [c for cl in facts.closures_of(isf.path) for c in cl.calls_to(hl.path)]
        if hc:
            r.ok("gate|consulted", "is_fixed_strings consults has_line_terminator (%d site(s))" % len(hc), fn=isf, nontrivial=False)
        else:
            r.bad("gate|consulted", "is_fixed_strings no longer checks literals for the line terminator", fn=isf)

    with ctx.rule("C11.ENGINE", "the regex engine is told the configured line terminator, so `^` / `$` mean the searcher's lines "
                  "(shared with C10.ANCHORS)", floor=1, kind="WIRE") as r:
        engine_rule(ctx, r)
    with ctx.rule("C11.BAN", "a pattern that can only match with the banned byte (NUL under binary detection) is rejected on every "
                  "route that builds the expression, the literal shortcut included", floor=1, kind="PASS") as r:
        f = facts.fn(R + "::config::ConfiguredHIR::new")
        eb = ExprBuilder(f)
        chk = f.calls_to(R + "::ban::check")
        oks = [bb for bb, j, st in f.stmts() if st["k"] == "assign" and st["rv"]["k"] == "agg" and st["rv"].get("adt") == R + "::config::ConfiguredHIR"]
        from ..flow import discr_switch_edges
        bansw = discr_switch_edges(f, lambda e: any(x.k == "field" and x[3] == "ban" for x in walk(e)), eb)
        if not chk or not oks or not bansw:
            r.bad("ban|routes", "anchor-missing: ban::check / config.ban test / ConfiguredHIR construction in ConfiguredHIR::new", fn=f)
        else:
            removed = set()
            for bb, arms, ow, e, missing in bansw:
                if "None" in arms:
                    removed.add(arms["None"])
                elif "Some" in arms:
                    removed.add(ow)
            left = C.all_paths_pass(f, [0], [c.bb for c in chk], oks, removed_edges=removed)
            # a check guarded by `Some(byte) = config.ban` on one route only: the other route reaches the result with no such test
            # at all, so removing the None edges leaves it reachable
            if left:
                r.bad("ban|routes", "ConfiguredHIR::new can build its expression without ban::check although a byte is banned: the "
                      "hand-built alternation of literals (patterns without meta characters, or -F) skips it, so `rg -f pats` with "
                      "a NUL inside a plain pattern is accepted and silently never matches where the same pattern written as a "
                      "regex is rejected", fn=f, loc=chk[0].loc, construct="ban")
            else:
                r.ok("ban|routes", "config.ban = Some(b) ⇒ every route passes ban::check before the expression is returned", fn=f)
    with ctx.rule("C11.BYTESET", "ByteSet: add / remove / contains address the same bucket and bit of a byte; the range forms are the "
                  "per-byte ones", floor=5, kind="PARITY") as r:
        byteset_rule(ctx, r)
    with ctx.rule("C11.EXACT", "exactness bookkeeping of the inner-literal extractor", floor=9, kind="PASS/GUARD") as r:
        exact_rule(ctx, r)
    with ctx.rule("C11.GATE", "no extraction without a terminator; terminator withheld under haystack anchors; candidate/confirmed sources",
                  floor=5, kind="GUARD/ARMS") as r:
        gate_rule(ctx, r)


def exact_rule(ctx, r):
    facts = ctx.facts
    MI = TSEQ + "::make_inexact"
    f = facts.fn(TSEQ + "::choose")
    mi = f.calls_to(MI)
    if len(mi) >= 2 and all(not C.all_paths_pass(f, [0], {c.bb}, f.return_blocks()) for c in mi[:2]):
        eb = ExprBuilder(f)
        r.ok("choose", "both operands made inexact before every return", fn=f)
    else:
        r.bad("choose", "TSeq::choose can return a sequence still marked exact: a later concatenation would treat a partial "
              "literal as complete", fn=f, construct="choose")
    g = facts.fn(EXT + "::extract_repetition")
    ebg = ExprBuilder(g)
    mi = g.calls_to(MI)
    REP = "regex_syntax::hir::Repetition"

    # value table over (rep.min, rep.max, limit_repeat): in which cases every way out passes make_inexact — whatever the
    # arms are called and however the conditions are combined
    from ..flow import always_after, combinator_model as _cm

    def inexact_always(mn, mx, limit):
        def fm(owner, name):
            if owner == REP and name == "min":
                return I(mn)
            if owner == REP and name == "max":
                return V("None", None) if mx is None else V("Some", I(mx))
            if owner == EXT and name == "limit_repeat":
                return I(limit)
            return None

        def inner(call, argv):
            if call.path.endswith("TryFrom::try_from") and argv and argv[0] is not None:
                return V("Ok", argv[0])
            return None
        return always_after(g, [c.bb for c in mi], g.return_blocks(), call_model=_cm(facts, inner, field_model=fm), field_model=fm)
    if not mi:
        r.bad("repetition|sites", "extract_repetition has no make_inexact site", fn=g, construct="repetition")
    if inexact_always(2, 3, 10):
        r.ok("repetition|range", "{m,n} with m<n ⇒ inexact", fn=g)
    else:
        r.bad("repetition|range", "a bounded repetition {m,n} (m<n) can yield an exact sequence", fn=g, construct="repetition")
    if inexact_always(2, None, 10):
        r.ok("repetition|open", "open-ended repetition ⇒ inexact", fn=g)
    else:
        r.bad("repetition|open", "an open-ended repetition ({m,}) can yield an exact sequence", fn=g, construct="repetition")
    if inexact_always(0, 3, 10) and inexact_always(0, None, 10):
        r.ok("repetition|zero", "{0,n}: inexact unless n == 1", fn=g)
    else:
        r.bad("repetition|zero", "`x*` / `x{0,n}` is no longer made inexact under max != Some(1)", fn=g, construct="repetition")
    if inexact_always(2, 2, 1):
        r.ok("repetition|exact", "{n}: inexact only when n exceeds the repeat limit", fn=g)
    else:
        r.bad("repetition|exact", "`x{n}` beyond the repeat limit is no longer made inexact", fn=g, construct="repetition")
    h = facts.fn(EXT + "::extract_concat")
    mnp = h.calls_to(TSEQ + "::make_not_prefix")
    ebh = ExprBuilder(h)
    inx = cond_switches(h, lambda e: is_call(e, TSEQ + "::is_inexact"), ebh)
    if mnp and inx and not guarded(h, [mnp[0].bb], inx, True) and h.calls_to(TSEQ + "::choose"):
        r.ok("concat|restart", "after an inexact prefix the sequence restarts as not-prefix and the better half is chosen", fn=h)
    else:
        r.bad("concat|restart", "extract_concat restarts a sequence without marking it not-prefix (it could be crossed as if it "
              "started at the beginning)", fn=h, construct="concat")
    cr = facts.fn(EXT + "::cross")
    ebc = ExprBuilder(cr)
    pf = cond_switches(cr, lambda e: W.field_of(e, TSEQ, "prefix") or mentions_field(e, TSEQ, "prefix"), ebc)
    ch = cr.calls_to(TSEQ + "::choose")
    cf = cr.calls_to(TSEQ + "::cross_forward")
    if pf and ch and cf and not guarded(cr, [ch[0].bb], pf, False) and not guarded(cr, [cf[0].bb], pf, True):
        r.ok("cross|prefix", "cross: !seq2.prefix ⇒ choose, otherwise cross_forward", fn=cr)
    else:
        r.bad("cross|prefix", "Extractor::cross crosses with a sequence that is not a prefix", fn=cr, construct="cross")
    for fn_, combine in ((cr, TSEQ + "::cross_forward"), (facts.fn(EXT + "::union"), TSEQ + "::union")):
        inf = fn_.calls_to(TSEQ + "::make_infinite")
        cmb = fn_.calls_to(combine)
        # value table: the projected size (max_cross_len / max_union_len) against limit_total = 10

        def run_(size):
            def fm(owner, name):
                return I(10) if owner == EXT and name == "limit_total" else (I(1) if owner == TSEQ and name == "prefix" else None)

            def inner(call, argv):
                if call.path.endswith(("::max_cross_len", "::max_union_len")):
                    return V("None", None) if size is None else V("Some", I(size))
                return None
            return _cm(facts, inner, field_model=fm), fm
        cm_over, fm_over = run_(100)
        over = inf and cmb and always_after(fn_, [c.bb for c in inf], [c.bb for c in cmb], call_model=cm_over, field_model=fm_over)
        if over:
            # (giving up although the size fits would lose a prefilter, not a match: not demanded)
            r.ok("%s|limit" % fn_.name, "over limit_total ⇒ operand made infinite before combining", fn=fn_)
        else:
            r.bad("%s|limit" % fn_.name, "Extractor::%s no longer gives up (infinite) when the combined size exceeds limit_total"
                  % fn_.name, fn=fn_, construct="limit")
    eu = facts.fn(EXT + "::extract_untagged")
    ebu = ExprBuilder(eu)
    ig = cond_switches(eu, lambda e: is_call(e, TSEQ + "::is_good"), ebu)
    mk = eu.calls_to(TSEQ + "::make_infinite")
    if ig and mk and not guarded(eu, [mk[0].bb], ig, False):
        r.ok("untagged|good", "sequences that are not 'good' are thrown away (infinite)", fn=eu)
    else:
        r.bad("untagged|good", "extract_untagged keeps literal sets that fail is_good()", fn=eu, construct="good")



def gate_rule(ctx, r):
    facts = ctx.facts
    IL = R + "::literal::InnerLiterals"
    f = facts.fn(IL + "::new")
    eb = ExprBuilder(f)
    isn = cond_switches(f, lambda e: is_call(e, "core::option::Option::is_none") and
                        mentions_field(e, R + "::config::Config", "line_terminator"), eb)
    ex = f.calls_to(EXT + "::extract_untagged")
    if isn and ex and not guarded(f, [ex[0].bb], isn, False):
        s = Sccp(f).run([(isn[0][1][1], {})])
        if not any(c.bb in s.exec_blocks for c in ex) and any(c.bb in s.exec_blocks for c in f.calls_to(IL + "::none")):
            r.ok("no-terminator", "line_terminator.is_none() ⇒ InnerLiterals::none()", fn=f)
        else:
            r.bad("no-terminator", "literals are extracted although no line terminator is configured", fn=f, construct="gate")
    else:
        r.bad("no-terminator", "inner literals are extracted without checking that a line terminator is set (candidate lines "
              "would be meaningless)", fn=f, construct="gate")
    g = facts.fn(IL + "::one_regex")
    ebg = ExprBuilder(g)
    lit = g.calls_to("regex_syntax::hir::literal::Seq::literals")
    emp = cond_switches(g, lambda e: is_call(e, "[T]::is_empty"), ebg)
    bld = [c for c in g.calls() if c.path.endswith("Builder::build_from_hir")]
    if lit and emp and bld and not guarded(g, [bld[0].bb], emp, False):
        s = seed_after_call(g, lit[0], V("None", None))
        vals = {x for v in s.ret_values.values() for x in value_set(v)}
        if vals == {V("Ok", V("None", None))}:
            r.ok("one_regex", "infinite or empty sequence ⇒ no candidate regex", fn=g)
        else:
            r.bad("one_regex", "an infinite literal sequence still yields a candidate regex (%s)" % vals, fn=g, construct="one_regex")
    else:
        r.bad("one_regex", "one_regex builds a candidate regex from an empty/infinite sequence", fn=g, construct="one_regex")
    anchors_tables(ctx, r)
    k = facts.fn("<%s::matcher::RegexMatcher as grep_matcher::Matcher>::find_candidate_line" % R)
    ebk = ExprBuilder(k)
    LMK = "grep_matcher::LineMatchKind"
    # value table over fast_line_regex ∈ {None, Some}: which engine runs and which label its answer gets (a match, an
    # if-let, a let-else or combinators read the same)
    from ..flow import table as _table
    RM = R + "::matcher::RegexMatcher"

    def makes(fnobj, variant, blocks=None):
        return any(st["k"] == "assign" and st["rv"]["k"] == "agg" and st["rv"].get("adt") == LMK and st["rv"]["variant"] == variant
                   for bb, j, st in fnobj.stmts() if blocks is None or bb in blocks)

    def labelled(sx, variant):
        if makes(k, variant, sx.exec_blocks):
            return True
        for bb, j, st in k.stmts():
            if bb in sx.exec_blocks and st["k"] == "assign" and st["rv"]["k"] == "agg" and "closure" in st["rv"]:
                g_ = facts.fns.get(st["rv"]["closure"])
                if g_ is not None and makes(g_, variant):
                    return True
        return any(c.bb in sx.exec_blocks and any(x.k == "fnref" and x[1].endswith("LineMatchKind::" + variant)
                                                  for a_ in c.args for x in walk(ebk.operand(a_))) for c in k.calls())
    res = {}
    for row, sx in _table(facts, k, fields={(RM, "fast_line_regex"): [V("None", None), V("Some", None)]}):
        mode = row[("field", (RM, "fast_line_regex"))][1]
        real = any(c.bb in sx.exec_blocks and c.func.get("name") in ("shortest_match", "find", "is_match", "find_at", "shortest_match_at")
                   and (c.func.get("trait") or c.path.startswith(RM)) for c in k.calls())
        res[mode] = (labelled(sx, "Candidate"), labelled(sx, "Confirmed"), real)
    import json as _json
    if '"fast_line_regex"' not in _json.dumps(k.mir) or "Some" not in res:
        r.bad("candidate-line", "anchor-missing: find_candidate_line must branch on fast_line_regex", fn=k)
    elif res["Some"] == (True, False, False) and res["None"] == (False, True, True):
        r.ok("candidate-line", "Candidate only from the literal regex, Confirmed only from the full matcher", fn=k)
    else:
        r.bad("candidate-line", "find_candidate_line mislabels its answers (with a literal regex: candidate %s, confirmed %s, real matcher %s; "
              "without: candidate %s, confirmed %s, real matcher %s)" % (res["Some"] + res["None"]), fn=k, construct="candidate")
