"""C18 — preprocessor / decompression: close discipline, reaping, stderr, selection order."""
import itertools
from .. import cfg as C
from .. import hirx as H
from ..flow import ExprBuilder, mentions_field, mentions_call, is_call, is_field, walk, show, cond_switches, \
    guarded, seed_after_call, Sccp, I, V, X, strip, value_set
from ..graph import field_rw, classify_result, discr_switches
from ..facts import op_const, op_place, fields_of_place
from .. import wire as W

TITLE = "child-process reader discipline"
EXPLANATION = (
    "Structural necessary conditions of C18 on the MIR/HIR of grep-cli and rg: (CLOSE) in search_preprocessor and "
    "search_decompress every path from a successfully built reader to a return passes close(), whose result is "
    "propagated, as is the search result, and the search result is not `?`-ed before close runs; (REAP) "
    "CommandReader::close drops the child's stdout before waiting, turns a failing status into an error except when "
    "EOF was not reached and stderr is empty, read() marks EOF and closes on a zero-length read returning close's "
    "error, a second close is a no-op, and Drop closes; (STDERR) both command builders of the search worker enable "
    "asynchronous stderr, and the builder pipes both stdout and stderr and picks the async reader under that flag; "
    "(SELECT) stdin → reader, else preprocessor if selected, else decompression if enabled and recognised, else the "
    "path, with the two selection predicates decided as truth tables; a preprocessor that cannot start is an error "
    "while a decompressor that cannot start falls back to reading the file; (PATH) results are attributed to the "
    "original path. Child timing, exit-status delivery and truncated archives are not decided.")
NOT_DECIDED = ["child process timing and exit-status delivery", "behaviour on truncated archives"]

SW = "rg::search::SearchWorker"
CR = "grep_cli::process::CommandReader"
CRB = "grep_cli::process::CommandReaderBuilder"
DR = "grep_cli::decompress::DecompressionReader"
DRB = "grep_cli::decompress::DecompressionReaderBuilder"
SC = "rg::search::Config"


def worker_select_rows(facts):
    """Rows of SearchWorker::search as a MIR value table: (is_stdin, should_preprocess, should_decompress) ∈ {0,1}³ → the set of
    search_* methods of the worker that are executable. should_* are the row's inputs here (their own tables are separate)."""
    from ..flow import table
    SWK = "rg::search::SearchWorker"
    f = facts.fn(SWK + "::search")
    targets = {n: f.calls_to(SWK + "::" + n) for n in ("search_reader", "search_preprocessor", "search_decompress", "search_path")}
    out = []
    for row, sx in table(facts, f, calls={"Haystack::is_stdin": [I(0), I(1)], "SearchWorker::should_preprocess": [I(0), I(1)],
                                          "SearchWorker::should_decompress": [I(0), I(1)]}):
        bits = (row[("call", "Haystack::is_stdin")][1], row[("call", "SearchWorker::should_preprocess")][1],
                row[("call", "SearchWorker::should_decompress")][1])
        ran = sorted(n for n, cs in targets.items() if any(c.bb in sx.exec_blocks for c in cs))
        out.append((bits, ran))
    return f, targets, out

def run(ctx):
    facts = ctx.facts
    with ctx.rule("C18.CLOSE", "close() on every path after a reader was built; both results propagated, search result not ?-ed first",
                  floor=6, kind="PASS/USED") as r:
        for name, build, close in (("search_preprocessor", CRB + "::build", CR + "::close"),
                                   ("search_decompress", DRB + "::build", DR + "::close")):
            f = facts.fn(SW + "::" + name)
            eb = ExprBuilder(f)
            b = f.calls_to(build)
            cl = f.calls_to(close)
            sr = f.calls_to(SW + "::search_reader")
            if not b or not sr or len(cl) != 1:
                r.bad(name + "|shape", "anchor-missing: %s (build %d, search_reader %d, close %d)" % (name, len(b), len(sr), len(cl)), fn=f)
                continue
            # value table over (search result, close result) ∈ {Ok, Err}²: close() runs whatever the search said, and either
            # error ends up in the answer (a `?` sequence, a match on the pair or combinators read the same)
            from ..flow import table, ret_set
            rows = {}
            for row, sx in table(facts, f, calls={"SearchWorker::search_reader": [V("Ok", I(7)), V("Err", None)],
                                                  close.split("::", 1)[1]: [V("Ok", None), V("Err", None)],
                                                  build.split("::", 1)[1]: [V("Ok", None)]}):
                sv = row[("call", "SearchWorker::search_reader")][1]
                cv = row[("call", close.split("::", 1)[1])][1]
                kinds = {("?" if v is None else v[1]) for v in ret_set(sx)}
                rows[(sv, cv)] = (any(c.bb in sx.exec_blocks for c in cl), kinds)
            if not all(ran for ran, _ in rows.values()):
                r.bad(name + "|close", "%s can return after searching without calling close(): a failed command would go unreported "
                      "(the search result is propagated before close)" % name, fn=f, loc=sr[0].loc, construct="close")
            else:
                r.ok(name + "|close", "close() runs after the search whatever its result", fn=f)
            if rows[("Ok", "Err")][1] == {"Err"}:
                r.ok(name + "|close-result", "close()'s result is propagated", fn=f)
            else:
                r.bad(name + "|close-result", "the result of close() is dropped (search Ok, close Err ⇒ %s): a failing %s would not be reported" % (
                    sorted(rows[("Ok", "Err")][1]), "preprocessor" if "pre" in name else "decompressor"), fn=f, loc=cl[0].loc,
                    construct="close-result")
            if rows[("Err", "Ok")][1] == {"Err"} and rows[("Err", "Err")][1] == {"Err"} and "Ok" in rows[("Ok", "Ok")][1]:
                r.ok(name + "|search-result", "the search result is propagated after close", fn=f)
            else:
                r.bad(name + "|search-result", "%s does not propagate the search result after closing" % name, fn=f, construct="search-result")
        f = facts.fn(SW + "::search_preprocessor")
        b = f.calls_to(CRB + "::build")
        if b:
            from ..flow import table, ret_set
            kinds = set()
            for row, sx in table(facts, f, calls={CRB.split("::", 1)[1] + "::build": [V("Err", None)]}):
                kinds = {("?" if v is None else v[1]) for v in ret_set(sx)}
            if kinds == {"Err"}:
                r.ok("pre|spawn-error", "a preprocessor that cannot start is an error", fn=f)
            else:
                r.bad("pre|spawn-error", "a preprocessor spawn failure is not reported (%s)" % sorted(kinds), fn=f, construct="spawn")
        g = facts.fn(DRB + "::build")
        bb_ = g.calls_to(CRB + "::build")
        pt = g.calls_to(DR + "::new_passthru")
        if bb_ and pt:
            s = seed_after_call(g, bb_[0], V("Err", None))
            if any(c.bb in s.exec_blocks for c in pt):
                r.ok("zip|spawn-fallback", "a decompressor that cannot start falls back to reading the file (documented)", fn=g, nontrivial=False)
            else:
                r.bad("zip|spawn-fallback", "decompressor spawn failure no longer falls back to passthru", fn=g)

    with ctx.rule("C18.REAP", "CommandReader::close / read / Drop", floor=6, kind="ORDER/GUARD/A3") as r:
        f = facts.fn(CR + "::close")
        eb = ExprBuilder(f)
        dr = [c for c in f.calls_to("core::mem::drop")]
        wt = f.calls_to("std::process::Child::wait")
        tk = [c for c in f.calls() if c.path.endswith("Option::take")]
        if dr and wt and C.dominates(f, dr[0].bb, wt[0].bb) and tk and mentions_call(eb.operand(dr[0].args[0]), "core::option::Option::take"):
            r.ok("drop-before-wait", "the taken stdout is dropped before Child::wait (else a child blocked on write never exits)", fn=f)
        else:
            r.bad("drop-before-wait", "CommandReader::close waits for the child before closing its stdout: a child still writing "
                  "would block forever", fn=f, construct="drop-before-wait")
        # second close is a no-op
        if tk:
            s = seed_after_call(f, tk[0], V("None", None))
            vals = {x for v in s.ret_values.values() for x in value_set(v)}
            if vals == {V("Ok", None)} or all(v is not None and v[1] == "Ok" for v in vals) and vals:
                r.ok("idempotent", "stdout already taken ⇒ Ok(()) (second close is a no-op)", fn=f)
            else:
                r.bad("idempotent", "a second close() is not a no-op (%s)" % vals, fn=f, construct="idempotent")
        v, d = classify_result(f, wt[0]) if wt else ("missing", "")
        if v == "try":
            r.ok("wait-error", "an error of wait() is propagated", fn=f)
        else:
            r.bad("wait-error", "the result of Child::wait is %s" % v, fn=f, construct="wait")
        # value table: (child.stdout taken = Some, wait() = Ok) × success ∈ {0,1} × eof ∈ {0,1} × stderr empty ∈ {0,1}:
        # Ok ⇔ success ∨ (¬eof ∧ stderr empty); stderr is collected only after a failing status
        from ..flow import table, ret_set
        rte = f.calls_to("grep_cli::process::StderrReader::read_to_end")
        wrong, early_read = [], False
        for row, sx in table(facts, f, fields={(CR, "eof"): [I(0), I(1)]},
                             calls={"Option::take": [V("Some", None)], "Child::wait": [V("Ok", None)],
                                    "ExitStatus::success": [I(0), I(1)], "CommandError::is_empty": [I(0), I(1)]}):
            su, eof_, emp_ = row[("call", "ExitStatus::success")][1], row[("field", (CR, "eof"))][1], row[("call", "CommandError::is_empty")][1]
            want_ok = bool(su or (not eof_ and emp_))
            rv = ret_set(sx)
            is_ok = bool(rv) and all(v is not None and v[0] == "v" and v[1] == "Ok" for v in rv)
            is_err = bool(rv) and all(v is not None and v[0] == "v" and v[1] == "Err" for v in rv)
            if (want_ok and not is_ok) or (not want_ok and not is_err):
                wrong.append("success=%d eof=%d stderr-empty=%d ⇒ %s" % (su, eof_, emp_, sorted(map(str, rv))))
            if su and any(c.bb in sx.exec_blocks for c in rte):
                early_read = True
        if wrong:
            r.bad("status", "a failing exit status is accepted outside the 'stopped reading early and nothing on stderr' case (%s)"
                  % wrong[0], fn=f, construct="status")
        else:
            r.ok("status", "failing status ⇒ Err unless (!eof ∧ stderr empty) (8 rows)", fn=f)
        if rte and not early_read:
            r.ok("stderr-read", "stderr is collected only after a failing status", fn=f, nontrivial=False)
        else:
            r.bad("stderr-read", "stderr collection is not tied to a failing exit status", fn=f)
        g = facts.fn("<%s as std::io::Read>::read" % CR)
        ebg = ExprBuilder(g)
        cl = g.calls_to(CR + "::close")
        eofw = [bb for bb, j_, st in g.stmts() if st["k"] == "assign" and (CR, "eof") in fields_of_place(st["place"])
                and (op_const(st["rv"].get("a", {})) or {}).get("val") == 1]
        # value table: the child's stdout is there, the inner read answers Ok(0) / Ok(5)
        res, verdict = {}, {}
        for row, sx in table(facts, g, fields={("std::process::Child", "stdout"): [V("Some", None)]},
                             calls={"io::Read::read": [V("Ok", I(0)), V("Ok", I(5))], "Option::as_mut": [V("Some", None)],
                                    "CommandReader::close": [V("Ok", None), V("Err", None)]}):
            n_ = row[("call", "io::Read::read")][2][1]
            cv = row[("call", "CommandReader::close")][1]
            res[n_] = (any(c.bb in sx.exec_blocks for c in cl), any(b in sx.exec_blocks for b in eofw), ret_set(sx))
            if n_ == 0:
                verdict[cv] = ret_set(sx)
        returns_close = verdict.get("Ok") == {V("Ok", I(0))} and bool(verdict.get("Err")) and \
            all(v is not None and v[0] == "v" and v[1] == "Err" for v in verdict.get("Err", set()))
        if cl and res.get(0, (False,))[0] and res[0][1] and not res.get(5, (True,))[0] and not res[5][1] and \
                returns_close and res[5][2] == {V("Ok", I(5))}:
            r.ok("read-eof", "zero-length read ⇒ eof = true, close(), close's error returned; otherwise Ok(n)", fn=g)
            if all(C.dominates(g, bb_, cl[0].bb) for bb_ in eofw):
                r.ok("read-eof-order", "eof is set before close() evaluates it", fn=g)
            else:
                r.bad("read-eof-order", "close() runs before eof is recorded: a failing command after full output would be forgiven", fn=g,
                      construct="read-eof")
        elif cl and res.get(0, (False,))[0]:
            r.bad("read-eof", "at end of the child's output read() does not mark EOF and return close()'s verdict", fn=g, construct="read-eof")
        else:
            r.bad("read-eof", "read() does not close the child when its output ends", fn=g, construct="read-eof")
        d = facts.fn("<%s as core::ops::drop::Drop>::drop" % CR)
        if d.calls_to(CR + "::close"):
            r.ok("drop", "Drop closes (reaps) the child", fn=d)
        else:
            r.bad("drop", "dropping a CommandReader no longer reaps the child", fn=d, construct="drop")

    with ctx.rule("C18.INIT", "a new CommandReader has not seen the end of its child's output", floor=1, kind="WIRE") as r:
        g = facts.fn(CRB + "::build")
        ebg = ExprBuilder(g)
        aggs = [st for bb, j, st in g.stmts() if st["k"] == "assign" and st["rv"]["k"] == "agg" and
                str(st["rv"].get("adt", "")).endswith("process::CommandReader")]
        vals = []
        for st in aggs:
            rv = st["rv"]
            if "eof" in rv.get("fields", []):
                vals.append(W.const_val(ebg.operand(rv["ops"][rv["fields"].index("eof")])))
        if vals and all(v_ == 0 for v_ in vals):
            r.ok("eof|init", "CommandReader { eof: false, .. }", fn=g)
        else:
            r.bad("eof|init", "CommandReaderBuilder::build creates the reader with eof = %s: read() answers end-of-file before reading, "
                  "the child's output is never searched (and its failure never reported)" % vals, fn=g, construct="eof")
    with ctx.rule("C18.STDERR", "asynchronous stderr wired on; both pipes configured; stderr drained to EOF", floor=5, kind="WIRE") as r:
        f = facts.fn("rg::search::SearchWorkerBuilder::new")
        eb = ExprBuilder(f)
        for callee, label in ((CRB + "::async_stderr", "preprocessor"), (DRB + "::async_stderr", "decompressor")):
            cs = f.calls_to(callee)
            if len(cs) == 1 and W.const_val(eb.operand(cs[0].args[1])) == 1:
                r.ok("worker|" + label, "%s builder: async_stderr(true)" % label, fn=f)
            else:
                r.bad("worker|" + label, "the %s reader does not drain stderr asynchronously: a chatty command can dead-lock the search" % label,
                      fn=f, construct="async_stderr")
        # the configured builders are the ones stored
        agg = [st for bb, j, st in f.stmts() if st["k"] == "assign" and st["rv"]["k"] == "agg" and st["rv"].get("adt") == "rg::search::SearchWorkerBuilder"]
        if agg:
            rv = agg[0]["rv"]
            oka = True
            for fld, callee in (("command_builder", CRB + "::async_stderr"), ("decomp_builder", DRB + "::async_stderr")):
                src = eb.operand(rv["ops"][rv["fields"].index(fld)])
                loc_ = {x[1] for x in walk(src) if x.k in ("phi", "local")}
                tgt = {x[1] for c in f.calls_to(callee) for x in walk(eb.operand(c.args[0])) if x.k in ("phi", "local")}
                if not (loc_ & tgt):
                    oka = False
            if oka:
                r.ok("worker|stored", "the configured builders are the ones stored in the worker builder", fn=f)
            else:
                r.bad("worker|stored", "async_stderr is set on a builder that is not the one stored", fn=f, construct="stored")
        g = facts.fn(CRB + "::build")
        ebg = ExprBuilder(g)
        so = [c for c in g.calls() if c.path.endswith("Command::stdout")]
        se = [c for c in g.calls() if c.path.endswith("Command::stderr")]
        piped = [c for c in g.calls() if c.path.endswith("Stdio::piped")]
        # value table over self.async_stderr: which kind of stderr reader is built (by a constructor or in place)
        SR = "grep_cli::process::StderrReader"

        def builds(fn_, variant, blocks=None):
            return any(st["k"] == "assign" and st["rv"]["k"] == "agg" and st["rv"].get("adt") == SR and st["rv"].get("variant") == variant
                       for bb_, j_, st in fn_.stmts() if blocks is None or bb_ in blocks)

        def built(flag):
            sx = Sccp(g, field_model=lambda o_, n_: I(flag) if (o_ == CRB and n_ == "async_stderr") else None).run([(0, {})])
            out = set()
            for v_ in ("Async", "Sync"):
                if builds(g, v_, sx.exec_blocks) or any(c.bb in sx.exec_blocks and c.path.startswith(SR + "::") and c.path in facts.fns and
                                                        builds(facts.fns[c.path], v_) for c in g.calls()):
                    out.add(v_)
            return out
        if so and se and len(piped) >= 2 and built(1) == {"Async"} and built(0) == {"Sync"}:
            r.ok("builder", "stdout and stderr piped; async reader iff async_stderr", fn=g)
        else:
            r.bad("builder", "CommandReaderBuilder::build does not pipe both streams / select the stderr reader by the flag", fn=g,
                  construct="builder")
        # the stderr pipe is drained to its end: a reader that stops early closes the pipe under a child that is still
        # writing (SIGPIPE / EPIPE kills an otherwise successful preprocessor and the file's results are lost)
        k = facts.fn("grep_cli::process::stderr_to_command_error")
        ebk = ExprBuilder(k)
        rte = k.calls_to("std::io::Read::read_to_end")
        capped = [c for c in k.calls() if c.path.split("::")[-1] in ("take", "read_exact", "read") and c.path.startswith("std::io::")]
        if rte and not capped and not any(is_call(x, "std::io::Read::take") for c in rte for x in walk(ebk.operand(c.args[0]))):
            r.ok("drain", "stderr_to_command_error reads the child's stderr to EOF", fn=k)
        else:
            r.bad("drain", "stderr_to_command_error stops reading the child's stderr before EOF (%s): dropping the pipe kills a "
                  "child that is still writing, although it would have succeeded" % (capped[0].path.split("::")[-1] if capped else
                                                                                     "no read_to_end"), fn=k, construct="stderr-drain")
        h = facts.fn(DRB + "::async_stderr")
        if h.calls_to(CRB + "::async_stderr"):
            r.ok("zip|forward", "DecompressionReaderBuilder::async_stderr forwards to its command builder", fn=h)
        else:
            r.bad("zip|forward", "the decompression builder drops the async_stderr setting", fn=h, construct="forward")

    with ctx.rule("C18.SELECT", "stdin → pre → zip → path; selection predicates (truth tables)", floor=6, exhaustive=True,
                  kind="TABLE/TRUTH") as r:
        f = facts.fn(SW + "::search")
        f, targets, rows = worker_select_rows(facts)
        bad = None
        for bits, ran in rows:
            want = "search_reader" if bits[0] else ("search_preprocessor" if bits[1] else ("search_decompress" if bits[2] else "search_path"))
            if ran != [want]:
                bad = ("stdin=%d pre=%d zip=%d" % bits, "/".join(ran) or "nothing", want)
        if not all(targets.values()):
            r.bad("order|atoms", "anchor-missing: SearchWorker::search no longer calls %s" % sorted(n for n, c in targets.items() if not c), fn=f)
        elif bad:
            r.bad("order", "for %s the worker runs `%s`, specified %s" % bad, fn=f, construct="order")
        else:
            r.ok("order", "stdin → search_reader; else --pre; else -z; else the path (8 rows)", fn=f)
        from ..flow import table, ret_set
        CFG_ = "rg::search::Config"
        g = facts.fn(SW + "::should_preprocess")
        bad = None
        for row, sx in table(facts, g, fields={(CFG_, "preprocessor"): [V("Some", None), V("None", None)]},
                             calls={"Override::is_empty": [I(0), I(1)], "Match::is_ignore": [I(0), I(1)]}):
            pre = row[("field", (CFG_, "preprocessor"))][1] == "Some"
            emp, ign = row[("call", "Override::is_empty")][1], row[("call", "Match::is_ignore")][1]
            spec = pre and (bool(emp) or not ign)
            if ret_set(sx) != {I(int(spec))}:
                bad = "preprocessor=%s globs-empty=%d ignored=%d ⇒ %s" % (pre, emp, ign, sorted(map(str, ret_set(sx))))
        if bad:
            r.bad("should_preprocess", "should_preprocess differs from pre.is_some() ∧ (globs empty ∨ ¬ignored) at %s" % bad, fn=g,
                  construct="should_preprocess")
        else:
            r.ok("should_preprocess", "≡ pre.is_some() ∧ (globs empty ∨ ¬ignored) (8 rows)", fn=g)
        h = facts.fn(SW + "::should_decompress")
        bad = None
        for row, sx in table(facts, h, fields={(CFG_, "search_zip"): [I(0), I(1)]}, calls={"DecompressionMatcher::has_command": [I(0), I(1)]}):
            z, hc = row[("field", (CFG_, "search_zip"))][1], row[("call", "DecompressionMatcher::has_command")][1]
            if ret_set(sx) != {I(int(z and hc))}:
                bad = "search_zip=%d has_command=%d ⇒ %s" % (z, hc, sorted(map(str, ret_set(sx))))
        if bad:
            r.bad("should_decompress", "should_decompress differs from search_zip ∧ has_command at %s" % bad, fn=h, construct="should_decompress")
        else:
            r.ok("should_decompress", "≡ search_zip ∧ has_command(path) (4 rows)", fn=h)
        # CLI wiring
        k = facts.fn("rg::flags::hiargs::HiArgs::search_worker")
        ebk = ExprBuilder(k)
        SWB = "rg::search::SearchWorkerBuilder"
        HI = "rg::flags::hiargs::HiArgs"
        for m, fld in (("preprocessor", "pre"), ("preprocessor_globs", "pre_globs"), ("search_zip", "search_zip")):
            cs = k.calls_to(SWB + "::" + m)
            if len(cs) == 1 and mentions_field(ebk.operand(cs[0].args[1]), HI, fld):
                r.ok("wire|" + m, "%s(self.%s)" % (m, fld), fn=k)
            else:
                r.bad("wire|" + m, "SearchWorkerBuilder::%s is not wired to self.%s" % (m, fld), fn=k, construct=m)

    with ctx.rule("C18.PATH", "results are attributed to the original path; the command receives it as data", floor=5, kind="FLOW") as r:
        for name in ("search_preprocessor", "search_decompress"):
            f = facts.fn(SW + "::" + name)
            eb = ExprBuilder(f)
            sr = f.calls_to(SW + "::search_reader")
            if sr and any(x.k == "arg" and x[2] == "path" for x in walk(eb.operand(sr[0].args[1]))):
                r.ok(name, "search_reader(path, ..) with the caller's path", fn=f)
            else:
                r.bad(name, "%s attributes results to something other than the original path" % name, fn=f, construct="path")
        f = facts.fn(SW + "::search_preprocessor")
        eb = ExprBuilder(f)
        args = [c for c in f.calls() if c.path.endswith("Command::arg")]
        stdin = [c for c in f.calls() if c.path.endswith("Command::stdin")]
        if args and any(x.k == "arg" and x[2] == "path" for x in walk(eb.operand(args[0].args[1]))) and stdin:
            r.ok("pre|argv", "the preprocessor receives the path as argument and the file on stdin", fn=f)
        else:
            r.bad("pre|argv", "the preprocessor is not given the file path / stdin", fn=f, construct="argv")
        # the path is data, not an option: handed over as it is only if it cannot start with `-` (Haystack::path strips the
        # leading "./" of entries found by the walk, so `-k.gz` would otherwise reach gzip as an option)
        for g_, label in ((facts.fn(SW + "::search_preprocessor"), "pre"), (facts.fn(DRB + "::build"), "zip")):
            ebg_ = ExprBuilder(g_)
            raw = [c for c in g_.calls() if c.path.endswith("Command::arg") and
                   any(x.k == "arg" and x[2] == "path" for x in walk(ebg_.operand(c.args[1]))) and
                   not mentions_call(ebg_.operand(c.args[1]), "std::path::Path::join")]
            dash = cond_switches(g_, lambda e: any(x.k == "call" and x[1].endswith("starts_with") for x in walk(e)) and
                                 any(x.k == "const" and (x[1] == 45 or "'-'" in str(x[2])) for x in walk(e)), ebg_)
            if raw and dash and not any(c.bb in C.reach(g_, [d_[1][1]]) for c in raw for d_ in dash):
                r.ok(label + "|dash", "the raw path is an argument only when it does not start with `-` (otherwise ./ is put in front)", fn=g_)
            elif raw:
                r.bad(label + "|dash", "%s passes the file's path to the command unguarded: a file whose name starts with `-`, found by "
                      "an implicit-path search (leading ./ stripped), is parsed as an option and the file is reported as failed"
                      % g_.path, fn=g_, loc=raw[0].loc, construct="dash-path")
            else:
                r.ok(label + "|dash", "the path is never handed over raw", fn=g_, nontrivial=False)
