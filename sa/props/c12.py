"""C12 — a glob set answers like its member globs (dispatch, sibling parity, case guards)."""
from .. import cfg as C
from .. import hirx as H
from ..flow import ExprBuilder, mentions_field, mentions_call, is_call, is_field, walk, show, cond_switches, \
    guarded, seed_after_call, Sccp, I, V, X, strip, value_set
from ..graph import field_rw, discr_switches
from ..facts import op_const, op_place, fields_of_place
from .. import wire as W

TITLE = "glob set dispatch and parity"
EXPLANATION = (
    "Structural necessary conditions of C12 on the MIR of crate globset: (DISPATCH) in GlobSet::new every "
    "MatchStrategy variant has an arm that registers the glob under its enumeration index in a strategy table, every "
    "table flows into the returned set under the matching GlobSetMatchStrategy variant, and the two dispatchers "
    "forward each variant to the payload's same-named method (14 arms); (SIBLINGS) for each of the seven strategies "
    "is_match and matches_into read the same Candidate pieces under the same emptiness guard and anchoring test, and "
    "both set-level entry points iterate all strategies; (CASE) every literal-strategy extractor returns Some only on "
    "the not-case-insensitive edge and skips `*`/`?` only on the right literal_separator edge; (LITCHAR) ext, required_ext and basename_tokens send a literal '/' (ext also a second '.') to None on every path, because their strategies compare against a piece of the basename; (MERGE) indices are "
    "sorted and de-duplicated after the strategy loop (the ascending-index contract gitignore relies on); (REGEX) the "
    "glob-to-regex translation has an arm for every token and picks the [^/] forms exactly under literal_separator. "
    "(BASENAME) pathutil::file_name answers None only for an empty path or after locating the final component (the trailing-'.' defect named by the property was exactly a decision from the last byte alone). Per-strategy semantic equivalence with the regex is value-level and not decided.")
NOT_DECIDED = ["per-strategy semantic equivalence with the regex translation", "single-glob meaning",
]

G = "globset"
GS = G + "::GlobSet"
GSM = G + "::GlobSetMatchStrategy"
MS = G + "::glob::MatchStrategy"
CAND = G + "::Candidate"
GLOB = G + "::glob::Glob"
GOPT = G + "::glob::GlobOptions"
STRATS = {"Literal": "LiteralStrategy", "BasenameLiteral": "BasenameLiteralStrategy", "Extension": "ExtensionStrategy",
          "Prefix": "PrefixStrategy", "Suffix": "SuffixStrategy", "RequiredExtension": "RequiredExtensionStrategy",
          "Regex": "RegexSetStrategy"}


def locals_in(e):
    return {x[1] for x in walk(e) if x.k in ("phi", "local")}


def basename_rule(ctx, r, fnpath=None, key="basename", candidate=True):
    """Candidate's basename: pathutil::file_name may answer None (no basename ⇒ every basename-scoped strategy stays
    silent while the glob's regex still sees the '.' as a literal) only for an empty path, or after it has located the
    final component. Deciding from the last byte alone drops every name that merely ends in '.'."""
    facts = ctx.facts
    f = facts.fn(fnpath or (G + "::pathutil::file_name"))
    eb = ExprBuilder(f)
    nones = [bb for bb, j, st in f.stmts() if st["k"] == "assign" and st["place"]["l"] == 0 and not st["place"]["p"] and
             st["rv"]["k"] == "agg" and st["rv"].get("variant") == "None"]
    seps = [c for c in f.calls() if c.path.split("::")[-1] in ("rfind_byte", "rfind", "memrchr", "rsplit", "rsplitn", "rsplit_once",
                                                                "rfind_char", "rposition")]

    def emptiness(e):
        if is_call(e, "[T]::is_empty", "alloc::vec::Vec::is_empty", "str::is_empty", "core::option::Option::is_none"):
            return not any(x.k == "closure" for x in walk(e))
        return e.k == "bin" and e[1] == "Eq" and any(x.k == "len" or is_call(x, "[T]::len") for x in walk(e)) and \
            any(W.const_val(a) == 0 for a in (e[2], e[3]))
    emp = cond_switches(f, emptiness, eb)
    if not nones:
        r.ok(key + "|none", "file_name never answers None", fn=f)
        return
    verdicts = []
    for nb in nones:
        if emp and not guarded(f, [nb], emp, True):
            verdicts.append("empty")
        elif any(C.dominates(f, c.bb, nb) for c in seps):
            verdicts.append("located")
        else:
            verdicts.append(None)
    if None in verdicts:
        r.bad(key + "|none", "%s answers None without locating the final component (it looks at the last byte(s) only): a "
              "path whose name merely ends in '.' gets no file name%s" % (f.path, ", so the basename-literal, extension and "
              "required-extension strategies of a set stay silent where the member glob matches" if candidate else
              ": is_hidden answers false for '.x.' and file-type globs never see the name"), fn=f, construct="file_name")
    else:
        r.ok(key + "|none", "None only for an empty path or after the final component was located (%s)" % ", ".join(verdicts), fn=f)
    if not candidate:
        return
    # ... and the basename is the suffix of the *whole* path after its last '/': whatever the full-path strategies and the
    # regex see after the last separator (including nothing at all for a path ending in '/')
    whole = [c for c in seps if not any(is_call(x, "core::ops::index::Index::index", "[T]::get", "[T]::strip_suffix", "[T]::split_at",
                                                  "[T]::split_last") for x in walk(eb.operand(c.args[0])))]
    idx = [c for c in f.calls() if c.path == "core::ops::index::Index::index"]
    open_ended = [c for c in idx if any(x.k == "agg" and x[1].endswith("RangeFrom") for x in walk(eb.operand(c.args[1])))]
    bounded = [c for c in idx if any(x.k == "agg" and x[1].split("::")[-1] in ("Range", "RangeTo", "RangeInclusive", "RangeToInclusive")
                                     for x in walk(eb.operand(c.args[1])))]
    trunc = [c for c in f.calls() if c.path.split("::")[-1] in ("truncate", "pop", "strip_suffix", "trim_end_with", "split_last")]
    if seps and len(whole) == len(seps) and open_ended and not bounded and not trunc:
        r.ok(key + "|suffix", "basename = path[last '/' + 1 ..] of the whole path", fn=f)
    else:
        r.bad(key + "|suffix", "pathutil::file_name does not return the suffix of the whole path after its last '/' (it searches or "
              "cuts a shortened path): for such paths the basename-scoped strategies of a set see another name than the "
              "full-path strategies and the member globs", fn=f, construct="file_name")
    cn = facts.fn(CAND + "::new")
    if cn.calls_to(G + "::pathutil::file_name"):
        r.ok("basename|candidate", "Candidate::new takes its basename from pathutil::file_name", fn=cn, nontrivial=False)
    else:
        r.bad("basename|candidate", "Candidate::new no longer derives the basename with pathutil::file_name", fn=cn)


def run(ctx):
    facts = ctx.facts
    with ctx.rule("C12.DISPATCH", "every glob index lands in a strategy table, every table in the set; dispatchers forward 1:1",
                  floor=28, kind="ARMS/FLOW") as r:
        f = facts.fn(GS + "::new")
        eb = ExprBuilder(f)
        sw = [s for s in discr_switches(f, MS)]
        if len(sw) != 1:
            r.bad("new|switch", "anchor-missing: GlobSet::new must match once on MatchStrategy", fn=f)
        else:
            bb, adt, place, arms, ow, ow_live, missing = sw[0]
            variants = facts.variants(MS)
            hdrs = {h for _, h in C.back_edges(f)}
            arm_local = {}
            for v in variants:
                key = "new|arm|" + v
                if v not in arms:
                    r.bad(key, "MatchStrategy::%s has no explicit arm in GlobSet::new" % v, fn=f, construct=v)
                    continue
                region = C.reach(f, [arms[v]], stop_blocks=hdrs)
                adds = [c for c in f.calls() if c.bb in region and c.path.endswith("::add") and c.path.startswith(G)]
                if not adds:
                    r.bad(key, "the %s arm registers the glob in no strategy table: the glob would never match" % v, fn=f, construct=v)
                    continue
                ok = True
                for c in adds:
                    idx = eb.operand(c.args[1])
                    if not (mentions_call(idx, "core::iter::traits::iterator::Iterator::next") and
                            any(x.k == "field" and x[2] == "(tuple)" and x[3] == "0" for x in walk(idx))):
                        ok = False
                        r.bad(key, "the %s arm registers index `%s`, not the glob's enumeration index" % (v, show(idx)[:60]), fn=f,
                              loc=c.loc, construct=v)
                if ok:
                    # the receiver table of the (last) add that is not the shared component-literal add
                    main = adds[-1]
                    ls = locals_in(eb.operand(main.args[0]))
                    arm_local[v] = ls
                    r.ok(key, "%s ⇒ %s(i, ..)" % (v, main.path.split("::")[-2]), fn=f)
            if ow_live and missing:
                r.bad("new|wildcard", "GlobSet::new has a wildcard arm covering %s" % missing, fn=f)
            # tables flow into the set
            aggs = [(bb_, st) for bb_, j, st in f.stmts() if st["k"] == "assign" and st["rv"]["k"] == "agg" and st["rv"].get("adt") == GSM]
            byvar = {}
            for bb_, st in aggs:
                byvar[st["rv"]["variant"]] = locals_in(eb.operand(st["rv"]["ops"][0]))
            for v in variants:
                key = "new|set|" + v
                if v not in byvar:
                    r.bad(key, "the %s table is built but never placed into the set" % v, fn=f, construct=v)
                elif v in arm_local and not (arm_local[v] & byvar[v]):
                    r.bad(key, "GlobSetMatchStrategy::%s is built from a different table than the one the %s arm fills" % (v, v),
                          fn=f, construct=v)
                else:
                    r.ok(key, "table of %s flows into GlobSetMatchStrategy::%s" % (v, v), fn=f)
            arr = [st for bb_, j, st in f.stmts() if st["k"] == "assign" and st["rv"]["k"] == "agg" and st["rv"].get("array")
                   and len(st["rv"]["ops"]) == len(variants)]
            if arr:
                r.ok("new|strats", "strats holds %d strategies" % len(variants), fn=f)
            else:
                r.bad("new|strats", "the returned set does not hold all %d strategies" % len(variants), fn=f)
        for m in ("is_match", "matches_into"):
            g = facts.fn(GSM + "::" + m)
            ebg = ExprBuilder(g)
            sws = [s for s in discr_switches(g, GSM)]
            if len(sws) != 1:
                r.bad("forward|%s" % m, "anchor-missing: GlobSetMatchStrategy::%s must match on self" % m, fn=g)
                continue
            bb, adt, place, arms, ow, ow_live, missing = sws[0]
            for v, sty in STRATS.items():
                key = "forward|%s|%s" % (m, v)
                if v not in arms:
                    r.bad(key, "no arm for %s" % v, fn=g, construct=v)
                    continue
                region = C.reach(g, [arms[v]])
                cs = [c for c in g.calls() if c.bb in region and c.path == "%s::%s::%s" % (G, sty, m)]
                others = [c for c in g.calls() if c.bb in C.reach(g, [arms[v]], stop_blocks=set(g.return_blocks()))
                          and c.path.startswith(G) and c.path.endswith("::" + m) and c.path != "%s::%s::%s" % (G, sty, m)]
                # region is per-arm only up to the join; restrict to blocks not shared with other arms
                shared = set()
                for v2, t2 in arms.items():
                    if v2 != v:
                        shared |= C.reach(g, [t2])
                own = [c for c in cs if c.bb not in shared]
                if own and any(x.k == "dc" and x[2] == v for x in walk(ebg.operand(own[0].args[0]))):
                    r.ok(key, "%s ⇒ %s::%s(payload)" % (v, sty, m), fn=g)
                else:
                    r.bad(key, "GlobSetMatchStrategy::%s: the %s arm does not forward to %s::%s" % (m, v, sty, m), fn=g, construct=v)

    with ctx.rule("C12.SIBLINGS", "is_match and matches_into agree per strategy; both set entry points scan all strategies",
                  floor=18, kind="PARITY") as r:
        for v, sty in STRATS.items():
            a = facts.fn("%s::%s::is_match" % (G, sty))
            b = facts.fn("%s::%s::matches_into" % (G, sty))
            fa, fb = features(a, facts), features(b, facts)
            if fa == fb and fa:
                r.ok(sty, "both use %s" % sorted(fa), fn=a)
            else:
                r.bad(sty, "%s::is_match uses %s but matches_into uses %s" % (sty, sorted(fa - fb), sorted(fb - fa)), fn=b,
                      construct=sty)
            # value side of the parity: the emptiness guard of is_match answers false, and matches_into does hand out an index
            eba = ExprBuilder(a)
            emp = cond_switches(a, lambda e: (is_call(e, "alloc::borrow::Cow::is_empty") or (e.k == "call" and e[1].endswith("::is_empty")))
                                and any(x.k == "field" and x[2] == CAND for x in walk(e)), eba)
            if emp:
                s1 = Sccp(a).run([(emp[0][1][1], {})])
                v1 = {x for v_ in s1.ret_values.values() for x in value_set(v_)}
                if v1 == {I(0)}:
                    r.ok(sty + "|empty", "nothing to compare ⇒ is_match answers false", fn=a)
                else:
                    r.bad(sty + "|empty", "%s::is_match answers %s when the candidate has no basename / extension: the set would "
                          "match every such path" % (sty, sorted(map(str, v1))), fn=a, construct=sty)
            adds = [c for c in b.calls() if c.path.split("::")[-1] in ("push", "extend", "extend_from_slice", "extend_desugared", "insert")
                    and "Vec" in c.path or c.path.endswith("iter::traits::collect::Extend::extend")]
            deep = adds or [c for g_ in facts.closures_of(b.path) for c in g_.calls() if c.path.split("::")[-1] in ("push", "extend", "extend_from_slice")]
            if deep:
                r.ok(sty + "|push", "matches_into hands out the indices it found", fn=b, nontrivial=False)
            else:
                r.bad(sty + "|push", "%s::matches_into never adds an index to the output: globs of this strategy vanish from "
                      "GlobSet::matches while is_match still sees them" % sty, fn=b, construct=sty)
        for m, callee in (("is_match_candidate", "is_match"), ("matches_candidate_into", "matches_into")):
            f = facts.fn(GS + "::" + m)
            eb = ExprBuilder(f)
            cs = f.calls_to(GSM + "::" + callee)
            # or the iterator spelling: self.strats.iter().any(|s| s.is_match(..)) / .for_each(|s| s.matches_into(..))
            adapters = [c for c in f.calls() if c.path in ("core::iter::traits::iterator::Iterator::any", "core::iter::traits::iterator::Iterator::for_each")
                        and mentions_field(eb.operand(c.args[0]), GS, "strats")
                        and not any(is_call(x, *("core::iter::traits::iterator::Iterator::" + a_ for a_ in
                                                 ("take", "skip", "step_by", "filter", "take_while", "skip_while"))) for x in walk(eb.operand(c.args[0])))
                        and any(x.k == "closure" and x[1] in facts.fns and facts.fns[x[1]].calls_to(GSM + "::" + callee)
                                for x in walk(eb.operand(c.args[1])))]
            if len(cs) == 1 and cs[0].bb in C.reach_after(f, cs[0].bb) and \
                    mentions_field(eb.operand(cs[0].args[0]), GS, "strats"):
                r.ok(m, "loops over self.strats calling %s" % callee, fn=f)
            elif not cs and len(adapters) == 1:
                r.ok(m, "self.strats.iter().%s(|s| s.%s(..))" % (adapters[0].path.split("::")[-1], callee), fn=f)
            else:
                r.bad(m, "GlobSet::%s does not consult every strategy" % m, fn=f, construct=m)
        f = facts.fn(GS + "::is_match_candidate")
        cs = f.calls_to(GSM + "::is_match")
        eb_ = ExprBuilder(f)
        anyc = [c for c in f.calls() if c.path == "core::iter::traits::iterator::Iterator::any" and mentions_field(eb_.operand(c.args[0]), GS, "strats")]
        if not cs and anyc and mentions_call(eb_.local(0), "core::iter::traits::iterator::Iterator::any"):
            r.ok("is_match_candidate|any", "Iterator::any over the strategies is the answer", fn=f)
        elif cs:
            s = seed_after_call(f, cs[0], I(1))
            vals = {x for v_ in s.ret_values.values() for x in value_set(v_)}
            s0 = seed_after_call(f, cs[0], I(0), stop_blocks={h for _, h in C.back_edges(f)})
            rets0 = [b for b in s0.exec_blocks if f.blocks[b]["term"]["k"] == "return"]
            if vals == {I(1)} and not rets0:
                r.ok("is_match_candidate|any", "true on the first hit, keeps scanning on a miss", fn=f)
            else:
                r.bad("is_match_candidate|any", "GlobSet::is_match_candidate is not 'any strategy matches'", fn=f)

    with ctx.rule("C12.CASE", "literal strategies only for case-sensitive globs; wildcard skipping only on the right separator edge",
                  floor=10, kind="GUARD/A3") as r:
        EXTRACTORS = ["literal", "ext", "required_ext", "prefix", "suffix", "basename_tokens"]
        for m in EXTRACTORS:
            f = facts.fn(GLOB + "::" + m)
            eb = ExprBuilder(f)
            # by value: with opts.case_insensitive set the extractor answers None, whatever it is built from
            from ..flow import table as _table, ret_set as _ret_set
            got = set()
            for row, sx in _table(facts, f, fields={(GOPT, "case_insensitive"): [I(1)]}):
                got = _ret_set(sx)
            reads = '"case_insensitive"' in __import__("json").dumps(f.mir)
            if reads and got == {V("None", None)}:
                r.ok("case|" + m, "case_insensitive ⇒ None", fn=f)
            else:
                r.bad("case|" + m, "Glob::%s can produce a literal strategy for a case-insensitive glob" % m, fn=f, construct=m)
        bl = facts.fn(GLOB + "::basename_literal")
        bt = bl.calls_to(GLOB + "::basename_tokens")
        if bt:
            got = set()
            for row, sx in _table(facts, bl, calls={"Glob::basename_tokens": [V("None", None)]}):
                got = _ret_set(sx)
            if got == {V("None", None)}:
                r.ok("case|basename_literal", "basename_literal only through basename_tokens()?", fn=bl)
            else:
                r.bad("case|basename_literal", "basename_literal ignores basename_tokens() == None", fn=bl)
        else:
            r.bad("case|basename_literal", "basename_literal does not go through basename_tokens", fn=bl, construct="basename_literal")
        for m, pol in (("ext", True), ("prefix", True), ("suffix", True), ("basename_tokens", False)):
            f = facts.fn(GLOB + "::" + m)
            eb = ExprBuilder(f)
            sw = cond_switches(f, lambda e: W.field_of(e, GOPT, "literal_separator"), eb)
            key = "sep|" + m
            if not sw:
                # the iterator spelling: `tokens.iter().all(|t| match t { Any | ZeroOrMore => literal_separator, .. })`
                ac = all_closure(facts, f)
                bad_edge = I(1) if pol else I(0)
                if ac is not None and ac[1] == {V("None", None)} and \
                        all(closure_verdict(facts, ac[0], V(tk_), {(GOPT, "literal_separator"): bad_edge}) == {I(0)} for tk_ in ("Any", "ZeroOrMore")):
                    r.ok(key, "%sliteral_separator ⇒ None (a `*`/`?` may not be skipped)" % ("" if pol else "!"), fn=f)
                else:
                    r.bad(key, "Glob::%s skips a wildcard token without consulting literal_separator" % m, fn=f, construct=m)
                continue
            good = False
            for bb, te, fe, e in sw:
                edge = te if pol else fe
                s = Sccp(f).run([(edge[1], {})])
                vals = {x for v_ in s.ret_values.values() for x in value_set(v_)}
                if vals == {V("None", None)}:
                    good = True
            if good:
                r.ok(key, "%sliteral_separator ⇒ None (a `*`/`?` may not be skipped)" % ("" if pol else "!"), fn=f)
            else:
                r.bad(key, "Glob::%s: the literal_separator test no longer rejects the wildcard on the %s edge" % (m, pol), fn=f,
                      construct=m)
        ms = facts.fn(MS + "::new")
        # the Glob accessors in the order in which they are tried: calls of the function itself and, for a lazy
        # `a().or_else(|| b()).or_else(|| c())` chain, the calls of each closure at the place where the closure is created
        order = []
        clos = {g_.path: g_ for g_ in facts.closures_of(ms.path)}

        def glob_calls(g_, depth=0):
            out = []
            events = []
            for bb_, b_ in enumerate(g_.blocks):
                if b_["cleanup"]:
                    continue
                for st_ in b_["stmts"]:
                    if st_["k"] == "assign" and st_["rv"]["k"] == "agg" and st_["rv"].get("closure") in clos and depth < 3:
                        events.append((bb_, "clo", st_["rv"]["closure"]))
                t_ = b_["term"]
                if t_["k"] == "call" and t_["func"]["path"].startswith(GLOB + "::"):
                    events.append((bb_, "call", t_["func"]["path"].split("::")[-1]))
            for bb_, kind, what in sorted(events, key=lambda e_: e_[0]):
                if kind == "call":
                    out.append(what)
                else:
                    out += glob_calls(clos[what], depth + 1)
            return out
        order = glob_calls(ms)
        want = ["basename_literal", "literal", "ext", "prefix", "suffix", "required_ext"]
        if order == want:
            r.ok("strategy-order", "MatchStrategy::new tries %s" % want, fn=ms, nontrivial=False)
        else:
            r.bad("strategy-order", "MatchStrategy::new consults %s (confirmed set: %s)" % (order, want), fn=ms)

    with ctx.rule("C12.LITCHAR", "basename-scoped literal strategies never absorb a '/' (and ext never a second '.')", floor=4,
                  kind="GUARD") as r:
        # The Extension / RequiredExtension / Basename* strategies compare against a piece cut out of the candidate's
        # basename, which cannot contain '/': a glob whose literal part contains '/' must fall through to the regex.
        def is_lit_char(e):
            e = strip(e)
            return isinstance(e, X) and e.k == "field" and any(x.k == "dc" and x[2] == "Literal" for x in walk(e))

        def char_tests(f, eb, ch):
            """[(test_bb, reject_edge)] for tests of a Token::Literal payload against the character ch."""
            out = []
            for i, b in enumerate(f.blocks):
                t = b["term"]
                if b["cleanup"] or t["k"] != "switch":
                    continue
                if t["ty"] == "char" and is_lit_char(eb.operand(t["op"])):
                    for v_, tgt in t["targets"]:
                        if v_ == ord(ch):
                            out.append((i, (i, tgt)))
                elif t["ty"] == "bool":
                    bs = C.bool_switch(f, i)
                    e = eb.operand(bs[0])
                    neg = False
                    while isinstance(e, X) and e.k == "not":
                        e, neg = e[1], not neg
                    if isinstance(e, X) and e.k == "bin" and e[1] in ("Eq", "Ne") and \
                            any(is_lit_char(a) for a in (e[2], e[3])) and any(W.const_val(a) == ord(ch) for a in (e[2], e[3])):
                        eq_true = (e[1] == "Eq") != neg
                        out.append((i, (i, bs[1] if eq_true else bs[2])))
            return out

        for m, chars in (("ext", "./"), ("required_ext", "/"), ("basename_tokens", "/")):
            f = facts.fn(GLOB + "::" + m)
            eb = ExprBuilder(f)
            hdrs = {h for _, h in C.back_edges(f)}
            somes = {bb for bb, j, st in f.stmts() if st["k"] == "assign" and st["place"]["l"] == 0 and not st["place"]["p"]
                     and st["rv"]["k"] == "agg" and st["rv"].get("variant") == "Some"}
            lit_arms = [arms["Literal"] for bb, adt, place, arms, ow, ow_live, missing in discr_switches(f, G + "::glob::Token")
                        if "Literal" in arms and any(bb in C.reach(f, [h]) for h in hdrs) and
                        any(h in C.reach(f, [bb]) for h in hdrs)]
            if not lit_arms:
                # the iterator spelling: the per-token predicate of `.all(..)` says no to Literal(ch), and no means None
                ac = all_closure(facts, f)
                if ac is not None and ac[1] == {V("None", None)}:
                    r.ok(m + "|loop", "per-token predicate handed to Iterator::all; a token it rejects ⇒ None", fn=f)
                    for ch in chars:
                        key = "%s|%s" % (m, {".": "dot", "/": "slash"}[ch])
                        if closure_verdict(facts, ac[0], V("Literal", I(ord(ch)))) == {I(0)} and \
                                closure_verdict(facts, ac[0], V("Literal", I(ord("a")))) == {I(1)}:
                            r.ok(key, "a literal %r is rejected (and other literals are not)" % ch, fn=f)
                        else:
                            r.bad(key, "Glob::%s accepts a literal %r into its basename-scoped literal: the set strategy compares it with a "
                                  "piece of the basename and can never match, while the glob alone still matches" % (m, ch), fn=f, construct=m)
                    continue
                r.bad(m + "|loop", "anchor-missing: Glob::%s has no per-token match with a Literal arm inside its loop" % m, fn=f)
                continue
            for ch in chars:
                key = "%s|%s" % (m, {".": "dot", "/": "slash"}[ch])
                tests = char_tests(f, eb, ch)
                in_loop = [(tb, e) for tb, e in tests if any(tb in C.reach(f, [a]) for a in lit_arms)]
                if not in_loop:
                    r.bad(key, "Glob::%s accepts a literal %r into its basename-scoped literal: the set strategy compares it with a "
                          "piece of the basename and can never match, while the glob alone still matches" % (m, ch), fn=f, construct=m)
                    continue
                tbs = {tb for tb, e in in_loop}
                leak = False
                for a in lit_arms:
                    if a in tbs:
                        continue
                    rr = C.reach(f, [a], stop_blocks=tbs)
                    if (rr - tbs) & (hdrs | somes):
                        leak = True
                rej_ok = True
                for tb, e in in_loop:
                    s_ = Sccp(f).run([(e[1], {})])
                    vals = {x for v_ in s_.ret_values.values() for x in value_set(v_)}
                    if vals != {V("None", None)}:
                        rej_ok = False
                if leak:
                    r.bad(key, "Glob::%s: a Literal token can reach the next iteration or a Some return without being compared "
                          "with %r" % (m, ch), fn=f, construct=m)
                elif not rej_ok:
                    r.bad(key, "Glob::%s: a literal %r no longer forces None (it is skipped or accepted)" % (m, ch), fn=f, construct=m)
                else:
                    r.ok(key, "Literal(%r) ⇒ None on every path (%d test(s))" % (ch, len(in_loop)), fn=f)

    with ctx.rule("C12.BASENAME", "a path gets no basename only when it is empty or its final component was examined; the basename is the whole tail", floor=3,
                  kind="GUARD") as r:
        basename_rule(ctx, r)
    with ctx.rule("C12.PARSE", "a `}` without an open `{` is rejected (documented error), never turned into an empty alternation", floor=1,
                  kind="GUARD") as r:
        # An empty Alternates([]) translates to `(?:)`: it matches the empty string, so `*}` would match every path and
        # `foo}` the name `foo`. ErrorKind::UnopenedAlternates is documented for exactly this input.
        pa = facts.fn(G + "::glob::Parser::pop_alternate")
        ebp = ExprBuilder(pa)
        lens = cond_switches(pa, lambda e: e.k == "bin" and e[1] in ("Lt", "Le", "Ge", "Gt", "Eq", "Ne") and
                             any(is_call(x, "alloc::vec::Vec::len") or x.k == "len" for x in walk(e)) and
                             any(x.k == "field" and x[3] == "stack" for x in walk(e)), ebp)
        push = pa.calls_to(G + "::glob::Parser::push_token")
        errs = [bb for bb, j, st in pa.stmts() if st["k"] == "assign" and st["place"]["l"] == 0 and not st["place"]["p"] and
                st["rv"]["k"] == "agg" and st["rv"].get("variant") == "Err"]
        direct = [bb for bb in errs if push and not any(C.dominates(pa, c.bb, bb) for c in push)]
        hdrs_ = {h for _, h in C.back_edges(pa)}
        guards = [sw_ for sw_ in lens if sw_[0] not in hdrs_ and
                  not any(sw_[0] in C.reach(pa, [h]) and h in C.reach(pa, [sw_[0]]) for h in hdrs_)]
        if direct and guards:
            r.ok("unopened", "pop_alternate: fewer than two open token lists ⇒ Err(UnopenedAlternates)", fn=pa)
        else:
            r.bad("unopened", "Parser::pop_alternate accepts a `}` although no alternation is open: it pushes Alternates([]), an "
                  "empty alternation that matches the empty string (the glob `*}` then matches every path)", fn=pa,
                  construct="pop_alternate")
    with ctx.rule("C12.MERGE", "indices sorted and de-duplicated after the strategy loop", floor=1, kind="PASS") as r:
        f = facts.fn(GS + "::matches_candidate_into")
        mi = f.calls_to(GSM + "::matches_into")
        so = [c for c in f.calls() if c.path.endswith("::sort") or c.path.endswith("::sort_unstable")]
        de = [c for c in f.calls() if c.path.endswith("::dedup")]
        if mi and so and de and C.dominates(f, so[0].bb, de[0].bb) and \
                not C.all_paths_pass(f, [mi[0].bb], {so[0].bb}, f.return_blocks()) and \
                not C.all_paths_pass(f, [mi[0].bb], {de[0].bb}, f.return_blocks()):
            r.ok("sort-dedup", "every path from the strategy loop to return passes sort then dedup", fn=f)
        else:
            r.bad("sort-dedup", "matches_candidate_into can return indices that are not sorted / de-duplicated "
                  "(last-match-wins in gitignore relies on ascending order)", fn=f, construct="sort-dedup")
        cl = [c for c in f.calls() if c.path.endswith("Vec::clear")]
        if cl and mi and C.dominates(f, cl[0].bb, mi[0].bb):
            r.ok("clear", "output vector cleared first", fn=f)
        else:
            r.bad("clear", "matches_candidate_into does not clear the output vector", fn=f)

    with ctx.rule("C12.ESCAPE", "globset::escape neutralises every character the glob parser dispatches on (writer/reader agreement)",
                  floor=1, kind="PARITY") as r:
        def char_switch(fn_):
            best = []
            for b_ in fn_.blocks:
                t_ = b_["term"]
                if t_["k"] == "switch" and len(t_.get("targets", [])) >= 3 and all(isinstance(v, int) and 32 < v < 127 for v, _ in t_["targets"]):
                    if len(t_["targets"]) > len(best):
                        best = [v for v, _ in t_["targets"]]
            return set(best)
        pf = facts.fn(G + "::glob::Parser::parse")
        ef = facts.fn(G + "::escape")
        special = char_switch(pf)
        bracketed = char_switch(ef)
        # `,` only means something between braces, and both braces are neutralised
        need = special - {ord(",")}
        if not special or not bracketed:
            r.bad("escape|specials", "anchor-missing: the character dispatch of Parser::parse (%d) / escape (%d)" % (len(special), len(bracketed)), fn=ef)
        elif need <= bracketed:
            r.ok("escape|specials", "escape brackets %s; the parser dispatches on %s" % (
                "".join(sorted(map(chr, bracketed))), "".join(sorted(map(chr, special)))), fn=ef)
        else:
            r.bad("escape|specials", "globset::escape leaves `%s` as it is although Parser::parse gives it a meaning: escape(\"a\\\\b\") "
                  "is a glob that matches `ab` and not the text it was made from" % "".join(sorted(map(chr, need - bracketed))),
                  fn=ef, construct="escape")
    with ctx.rule("C12.CLASSRANGES", "every range of a class token is written into the regex as parsed (the class arm loops over "
                  "Token::Class::ranges itself)", floor=1, kind="FLOW") as r:
        from . import c05
        c05.order_rule(r, facts.fn(G + "::glob::Tokens::tokens_to_regex"), G + "::glob::Token::Class", "ranges",
                       "a range that is rewritten, merged or dropped on the way changes which characters the class matches; whether a "
                       "rewriting keeps the set of characters cannot be decided from the shape of the code")
    with ctx.rule("C12.REGEX", "glob→regex: an arm per token; [^/] forms exactly under literal_separator", floor=11, kind="ARMS") as r:
        f = facts.fn(G + "::glob::Tokens::tokens_to_regex")
        eb = ExprBuilder(f)
        TOKEN = G + "::glob::Token"
        sws = [s for s in discr_switches(f, TOKEN)]
        if len(sws) != 1:
            r.bad("switch", "anchor-missing: tokens_to_regex must match on Token once", fn=f)
        else:
            bb, adt, place, arms, ow, ow_live, missing = sws[0]
            for v in facts.variants(TOKEN):
                if v in arms:
                    r.ok("arm|" + v, "Token::%s translated" % v, fn=f, nontrivial=False)
                else:
                    r.bad("arm|" + v, "Token::%s has no arm in tokens_to_regex" % v, fn=f, construct=v)
            hdrs = {h for _, h in C.back_edges(f)}
            for v, sep, nosep in (("Any", "[^/]", "."), ("ZeroOrMore", "[^/]*", ".*")):
                if v not in arms:
                    continue
                region = C.reach(f, [arms[v]], stop_blocks=hdrs)
                # value table over options.literal_separator: the text pushed in this arm (chosen in the arm, or before the loop)
                from ..flow import operand_at as _oat
                res = {}
                for ls in (0, 1):
                    def fm(owner, name, ls=ls):
                        return I(ls) if owner == GOPT and name == "literal_separator" else None
                    sx = Sccp(f, field_model=fm).run([(0, {})])
                    vals = set()
                    for c in f.calls():
                        if c.bb in region and c.bb in sx.exec_blocks and c.path.endswith("String::push_str"):
                            v_ = _oat(sx, c.bb, None, c.args[1])
                            vals.add(v_[1] if v_ is not None and v_[0] == "str" else "?")
                    res[ls] = sorted(vals)
                if res[1] == ['"%s"' % sep] and res[0] == ['"%s"' % nosep]:
                    r.ok("sep|" + v, "%s → %s under literal_separator else %s" % (v, sep, nosep), fn=f)
                elif res[0] == res[1]:
                    r.bad("sep|" + v, "Token::%s is translated without consulting literal_separator" % v, fn=f, construct=v)
                else:
                    r.bad("sep|" + v, "Token::%s translates to %s under literal_separator and %s otherwise (specified %s / %s)"
                          % (v, res[1], res[0], sep, nosep), fn=f, construct=v)
            # a negated class is "anything but …": under literal_separator that must not include '/' (git's wildmatch;
            # the same reason `*`/`?` become [^/] forms). An explicit `[/]` stays a deliberate difference (tests matchslash4).
            if "Class" in arms:
                sw = [s_ for s_ in cond_switches(f, lambda e: W.field_of(e, GOPT, "literal_separator"), eb)
                      if s_[0] in C.reach(f, [arms["Class"]], removed_blocks={bb})]
                ok_ = False
                for bb2, te, fe, e in sw:
                    reg = C.reach(f, [te[1]], removed_blocks={bb})
                    for c in f.calls():
                        if c.bb in reg and c.path.split("::")[-1] in ("push", "push_str") and "String" in c.path:
                            a_ = eb.operand(c.args[1])
                            if any(x.k == "const" and (x[1] == 47 or (x[2] and "/" in str(x[2]) and "^/" not in str(x[2]))) for x in walk(a_)):
                                ok_ = True
                if ok_:
                    r.ok("sep|Class", "a negated class excludes '/' under literal_separator", fn=f)
                else:
                    r.bad("sep|Class", "Token::Class is translated without consulting literal_separator: a negated class such as "
                          "[!b] matches '/', so the gitignore line /a[!b]c ignores a/c (git does not)", fn=f, construct="Class")


def all_closure(facts, f):
    """The per-token predicate of `tokens.iter().all(|t| ..)` in f together with what f answers when it says no:
    (closure Fn, ret set of f under all() == false) or None."""
    from ..flow import table as _table, ret_set as _ret_set
    eb = ExprBuilder(f)
    for c in f.calls():
        if c.path.endswith("Iterator::all"):
            for x in walk(eb.operand(c.args[1])):
                if x.k == "closure" and x[1] in facts.fns:
                    got = set()
                    for row, sx in _table(facts, f, calls={"Iterator::all": [I(0)]}):
                        got = _ret_set(sx)
                    return facts.fns[x[1]], got
    return None


def closure_verdict(facts, g, token, fields=None):
    """What the per-token predicate g answers for one token value (abstract) under a field row."""
    def fm(owner, name):
        return (fields or {}).get((owner, name))
    env = {}
    Sccp._write(env, (2, ()), token)
    sx = Sccp(g, field_model=fm).run([(0, env)])
    out = set()
    for v in sx.ret_values.values():
        out |= set(value_set(v))
    return out


def features(f, facts=None):
    """What a strategy method looks at: Candidate fields, helper calls, emptiness guard, anchoring test — in the method and
    in the closures it hands to adapters (`find_iter(..).any(|m| m.start() == 0)`)."""
    if facts is not None:
        out = set()
        for u_ in [f] + facts.closures_of(f.path):
            out |= features(u_)
        # (a captured candidate field reads as a field of the closure environment: the name is the same)
        return out
    eb = ExprBuilder(f)
    feats = set()
    rd, _, _ = field_rw(f)
    for o, fl in rd:
        if o == CAND:
            feats.add("field:" + fl)
    for c in f.calls():
        if c.path in (CAND + "::path_prefix", CAND + "::path_suffix"):
            feats.add("call:" + c.path.split("::")[-1])
        if c.path.endswith("::is_empty") and c.args:
            e = eb.operand(c.args[0])
            for x in walk(e):
                if x.k == "field" and x[2] == CAND:
                    feats.add("empty-guard:" + x[3])
        if c.path.startswith("aho_corasick::") and c.path.split("::")[-1].startswith("find"):
            # which search primitive: overlapping enumeration vs first (earliest-ending) match
            feats.add("ac:" + c.path.split("::")[-1])
        if c.path.endswith("Match::start"):
            feats.add("anchor:start")
        if c.path.endswith("Match::end"):
            feats.add("anchor:end")
    for bb, j, st in f.stmts():
        if st["k"] == "assign" and st["rv"]["k"] == "bin" and st["rv"]["op"] == "Eq":
            e = eb.rvalue(st["rv"])
            if mentions_call(e, "aho_corasick::util::search::Match::start") and any(y.k == "const" and y[1] == 0 for y in (e[2], e[3])):
                feats.add("test:start==0")
            if mentions_call(e, "aho_corasick::util::search::Match::end"):
                feats.add("test:end==len")
    return feats
