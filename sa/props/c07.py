"""C07 — the parallel walker's termination protocol (shape only; interleavings are NOT explored)."""
from .. import cfg as C
from ..flow import ExprBuilder, mentions_field, mentions_call, is_call, is_field, walk, show, cond_switches, \
    guarded, seed_after_call, Sccp, I, V, X, strip, value_set
from ..graph import field_rw, field_rw_deep, enum_table, CallGraph
from ..facts import op_const, op_place, fields_of_place
from .. import wire as Wr

TITLE = "parallel walker protocol shape"
EXPLANATION = (
    "Only the SHAPE of the work-stealing termination protocol in ignore::walk is decided (each clause is necessary: "
    "break it and some schedule hangs, loses or duplicates work); thread interleavings are not explored — that part of "
    "C07 is out of reach for static analysis as practised here. (PAIR) after deactivate_worker no return and no "
    "re-entry of the dispatch loop is reachable without passing activate_worker or send_quit, and activate is "
    "dominated by deactivate; (DOMINO) every `return None` is preceded by send_quit; (FLAG) every path from a receive "
    "to handing out work passes the quit flag, WalkState::Quit sets it, and the WalkState predicates are decided as "
    "tables; (COUNT) the active-worker counter is initialised from the same thread count that sizes the stacks, is "
    "written only by the two protocol functions and no Relaxed ordering reaches the protocol atomics; (JOIN) workers "
    "are scoped threads, all joined; (STEAL) a failed local pop falls back to stealing from every other worker, never "
    "from itself; (ONCE) each received entry is moved into exactly one visitor call or one queue push. The quit flag is raised only by Worker::run on WalkState::Quit (who-may-call).")
NOT_DECIDED = ["termination and exact-once delivery under every interleaving (schedules are not explored)",
               "memory-ordering sufficiency beyond 'no Relaxed on protocol atomics'"]

W = "ignore::walk"
WK = W + "::Worker"


def seed_rule(ctx, r):
    """Stack::new_for_each_thread: every initial message reaches a deque. The pushing loop must be driven by the whole
    `init` vector: an iterator chain rooted at init.into_iter() with no truncating adapter, zipped (if at all) with a
    cycled partner."""
    facts = ctx.facts
    W_ = "ignore::walk::"
    f = facts.fn(W_ + "Stack::new_for_each_thread")
    eb = ExprBuilder(f)
    TRUNC = ("take", "skip", "step_by", "take_while", "skip_while", "filter", "filter_map", "nth", "chunks", "chunks_exact", "drain")
    pushers = []       # (call whose receiver is the driving iterator, loc)
    for cl in facts.closures_of(f.path):
        if cl.calls_to(W_ + "Stack::push") or [c for c in cl.calls() if c.path.endswith("Worker::push") or c.path.endswith("Deque::push")]:
            for c in f.calls():
                if c.path.split("::")[-1] in ("for_each", "try_for_each", "fold") and \
                        any(x.k == "closure" and x[1] == cl.path for a in c.args for x in walk(eb.operand(a))):
                    pushers.append((c, eb.operand(c.args[0])))
    hdrs = {h for _, h in C.back_edges(f)}
    for c in f.calls_to(W_ + "Stack::push"):
        # a `for` loop: the iterator advanced by the loop that contains the push
        for n in f.calls():
            if n.path.endswith("Iterator::next") and any(c.bb in C.reach(f, [n.target], stop_blocks={n.bb}) for _ in [0]) and \
                    n.bb in C.reach(f, [c.bb]):
                pushers.append((n, eb.operand(n.args[0])))
    if not pushers:
        r.bad("seed|loop", "anchor-missing: no loop in Stack::new_for_each_thread pushes the initial messages", fn=f)
        return
    init_arg = [i for i, a in enumerate(f.d.get("inputs", [])) if "Message" in str(a)]
    for c, e in pushers:
        # follow the receiver chain of the iterator adapters down to its source
        def peel(n):
            while isinstance(n, X):
                if n.k in ("ref", "deref", "cast") and isinstance(n[1], X):
                    n = n[1]
                elif n.k == "phi":
                    alts = [a for a in n[2] if isinstance(a, X) and a.k not in ("partial", "other")]
                    if len(alts) != 1:
                        break
                    n = alts[0]
                else:
                    break
            return n
        chain, zips, node = [], [], peel(e)
        while isinstance(node, X) and node.k == "call" and node[3]:
            chain.append(node[1].split("::")[-1])
            if node[1].endswith("Iterator::zip") and len(node[3]) > 1:
                zips.append(node[3][1])
            node = peel(node[3][0])
        from_init = isinstance(node, X) and node.k == "arg" and (node[2] == "init" or (init_arg and node[1] == init_arg[0] + 1))
        trunc = sorted({n for n in chain if n in TRUNC})
        zip_ok = all(any(is_call(y, "core::iter::traits::iterator::Iterator::cycle") for y in walk(z)) for z in zips)
        if from_init and not trunc and zip_ok:
            r.ok("seed|all", "initial messages: init.into_iter()%s drives the pushes, nothing truncates it" % (" zipped with a cycle" if zips else ""), fn=f)
        else:
            why = "is not an iterator over the whole `init` vector" if not from_init else \
                  ("is truncated by %s" % ", ".join(trunc) if trunc else "is zipped with a finite partner")
            r.bad("seed|all", "the loop that hands the initial roots to the per-thread deques %s: some roots can be dropped without "
                  "any error (the serial walker still visits them)" % why, fn=f, loc=c.loc, construct="new_for_each_thread")


def named_field(e, name):
    """The walker's shared flag / counter by its field name, whichever struct of the walker holds it (Worker itself, or a
    small struct of the shared state that Worker holds)."""
    return any(x.k == "field" and x[3] == name and str(x[2]).startswith(W + "::") for x in walk(e))


def run(ctx):
    facts = ctx.facts
    f = facts.fn(WK + "::get_work")
    eb = ExprBuilder(f)
    with ctx.rule("C07.PAIR", "deactivate is always followed by activate or the quit broadcast before leaving the wait", floor=2,
                  kind="PASS") as r:
        de = f.calls_to(WK + "::deactivate_worker")
        ac = f.calls_to(WK + "::activate_worker")
        sq = f.calls_to(WK + "::send_quit")
        if len(de) != 1 or not ac or not sq:
            r.bad("shape", "anchor-missing: get_work (deactivate %d, activate %d, send_quit %d)" % (len(de), len(ac), len(sq)), fn=f)
        else:
            through = {c.bb for c in ac} | {c.bb for c in sq}
            # the dispatch loop header: the block calling is_quit_now
            iq = f.calls_to(WK + "::is_quit_now")
            targets = f.return_blocks() + [c.bb for c in iq]
            esc = C.all_paths_pass(f, [de[0].target], through, targets)
            if esc:
                r.bad("balanced", "after deactivate_worker() the worker can %s without activate_worker() or the quit broadcast: "
                      "the active count stays too low and the others may quit with work still queued" % (
                          "return" if f.blocks[esc[0]]["term"]["k"] == "return" else "go back to dispatching"),
                      fn=f, loc=de[0].loc, construct="pair")
            else:
                r.ok("balanced", "every exit from the wait passes activate_worker or send_quit", fn=f)
            if all(C.dominates(f, de[0].bb, c.bb) for c in ac):
                # and not twice: no activate reachable from activate without passing deactivate
                twice = [c for c in ac if any(c2.bb in C.reach(f, [c.target], removed_blocks={de[0].bb}) for c2 in ac)]
                if twice:
                    r.bad("dominated", "activate_worker can run twice for one deactivate_worker", fn=f, loc=twice[0].loc, construct="pair")
                else:
                    r.ok("dominated", "activate_worker only after deactivate_worker, once per wait", fn=f)
            else:
                r.bad("dominated", "activate_worker can run without a preceding deactivate_worker", fn=f, construct="pair")
            # the zero test: last worker out broadcasts
            z = cond_switches(f, lambda e: e.k == "bin" and e[1] == "Eq" and mentions_call(e, WK + "::deactivate_worker")
                              and any(y.k == "const" and y[1] == 0 for y in (e[2], e[3])), eb)
            if z:
                s = Sccp(f).run([(z[0][1][1], {})])
                if any(c.bb in s.exec_blocks for c in sq) and {x for v in s.ret_values.values() for x in value_set(v)} == {V("None", None)}:
                    r.ok("last-out", "deactivate_worker() == 0 ⇒ send_quit, return None", fn=f)
                else:
                    r.bad("last-out", "the last worker to go idle does not broadcast quit and stop", fn=f, construct="last-out")
            else:
                r.bad("last-out", "anchor-missing: no `deactivate_worker() == 0` test", fn=f)

    with ctx.rule("C07.DOMINO", "every `return None` re-pushes the quit message first; Worker::run ends only on None", floor=3, kind="PASS") as r:
        nones = [bb for bb, j, st in f.stmts() if st["k"] == "assign" and st["place"]["l"] == 0 and st["rv"]["k"] == "agg"
                 and st["rv"].get("variant") == "None"]
        sq = {c.bb for c in f.calls_to(WK + "::send_quit")}
        if len(nones) < 2:
            r.bad("sites", "anchor-missing: expected 2 `return None` sites in get_work, found %d" % len(nones), fn=f)
        for i, n in enumerate(sorted(nones)):
            # all paths entry -> n pass a send_quit block, and the nearest one is in the same iteration
            esc = C.all_paths_pass(f, [0], sq, [n])
            if esc:
                r.bad("none|%d" % i, "get_work returns None at %s without re-sending the quit message: sleeping workers are "
                      "never woken (quit domino broken)" % f.blocks[n]["stmts"][-1]["loc"], fn=f,
                      loc=f.blocks[n]["stmts"][-1]["loc"], construct="domino")
            else:
                r.ok("none|%d" % i, "send_quit precedes return None", fn=f)

        # A worker leaves Worker::run only because get_work() answered None — the one place that relays the quit message.
        # Leaving by any other exit (a break after the visitor said Quit, an early return) skips the relay: the workers
        # asleep in the idle loop are then never woken and the walk does not return.
        run_ = facts.fn(WK + "::run")
        gw = run_.calls_to(WK + "::get_work")
        from ..flow import discr_switch_edges
        none_edges = set()
        ebr = ExprBuilder(run_)
        for bb, arms, ow, e, missing in discr_switch_edges(run_, lambda e: mentions_call(e, WK + "::get_work"), ebr):
            if "None" in arms:
                none_edges.add(arms["None"])
            elif "Some" in arms:
                none_edges.add(ow)
        if not gw or not none_edges:
            r.bad("run|exit", "anchor-missing: Worker::run does not loop on get_work()", fn=run_)
        else:
            rets = [b_ for b_ in C.reach(run_, [0], removed_edges=none_edges) if run_.blocks[b_]["term"]["k"] == "return"]
            if rets:
                r.bad("run|exit", "Worker::run can leave its loop without get_work() having answered None: that exit sends no quit "
                      "message, so workers asleep in the idle loop are never woken (the walk hangs)", fn=run_, construct="run-exit")
            else:
                r.ok("run|exit", "the only way out of Worker::run is get_work() == None", fn=run_)

    with ctx.rule("C07.FLAG", "quit flag consulted before every hand-out; Quit sets it; WalkState tables", floor=9, exhaustive=True,
                  kind="PASS/ARMS/TABLE") as r:
        somes = [bb for bb, j, st in f.stmts() if st["k"] == "assign" and st["place"]["l"] == 0 and st["rv"]["k"] == "agg"
                 and st["rv"].get("variant") == "Some"]
        iq = {c.bb for c in f.calls_to(WK + "::is_quit_now")}
        recvs = f.calls_to(WK + "::recv")
        if not somes or not iq or len(recvs) < 2:
            r.bad("shape", "anchor-missing: get_work (Some returns %d, is_quit_now %d, recv %d)" % (len(somes), len(iq), len(recvs)), fn=f)
        else:
            for i, c in enumerate(recvs):
                esc = C.all_paths_pass(f, [c.target], iq, somes)
                if esc:
                    r.bad("recv|%d" % i, "work received at %s can be handed out without reading the quit flag" % c.loc, fn=f,
                          loc=c.loc, construct="flag")
                else:
                    r.ok("recv|%d" % i, "recv → is_quit_now → Some(work)", fn=f)
            # with the flag up — whenever it is read — nothing but None comes out (the flag may be read in a helper that
            # classifies what was received, before the loop or in it)
            s = Sccp(f, call_model=lambda c_, argv: I(1) if c_.is_(WK + "::is_quit_now") else None).run([(0, {})])
            vals = {x for v in s.ret_values.values() for x in value_set(v)}
            if vals == {V("None", None)}:
                r.ok("quit-now", "quit flag set ⇒ whatever was received is treated as Quit (returns None)", fn=f)
            else:
                r.bad("quit-now", "with the quit flag set get_work can still hand out work (%s)" % vals, fn=f, construct="flag")
        g = facts.fn(WK + "::run")
        ro = g.calls_to(WK + "::run_one")
        qn = g.calls_to(WK + "::quit_now")
        if ro and qn:
            # (WalkState's own predicates — is_quit(), is_continue() — are evaluated on the seeded answer)
            from ..flow import combinator_model as _cm
            cm_ = _cm(facts, None, callees=lambda p_: p_.startswith(W + "::WalkState::"))
            s = seed_after_call(g, ro[0], V("Quit", None), call_model=cm_, stop_blocks={h for _, h in C.back_edges(g)})
            s2 = seed_after_call(g, ro[0], V("Continue", None), call_model=cm_, stop_blocks={h for _, h in C.back_edges(g)})
            s3 = seed_after_call(g, ro[0], V("Skip", None), call_model=cm_, stop_blocks={h for _, h in C.back_edges(g)})
            if qn[0].bb in s.exec_blocks and qn[0].bb not in s2.exec_blocks and qn[0].bb not in s3.exec_blocks:
                r.ok("run|quit", "WalkState::Quit ⇒ quit_now(); Continue/Skip ⇒ not", fn=g)
            else:
                r.bad("run|quit", "Worker::run does not set the quit flag exactly on WalkState::Quit", fn=g, construct="quit")
        else:
            r.bad("run|quit", "anchor-missing: Worker::run", fn=g)
        # ... and ONLY then: the flag makes every worker discard whatever it holds, so raising it anywhere else
        # (e.g. on "all idle") throws away work that was stolen but not yet re-activated
        qcallers = sorted({c.fn.path for c in facts.callers_of(WK + "::quit_now")})
        stores = sorted({g_.path for g_ in facts.fns_in(W + "::") for c in g_.calls()
                         if c.path.endswith("Atomic::store") and named_field(ExprBuilder(g_).operand(c.args[0]), "quit_now")})
        if qcallers == [WK + "::run"] and stores == [WK + "::quit_now"]:
            r.ok("quit-owner", "quit_now() is called only by Worker::run (on WalkState::Quit); the flag is stored nowhere else", fn=g)
        else:
            r.bad("quit-owner", "the quit flag is raised outside the visitor-asked-to-quit path (callers %s, stores %s): workers "
                  "holding stolen work would drop it" % (qcallers, stores), fn=g, construct="quit-owner")
        for m, variant in (("is_continue", "Continue"), ("is_quit", "Quit")):
            h = facts.fn(W + "::WalkState::" + m)
            ebh = ExprBuilder(h)
            e = ebh.local(0)
            # `*self == WalkState::<V>` through the derived PartialEq (trusted: compiler generated)
            if is_call(e, "core::cmp::PartialEq::eq") and any(x.k == "arg" and x[1] == 1 for x in walk(e[3][0])):
                consts = [str(x[2]) for x in walk(e[3][1]) if x.k == "const" and x[2]]
                got = [v for v in ("Continue", "Skip", "Quit") if any(c.endswith("WalkState::%s}" % v) for c in consts)]
                for v in ("Continue", "Skip", "Quit"):
                    want = (v == variant)
                    if got == [variant]:
                        r.ok("%s|%s" % (m, v), "WalkState::%s(%s) = %s" % (m, v, want), fn=h)
                    else:
                        r.bad("%s|%s" % (m, v), "WalkState::%s compares with %s, specified %s" % (m, got, variant), fn=h, construct=m)
            else:
                t = enum_table(h)
                for v in ("Continue", "Skip", "Quit"):
                    got = t[1].get(v) if t else None
                    if got == I(int(v == variant)):
                        r.ok("%s|%s" % (m, v), "WalkState::%s(%s) = %s" % (m, v, v == variant), fn=h)
                    else:
                        r.bad("%s|%s" % (m, v), "WalkState::%s(%s) = %s, specified %s" % (m, v, got, v == variant), fn=h, construct=m)
        for name, order in (("quit_now", "store"), ("is_quit_now", "load")):
            h = facts.fn(WK + "::" + name)
            cs = [c for c in h.calls() if c.path.endswith("Atomic::" + order)]
            ebh = ExprBuilder(h)
            if cs and named_field(ebh.operand(cs[0].args[0]), "quit_now") and \
                    (order == "load" or (op_const(cs[0].args[1]) or {}).get("val") == 1):
                r.ok(name, "%s on Worker.quit_now" % order, fn=h)
            else:
                r.bad(name, "%s is not a %s of Worker.quit_now" % (name, order), fn=h, construct=name)

    with ctx.rule("C07.COUNT", "active-worker counter: initial value, writers, memory orderings", floor=5, kind="FLOW/RW") as r:
        v = facts.fn(W + "::WalkParallel::visit")
        ebv = ExprBuilder(v)
        aw = None
        for st in (st for bb, j, st in v.stmts()):
            pass
        news = [c for c in v.calls() if c.path.endswith("Atomic::new") and v.local_ty(c.dest["l"]).endswith("<usize>")]
        nf = v.calls_to(W + "::Stack::new_for_each_thread")
        if news and nf:
            a = ebv.operand(news[0].args[0])
            b = ebv.operand(nf[0].args[0])
            ca = {id(x) for x in walk(a) if is_call(x, W + "::WalkParallel::threads")}
            if mentions_call(a, W + "::WalkParallel::threads") and mentions_call(b, W + "::WalkParallel::threads") and \
                    {x[4].loc for x in walk(a) if is_call(x, W + "::WalkParallel::threads")} == \
                    {x[4].loc for x in walk(b) if is_call(x, W + "::WalkParallel::threads")}:
                r.ok("init", "active_workers = threads = number of stacks (same value)", fn=v)
            else:
                r.bad("init", "the active-worker counter (%s) and the number of stacks (%s) are not the same thread count"
                      % (show(a)[:40], show(b)[:40]), fn=v, construct="init")
        else:
            r.bad("init", "anchor-missing: counter / stack construction in visit", fn=v)
        writers = set()
        relaxed = []
        for g in facts.fns_in(W + "::"):
            ebg = None
            for c in g.calls():
                if "::Atomic::" in c.path and c.path.split("::")[-1] in ("fetch_sub", "fetch_add", "store", "swap", "compare_exchange", "fetch_update"):
                    ebg = ebg or ExprBuilder(g)
                    tgt = ebg.operand(c.args[0])
                    if named_field(tgt, "active_workers"):
                        writers.add(g.path)
                if "::Atomic::" in c.path:
                    ebg = ebg or ExprBuilder(g)
                    for a in c.args[1:]:
                        e = ebg.operand(a)
                        if any(x.k == "agg" and x[1].endswith("atomic::Ordering") and x[2] == "Relaxed" for x in walk(e)):
                            relaxed.append((g, c))
        want = {WK + "::deactivate_worker", WK + "::activate_worker"}
        if writers == want:
            r.ok("writers", "active_workers written only by deactivate_worker / activate_worker", fn=WK + "::deactivate_worker")
        else:
            r.bad("writers", "active_workers is modified by %s" % sorted(writers ^ want), construct="writers")
        if relaxed:
            r.bad("ordering", "Ordering::Relaxed on a protocol atomic in %s at %s" % (relaxed[0][0].path, relaxed[0][1].loc),
                  fn=relaxed[0][0], loc=relaxed[0][1].loc, construct="ordering")
        else:
            r.ok("ordering", "no Relaxed ordering on the walker's atomics")
        d = facts.fn(WK + "::deactivate_worker")
        a = facts.fn(WK + "::activate_worker")
        ebd = ExprBuilder(d)
        fs = [c for c in d.calls() if c.path.endswith("Atomic::fetch_sub")]
        fa = [c for c in a.calls() if c.path.endswith("Atomic::fetch_add")]
        ret = ebd.local(0)
        if fs and fa and (op_const(fs[0].args[1]) or {}).get("val") == 1 and (op_const(fa[0].args[1]) or {}).get("val") == 1 and \
                any(x.k == "bin" and x[1] in ("Sub", "SubWithOverflow") for x in walk(ret)):
            r.ok("arith", "deactivate: fetch_sub(1) - 1 (the new count); activate: fetch_add(1)", fn=d)
        else:
            r.bad("arith", "deactivate/activate are no longer -1 (returning the new count) / +1", fn=d, construct="arith")
        # the acquire/release pairing
        def ordering(c):
            e = ExprBuilder(c.fn).operand(c.args[2])
            for x in walk(e):
                if x.k == "agg" and x[1].endswith("atomic::Ordering"):
                    return x[2]
            return None
        if fs and fa and ordering(fs[0]) in ("Acquire", "AcqRel", "SeqCst") and ordering(fa[0]) in ("Release", "AcqRel", "SeqCst"):
            r.ok("acqrel", "deactivate acquires (%s), activate releases (%s)" % (ordering(fs[0]), ordering(fa[0])), fn=d)
        else:
            r.bad("acqrel", "deactivate/activate orderings are %s/%s" % (ordering(fs[0]) if fs else None, ordering(fa[0]) if fa else None),
                  fn=d, construct="ordering")

    with ctx.rule("C07.JOIN", "workers are scoped threads and every handle is joined", floor=2, kind="MAYCALL/NOCALL") as r:
        spawns = []
        for g in facts.fns_in(W + "::"):
            if "::tests::" in g.path:
                continue
            for c in g.calls():
                if c.path in ("std::thread::functions::spawn", "std::thread::spawn", "std::thread::builder::Builder::spawn"):
                    spawns.append((g, c))
        if spawns:
            r.bad("raw-spawn", "ignore::walk spawns a detached thread in %s" % spawns[0][0].path, fn=spawns[0][0], loc=spawns[0][1].loc,
                  construct="spawn")
        else:
            r.ok("raw-spawn", "no detached thread::spawn in ignore::walk")
        vis = facts.with_closures(W + "::WalkParallel::visit")
        scope = [c for g in vis for c in g.calls() if c.path == "std::thread::scoped::scope"]
        sp = [c for g in vis for c in g.calls() if c.path == "std::thread::scoped::Scope::spawn"]
        jn = [c for g in vis for c in g.calls() if c.path == "std::thread::scoped::ScopedJoinHandle::join"]
        un = [c for g in vis for c in g.calls() if c.path == "core::result::Result::unwrap"]
        if scope and sp and jn and un:
            r.ok("scoped", "thread::scope + Scope::spawn + join().unwrap()", fn=vis[0])
        else:
            r.bad("scoped", "worker threads are not scoped-and-joined (scope %d, spawn %d, join %d)" % (len(scope), len(sp), len(jn)),
                  fn=vis[0], construct="join")
        # the spawned closure runs Worker::run
        runs = [c for g in vis for c in g.calls() if c.path == WK + "::run"]
        if runs:
            r.ok("body", "each spawned thread runs Worker::run", fn=vis[0], nontrivial=False)
        else:
            r.bad("body", "spawned threads do not run Worker::run", fn=vis[0])

    # (floor: every one of the three functions calls the visitor at least once, and run_one calls generate_work; the number of
    # visitor calls beyond that is a matter of how the error returns are written — ten on the reference tree)
    with ctx.rule("C07.QUIT", "no answer of a visitor is dropped: it is returned or tested, so a Quit always reaches Worker::run", floor=4,
                  kind="USED") as r:
        from ..graph import classify_result
        n_ = 0
        for name in (WK + "::run_one", WK + "::generate_work", "ignore::walk::WalkParallel::visit"):
            g = facts.fn(name)
            if not any(c_.func.get("name") == "visit" and "Visitor" in str(c_.func.get("trait")) for c_ in g.calls()):
                r.bad("%s|visit" % name.split("::")[-1], "anchor-missing: %s no longer calls the visitor" % name, fn=g)
            for i, c in enumerate(c_ for c_ in g.calls() if c_.func.get("name") == "visit" and "Visitor" in str(c_.func.get("trait"))):
                v_, d_ = classify_result(g, c)
                key = "%s|visit|%d" % (name.split("::")[-1], i)
                n_ += 1
                if v_ in ("returned", "passed", "try"):
                    r.ok(key, "visitor's WalkState %s (%s)" % (v_, d_), fn=g)
                else:
                    r.bad(key, "%s calls the visitor at %s and %s its answer: a Quit given there is ignored and the walk goes on "
                          "handing out entries" % (name.split("::")[-1], c.loc, v_), fn=g, loc=c.loc, construct="visit-result")
        ro = facts.fn(WK + "::run_one")
        gw_ = ro.calls_to(WK + "::generate_work")
        for i, c in enumerate(gw_):
            v_, d_ = classify_result(ro, c)
            if v_ in ("returned", "passed", "try"):
                r.ok("run_one|generate_work|%d" % i, "generate_work's WalkState is tested / returned", fn=ro)
            else:
                r.bad("run_one|generate_work|%d" % i, "run_one drops the WalkState of generate_work (a Quit from reporting an error)", fn=ro,
                      loc=c.loc, construct="visit-result")
    with ctx.rule("C07.SEED", "every initial root is handed to some worker's deque", floor=1, kind="FLOW") as r:
        seed_rule(ctx, r)
    with ctx.rule("C07.STEAL", "pop falls back to steal; steal visits every other worker and never itself", floor=4, kind="FLOW") as r:
        p = facts.with_closures(W + "::Stack::pop")
        if any(c.path == W + "::Stack::steal" for g in p for c in g.calls()) and \
                any(c.path.endswith("Worker::pop") for g in p for c in g.calls()):
            r.ok("pop", "deque.pop().or_else(steal)", fn=p[0])
        else:
            r.bad("pop", "Stack::pop no longer falls back to stealing", fn=p[0], construct="pop")
        s = facts.fn(W + "::Stack::steal")
        ebs = ExprBuilder(s)
        sa = [c for c in s.calls() if c.path.endswith("::split_at")]
        ch = [c for c in s.calls() if c.path.endswith("Iterator::chain")]
        idx = [c for c in s.calls() if c.is_("core::ops::index::Index::index")]
        # the loop spelling: `for s in right { … }` then `for s in left { … }`, each stealing and returning on success
        steal_calls = [c for c in s.calls() if c.path.endswith("Stealer::steal_batch_and_pop") or c.path.endswith("Stealer::steal")]
        if sa and mentions_field(ebs.operand(sa[0].args[1]), W + "::Stack", "index") and not ch and idx and len(steal_calls) == 2 and \
                any(x.k == "agg" and x[1].endswith("RangeFrom") and x[3] and x[3][0].k == "const" and x[3][0][1] == 1
                    for x in walk(ebs.operand(idx[0].args[1]))):
            recv = [ebs.operand(c.args[0]) for c in steal_calls]
            from_right = [any(is_call(x, "core::ops::index::Index::index") for x in walk(e)) for e in recv]
            from_left = [any(x.k == "field" and x[2] == "(tuple)" and x[3] == "0" for x in walk(e)) and not fr for e, fr in zip(recv, from_right)]
            in_loop = all(c.bb in C.reach_after(s, c.bb) for c in steal_calls)
            # right first: the loop over left is reachable from the loop over right, not the other way round
            ri, li = (0, 1) if from_right[0] else (1, 0)
            ordered = from_right[ri] and from_left[li] and steal_calls[li].bb in C.reach_after(s, steal_calls[ri].bb) and \
                steal_calls[ri].bb not in C.reach_after(s, steal_calls[li].bb)
            plain = not any(c.path.startswith("core::iter::traits::iterator::Iterator::") and
                            c.path.rsplit("::", 1)[1] in ("take", "skip", "step_by", "take_while", "skip_while", "filter", "nth")
                            for c in s.calls())
            if in_loop and ordered:
                r.ok("steal|order", "a loop over right[1..], then a loop over left: every other worker, never self", fn=s)
            else:
                r.bad("steal|order", "steal does not visit right[1..] then left", fn=s, construct="steal")
            if plain:
                r.ok("steal|all", "both loops run over the whole slice (no take/skip/step_by/… on the way)", fn=s)
            else:
                r.bad("steal|all", "steal passes a sweep over the other deques through an adapter that can leave some of them unvisited",
                      fn=s, construct="steal")
        elif sa and mentions_field(ebs.operand(sa[0].args[1]), W + "::Stack", "index") and ch and idx and \
                any(x.k == "agg" and x[1].endswith("RangeFrom") and x[3] and x[3][0].k == "const" and x[3][0][1] == 1
                    for x in walk(ebs.operand(idx[0].args[1]))):
            a0, a1 = ebs.operand(ch[0].args[0]), ebs.operand(ch[0].args[1])
            if any(is_call(x, "core::ops::index::Index::index") for x in walk(a0)) and \
                    any(x.k == "field" and x[2] == "(tuple)" and x[3] == "0" for x in walk(a1)):
                r.ok("steal|order", "right[1..] chained with left: every other worker, never self", fn=s)
            else:
                r.bad("steal|order", "steal does not visit right[1..] then left", fn=s, construct="steal")
        elif [c for c in s.calls() if c.path.endswith("Iterator::cycle")]:
            # the cyclic spelling: stealers.iter().cycle().skip(index + 1).take(len - 1) — starts right after itself, wraps
            # around, and stops one short of itself
            cy = [c for c in s.calls() if c.path.endswith("Iterator::cycle")]
            sk = [c for c in s.calls() if c.path.endswith("Iterator::skip")]
            tk = [c for c in s.calls() if c.path.endswith("Iterator::take")]

            def plus_minus_one(e, op, what):
                return any(x.k == "bin" and x[1] in (op, op + "WithOverflow") and any(y.k == "const" and y[1] == 1 for y in (x[2], x[3]))
                           and what(x) for x in walk(e))
            ok_c = len(cy) == 1 and mentions_field(ebs.operand(cy[0].args[0]), W + "::Stack", "stealers")
            ok_s = len(sk) == 1 and mentions_call(ebs.operand(sk[0].args[0]), "core::iter::traits::iterator::Iterator::cycle") and \
                plus_minus_one(ebs.operand(sk[0].args[1]), "Add", lambda x: mentions_field(x, W + "::Stack", "index"))
            ok_t = len(tk) == 1 and mentions_call(ebs.operand(tk[0].args[0]), "core::iter::traits::iterator::Iterator::skip") and \
                plus_minus_one(ebs.operand(tk[0].args[1]), "Sub", lambda x: mentions_field(x, W + "::Stack", "stealers") and
                               any(y.k == "len" or is_call(y, "[T]::len", "alloc::vec::Vec::len") for y in walk(x)))
            if ok_c and ok_s and ok_t:
                r.ok("steal|order", "stealers cycled from index + 1 for len - 1 steps: every other worker, never self", fn=s)
                r.ok("steal|all", "len - 1 steps from index + 1 visit every other deque once", fn=s)
            else:
                r.bad("steal|order", "steal's cyclic sweep is not `skip(index + 1)` then `take(len - 1)` over the stealers "
                      "(cycle %s, skip %s, take %s)" % (ok_c, ok_s, ok_t), fn=s, construct="steal")
        else:
            r.bad("steal|order", "steal no longer splits the stealers at its own index and skips itself", fn=s, construct="steal")
        # between the chain over the other deques and whatever consumes it, nothing may drop an element: a worker that never
        # looks into some deque never sees the quit message parked there (the domino re-pushes it into the sender's own deque)
        keeping = ("map", "inspect", "by_ref", "peekable", "into_iter", "rev", "filter_map", "flat_map", "copied", "cloned", "enumerate",
                   "find_map", "find", "try_fold", "fold", "for_each", "any", "all", "try_for_each", "next")
        if ch:
            droppers = []
            for c in s.calls():
                if c.bb != ch[0].bb and c.path.startswith("core::iter::traits::iterator::Iterator::") and \
                        any(is_call(x, "core::iter::traits::iterator::Iterator::chain") for x in walk(ebs.operand(c.args[0]))):
                    if c.path.rsplit("::", 1)[1] not in keeping:
                        droppers.append(c)
            if droppers:
                r.bad("steal|all", "steal passes the sweep over the other deques through `%s`, which can leave some of them unvisited: a quit "
                      "message parked in a deque nobody else looks into is never received and the traversal does not end"
                      % droppers[0].path.rsplit("::", 1)[1], fn=s, loc=droppers[0].loc, construct="steal")
            else:
                r.ok("steal|all", "every element of the chain reaches the consumer (no take/skip/step_by/… on the way)", fn=s)
        st = facts.with_closures(W + "::Stack::steal")
        if any(c.path.endswith("Stealer::steal_batch_and_pop") or c.path.endswith("Stealer::steal") for g in st for c in g.calls()):
            r.ok("steal|op", "steals through the crossbeam Stealer API", fn=s, nontrivial=False)
        else:
            r.bad("steal|op", "anchor-missing: no Stealer call in Stack::steal", fn=s)

    with ctx.rule("C07.ONCE", "each received directory entry goes to exactly one visitor call or one queue push", floor=2,
                  kind="PASS") as r:
        ro = facts.fn(WK + "::run_one")
        ebr = ExprBuilder(ro)
        vis = [c for c in ro.calls() if c.path.endswith("ParallelVisitor::visit")]
        dent_visits = [c for c in vis if (lambda e: e.k == "agg" and e[2] == "Ok" and
                                          any(x.k == "field" and x[3] == "dent" for x in walk(e)))(strip(ebr.operand(c.args[1])))]
        if dent_visits:
            # no dent visit is reachable from another dent visit (the borrow checker forbids a double move; this
            # checks the CFG shape so that a clone-and-visit-twice edit is caught)
            twice = [c for c in dent_visits if any(c2.bb in C.reach(ro, [c.target]) for c2 in dent_visits)]
            clones = [c for c in ro.calls() if c.path.endswith("Clone::clone") and
                      any(x.k == "field" and x[3] == "dent" for x in walk(ebr.operand(c.args[0])))]
            if twice or clones:
                r.bad("run_one", "a directory entry can be visited twice in run_one", fn=ro, construct="once")
            else:
                # every non-error path reaches a dent visit
                # (a visitor answering Quit to an error report may end the walk before the entry is visited)
                qs = cond_switches(ro, lambda e: is_call(e, W + "::WalkState::is_quit"), ebr)
                # an error about this very entry, returned as run_one's answer, stands in for the entry (walkdir does the
                # same when it cannot tell the entry's device): the entry is reported, as an error
                instead = [c for c in vis if c not in dent_visits and c.dest is not None and c.dest["l"] == 0 and not c.dest["p"] and
                           any(x.k == "agg" and x[2] == "Err" for x in walk(ebr.operand(c.args[1]))) and
                           any(is_call(x, W + "::is_same_file_system") or
                               (x.k == "closure" and x[1] in facts.fns and facts.fns[x[1]].calls_to(W + "::is_same_file_system"))
                               for x in walk(ebr.operand(c.args[1])))]
                esc = C.all_paths_pass(ro, [0], {c.bb for c in dent_visits} | {c.bb for c in instead}, ro.return_blocks(),
                                       removed_edges={te for _, te, fe, _ in qs})
                if esc:
                    r.bad("run_one", "run_one can return without handing the entry to the visitor (an entry is lost)", fn=ro,
                          construct="once")
                else:
                    r.ok("run_one", "%d mutually exclusive visit(Ok(dent)) sites cover every path" % len(dent_visits), fn=ro)
        else:
            r.bad("run_one", "anchor-missing: run_one never visits work.dent", fn=ro)
        gw = facts.fn(WK + "::generate_work")
        sends = gw.calls_to(WK + "::send")
        if len(sends) == 1 and sends[0].bb not in C.reach(gw, [sends[0].target]):
            r.ok("generate_work", "one send per generated entry", fn=gw)
        else:
            r.bad("generate_work", "an entry can be queued %s" % ("twice" if sends else "never"), fn=gw, construct="once")
