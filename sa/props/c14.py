"""C14 — binary data never reaches the terminal unless text mode is requested."""
import itertools
from .. import cfg as C
from .. import hirx as H
from ..flow import ExprBuilder, mentions_field, mentions_call, is_call, is_field, walk, show, cond_switches, \
    guarded, seed_after_call, Sccp, I, V, X, strip, value_set
from ..graph import field_rw, field_rw_deep
from ..facts import op_const, op_place, fields_of_place, place_key
from .. import wire as W
from . import c03

TITLE = "binary detection plumbing"
EXPLANATION = (
    "Structural necessary conditions of C14 on the MIR/HIR of grep-searcher, grep-printer and rg: (LINES) on slice "
    "strategies every delivered line passes detect_binary (shared with C03); (SNIFF) the prefix sniff dominates the "
    "search loops of both slice strategies, whose cores are built with binary = true (false for the reader, which "
    "detects in the buffer); (BUFFER) in LineBuffer::fill the Quit arm truncates end/last_lineterm at the found index and "
    "records the offset before returning, the Convert arm replaces with the configured line terminator, the early "
    "return is guarded by quit ∧ offset-seen, and ReadByLine::fill stops under should_binary_quit; (PRINT) the standard "
    "printer cannot reach its line writer once binary data was seen in convert mode, prints the notice iff an offset is "
    "recorded, the summary printer zeroes its count and returns before any write under quit mode, and every sink "
    "resets the offset in begin; (MODE) detection-mode truth tables, explicit files never get `quit`, the mode is "
    "installed before any search, and NUL is banned from patterns when detection is on. Where the NUL sits relative "
    "to buffers and matches is not decided. (DETECT) Core::detect_binary scans the whole given range unless an offset is already known or detection is off, and a found byte is recorded and reported.")
NOT_DECIDED = ["where the NUL byte sits relative to buffers, matches and context",
               "that the JSON / summary printers never emit raw bytes (escaping by construction, not analysed)"]

CORE = "grep_searcher::searcher::core::Core"
GLUE = "grep_searcher::searcher::glue"
LB = "grep_searcher::line_buffer::LineBuffer"
LBC = "grep_searcher::line_buffer::Config"
LBD = "grep_searcher::line_buffer::BinaryDetection"
SINK = "grep_searcher::sink::Sink"
FIND_BYTE = "bstr::ext_slice::ByteSlice::find_byte"
HI = "rg::flags::hiargs::HiArgs"
SW = "rg::search::SearchWorker"
SC = "rg::search::Config"



def warn_rule(ctx, r):
    """StandardImpl::write_binary_message: with quit-on-binary and match_count == 0 the warning must still be reachable (it is
    the bytes written for this file that decide): context and --passthru lines are printed before the line with the NUL."""
    facts = ctx.facts
    f = facts.fn("grep_printer::standard::StandardImpl::write_binary_message")
    eb = ExprBuilder(f)
    writes = [c for c in f.calls() if c.path.endswith("StandardImpl::write")]
    zero_edges = []
    for bb, te, fe, e in cond_switches(f, lambda e: e.k == "bin" and e[1] in ("Eq", "Ne", "Gt", "Lt") and
                                       any(x.k == "field" and x[3] == "match_count" for x in walk(e)) and
                                       any(y.k == "const" and y[1] == 0 for y in (e[2], e[3])), eb):
        # the edge taken when the count is zero; the other one is removed
        if e[1] == "Eq":
            zero_edges.append(fe)
        elif e[1] == "Ne":
            zero_edges.append(te)
        elif e[1] == "Gt":
            zero_edges.append(te if any(x.k == "field" for x in walk(e[2])) else fe)
        else:
            zero_edges.append(te if any(x.k == "field" for x in walk(e[3])) else fe)
    if not writes or not zero_edges:
        r.bad("warn|printed", "anchor-missing: write_binary_message no longer tests match_count / writes a message", fn=f)
        return

    def model(call, argv):
        if call.path.endswith("BinaryDetection::quit_byte"):
            return V("Some", None)
        return None
    sx = Sccp(f, call_model=model, removed_edges=set(zero_edges)).run([(0, {})])
    if any(c.bb in sx.exec_blocks for c in writes):
        r.ok("warn|printed", "quit mode ∧ match_count == 0: the warning is still written when bytes of this file were", fn=f)
    else:
        r.bad("warn|printed", "write_binary_message writes nothing whenever match_count == 0: a traversed file whose context or "
              "--passthru lines were already printed is cut off at the NUL without the warning (`rg --passthru foo dir` prints "
              "`dir/g-xy` and stops silently)", fn=f, construct="warning")

def run(ctx):
    facts = ctx.facts
    with ctx.rule("C14.LINES", "every delivered line passes detect_binary under self.binary (shared with C03.DELIVER)", floor=2,
                  kind="PASS") as r:
        for f, dc in c03.siblings(facts):
            eb = ExprBuilder(f)
            db = f.calls_to(CORE + "::detect_binary")
            sw = cond_switches(f, lambda e: W.field_of(e, CORE, "binary"), eb)
            if db and sw and not C.all_paths_pass(f, [0], {db[0].bb}, [dc.bb], removed_edges={s_[2] for s_ in sw}):
                s = seed_after_call(f, db[0], V("Ok", I(1)))
                if dc.bb in s.exec_blocks:
                    r.bad(f.name, "%s delivers the line although detect_binary asked to quit" % f.name, fn=f, loc=dc.loc)
                else:
                    r.ok(f.name, "binary check precedes delivery and its quit answer stops it", fn=f)
            else:
                r.bad(f.name, "%s can deliver a line without the binary check" % f.name, fn=f, construct="detect_binary")

    with ctx.rule("C14.DETECT", "detect_binary scans the whole given range unless an offset is already known or detection is off",
                  floor=2, kind="PASS") as r:
        f = facts.fn(CORE + "::detect_binary")
        eb = ExprBuilder(f)
        fb = f.calls_to(FIND_BYTE)
        known = cond_switches(f, lambda e: is_call(e, "core::option::Option::is_some") and mentions_field(e, CORE, "binary_byte_offset"), eb)
        arms, info = W.variant_arms(f, eb, lambda e: mentions_field(e, "grep_searcher::searcher::BinaryDetection", "0") or
                                    mentions_field(e, "grep_searcher::searcher::Config", "binary"))
        bd = [i for i in info if i[1] == LBD]
        if not fb or not known or not bd:
            r.bad("shape", "anchor-missing: detect_binary (find_byte %d, offset-known test %d, mode match %d)" % (len(fb), len(known), len(bd)), fn=f)
        else:
            # value table over (offset already known, detection mode): with no offset known and detection on, no way out
            # avoids the scan
            from ..flow import always_after
            esc = []
            for mode in ("Quit", "Convert"):
                def fm(owner, name, mode=mode):
                    if owner == CORE and name == "binary_byte_offset":
                        return V("None", None)
                    if owner == "grep_searcher::searcher::BinaryDetection" and name == "0":
                        return V(mode, I(0))
                    return None
                if not always_after(f, [c.bb for c in fb], f.return_blocks(), field_model=fm):
                    esc.append(mode)
            if esc:
                r.bad("scan", "detect_binary can return without scanning the range although no binary offset is known and detection "
                      "is on (%s): a NUL in a delivered line would reach the printer" % ", ".join(esc), fn=f, construct="scan")
            else:
                r.ok("scan", "every path scans unless (offset already known) or (detection None)", fn=f)
            hay = eb.operand(fb[0].args[0])
            idx = [x for x in walk(hay) if is_call(x, "core::ops::index::Index::index")]
            okh = len(idx) == 1 and any(y.k == "arg" and y[2] == "buf" for y in walk(idx[0][3][0])) and \
                any(y.k == "arg" and y[2] == "range" for y in walk(idx[0][3][1]))
            if okh:
                r.ok("range", "the scan covers buf[*range] (the whole delivered range)", fn=f)
            else:
                r.bad("range", "detect_binary scans `%s`, not buf[*range]" % show(hay)[:80], fn=f, construct="scan")
            # a found byte records the offset and notifies the sink
            s = seed_after_call(f, fb[0], V("Some", None))
            wrote = any(st["k"] == "assign" and (CORE, "binary_byte_offset") in fields_of_place(st["place"])
                        for bb, j, st in f.stmts() if bb in s.exec_blocks)
            told = any(c.bb in s.exec_blocks for c in f.calls_to(CORE + "::binary_data"))
            if wrote and told:
                r.ok("found", "found ⇒ offset recorded and Sink::binary_data notified", fn=f)
            else:
                r.bad("found", "a found NUL is not recorded / reported to the sink", fn=f, construct="found")

    with ctx.rule("C14.SNIFF", "prefix sniff dominates the slice search loops; Core::new binary constants", floor=6,
                  kind="DOM/A3") as r:
        for ty, loopcall in (("SliceByLine", CORE + "::match_by_line"), ("MultiLine", GLUE + "::MultiLine::sink")):
            f = facts.fn("%s::%s::run" % (GLUE, ty))
            db = f.calls_to(CORE + "::detect_binary")
            lc = f.calls_to(loopcall)
            if not db or not lc:
                r.bad("%s|shape" % ty, "anchor-missing: %s::run must call detect_binary and %s" % (ty, loopcall), fn=f)
                continue
            if not C.dominates(f, db[0].bb, lc[0].bb):
                r.bad("%s|sniff" % ty, "%s::run searches before sniffing the prefix for binary data" % ty, fn=f, construct="sniff")
                continue
            s = seed_after_call(f, db[0], V("Ok", I(1)))
            if lc[0].bb in s.exec_blocks:
                r.bad("%s|sniff" % ty, "%s::run searches although the prefix sniff asked to quit" % ty, fn=f, construct="sniff")
            else:
                r.ok("%s|sniff" % ty, "sniff dominates the loop; quit ⇒ loop skipped", fn=f)
            eb = ExprBuilder(f)
            rng = eb.operand(db[0].args[2])
            if mentions_call(rng, "core::cmp::min", "core::cmp::Ord::min"):
                r.ok("%s|range" % ty, "sniffed prefix = min(len, DEFAULT_BUFFER_CAPACITY)", fn=f)
            else:
                r.bad("%s|range" % ty, "the sniffed prefix is `%s`" % show(rng)[:80], fn=f)
        for ty, want in (("SliceByLine", 1), ("MultiLine", 1), ("ReadByLine", 0)):
            f = facts.fn("%s::%s::new" % (GLUE, ty))
            cn = f.calls_to(CORE + "::new")
            if len(cn) == 1 and (op_const(cn[0].args[3]) or {}).get("val") == want:
                r.ok("%s|core-binary" % ty, "Core::new(.., binary = %s)" % bool(want), fn=f)
            else:
                r.bad("%s|core-binary" % ty, "%s builds its core with the wrong per-line binary flag" % ty, fn=f, construct="binary")
        cn = facts.fn(CORE + "::new")
        ebn = ExprBuilder(cn)
        agg = [st for bb, j, st in cn.stmts() if st["k"] == "assign" and st["rv"]["k"] == "agg" and st["rv"].get("adt") == CORE]
        if agg:
            rv = agg[0]["rv"]
            e = ebn.operand(rv["ops"][rv["fields"].index("binary")])
            if e.k == "arg" and e[2] == "binary":
                r.ok("core|binary-field", "Core.binary = the constructor argument", fn=cn)
            else:
                r.bad("core|binary-field", "Core.binary is initialised from `%s`" % show(e), fn=cn)
        else:
            r.bad("core|binary-field", "anchor-missing: Core literal", fn=cn)

    with ctx.rule("C14.BUFFER", "roll buffer: quit truncates before exposing, convert replaces with the terminator", floor=6,
                  kind="DOM/A3/GUARD") as r:
        buffer_rule(ctx, r)

    with ctx.rule("C14.PRINT", "printers: no line output after binary data in convert mode; notice iff offset; begin resets",
                  floor=8, kind="GUARD") as r:
        print_rule(ctx, r)

    with ctx.rule("C14.WARN", "a traversed file that is cut off at binary data after lines of it were printed gets the warning, "
                  "whether those lines were matches or context", floor=1, kind="A3") as r:
        warn_rule(ctx, r)

    with ctx.rule("C14.MODE", "detection-mode tables; explicit never quit; installed before any search", floor=10,
                  exhaustive=True, kind="TRUTH/DOM/NOFLOW") as r:
        mode_rule(ctx, r)


def buffer_rule(ctx, r):
    facts = ctx.facts
    f = facts.fn(LB + "::fill")
    eb = ExprBuilder(f)
    arms, info = W.variant_arms(f, eb, lambda e: mentions_field(e, LBC, "binary"))
    bd = [i for i in info if i[1] == LBD]
    if not bd or "Quit" not in arms or "Convert" not in arms:
        r.bad("arms", "anchor-missing: LineBuffer::fill must match on BinaryDetection::{Quit,Convert}", fn=f)
        return
    hdrs = {h for _, h in C.back_edges(f)}
    # Quit arm
    qregion = C.reach(f, [arms["Quit"]], stop_blocks=hdrs)
    fb = [c for c in f.calls_to(FIND_BYTE) if c.bb in qregion]
    if not fb:
        r.bad("quit|find", "the Quit arm does not look for the binary byte", fn=f)
    else:
        # (the mode is Quit wherever it is asked again after the scan — `if self.config.binary.is_quit()`)
        from ..flow import combinator_model as _cmq
        fmq = lambda o_, n_: V("Quit", I(0)) if (o_ == LBC and n_ == "binary") else None
        s = seed_after_call(f, fb[0], V("Some", None), stop_blocks=hdrs, field_model=fmq,
                            call_model=_cmq(facts, None, field_model=fmq, callees=lambda p_: p_.startswith(LBD + "::")))
        w = {}
        for bb, j, st in f.stmts():
            if bb in s.exec_blocks and st["k"] == "assign":
                for o, fl in fields_of_place(st["place"]):
                    if o == LB:
                        w[fl] = eb.rvalue(st["rv"])
        rets = [b for b in s.exec_blocks if f.blocks[b]["term"]["k"] == "return"]
        reads = [c for c in f.calls_to("std::io::Read::read") if c.bb in s.exec_blocks]
        missing = [x for x in ("end", "last_lineterm", "binary_byte_offset") if x not in w]
        if missing or not rets or reads or any(b in hdrs for b in s.exec_blocks if f.succ(b)):
            r.bad("quit|truncate", "on a NUL in quit mode LineBuffer::fill %s" % (
                ("does not update %s" % missing) if missing else "keeps reading instead of returning"), fn=f, loc=fb[0].loc,
                construct="quit")
        elif not mentions_call(w["end"], FIND_BYTE):
            r.bad("quit|truncate", "`end` is set to `%s`, not to the position of the binary byte: the byte stays visible in buffer()"
                  % show(w["end"])[:80], fn=f, loc=fb[0].loc, construct="quit")
        elif not mentions_field(w["last_lineterm"], LB, "end") and not mentions_call(w["last_lineterm"], FIND_BYTE):
            r.bad("quit|truncate", "`last_lineterm` is not cut back to the truncated end", fn=f, construct="quit")
        else:
            r.ok("quit|truncate", "NUL found ⇒ end/last_lineterm cut at the byte, offset recorded, return", fn=f)
    # the bytes searched are the new bytes
    if fb:
        hay = eb.operand(fb[0].args[0])
        if any(is_call(x, "core::ops::index::IndexMut::index_mut", "core::ops::index::Index::index") for x in walk(hay)) and \
                mentions_field(hay, LB, "buf"):
            r.ok("quit|newbytes", "detection runs over the bytes just read", fn=f)
        else:
            r.bad("quit|newbytes", "binary detection searches `%s`" % show(hay)[:80], fn=f)
    # Convert arm
    cregion = C.reach(f, [arms["Convert"]], stop_blocks=hdrs)
    rb = [c for c in f.calls_to("grep_searcher::line_buffer::replace_bytes") if c.bb in cregion]
    if not rb:
        r.bad("convert|replace", "the Convert arm does not call replace_bytes", fn=f)
    else:
        a1, a2 = eb.operand(rb[0].args[1]), eb.operand(rb[0].args[2])
        if any(x.k == "dc" and x[2] == "Convert" for x in walk(a1)) and mentions_field(a2, LBC, "lineterm"):
            r.ok("convert|replace", "replace_bytes(new bytes, convert byte, config.lineterm)", fn=f)
        else:
            r.bad("convert|replace", "replace_bytes is called with (%s, %s)" % (show(a1)[:40], show(a2)[:40]), fn=f, construct="convert")
    # early return
    roll = f.calls_to(LB + "::roll")
    q = cond_switches(f, lambda e: is_call(e, LBD + "::is_quit"), eb)
    o = cond_switches(f, lambda e: is_call(e, "core::option::Option::is_some") and mentions_field(e, LB, "binary_byte_offset"), eb)
    early = [b for b in f.return_blocks()]
    pre = [bb for bb, j, st in f.stmts() if st["k"] == "assign" and st["place"]["l"] == 0 and roll and
           not C.dominates(f, roll[0].bb, bb) and bb not in C.reach_after(f, roll[0].bb)]
    if roll and q and o and pre and not guarded(f, pre, q, True) and not guarded(f, pre, o, True):
        r.ok("early-return", "refill skipped only under quit mode ∧ binary offset already seen", fn=f)
    else:
        r.bad("early-return", "LineBuffer::fill can skip refilling without (quit mode ∧ binary data seen)", fn=f, construct="early")
    g = facts.fn(GLUE + "::ReadByLine::fill")
    # value table over the reader's refill step (a helper such as should_binary_quit is evaluated in place): binary data
    # seen ∧ quit mode ⇒ the step says stop; otherwise a successful read lets the search go on
    from ..flow import table, ret_set
    RD = "grep_searcher::line_buffer::LineBufferReader"
    stop_bad, go_bad = [], []
    for row, sx in table(facts, g, calls={RD + "::binary_byte_offset": [V("None", None), V("Some", I(5))],
                                          "BinaryDetection::quit_byte": [V("None", None), V("Some", I(0))],
                                          RD + "::fill": [V("Ok", I(1))]},
                         callees=lambda p_: p_.startswith(GLUE + "::ReadByLine::")):
        off = row[("call", RD + "::binary_byte_offset")][1] == "Some"
        quit_ = row[("call", "BinaryDetection::quit_byte")][1] == "Some"
        rets = set()
        for v in ret_set(sx):
            if v is not None and v[0] == "v" and v[2] is not None and v[2][0] == "s":
                rets |= {V(v[1], y) for y in v[2][1]}
            else:
                rets.add(v)
        cont = {v for v in rets if v is None or (v[0] == "v" and v[1] == "Ok" and v[2] != I(0))}
        if off and quit_ and cont:
            stop_bad.append("offset seen ∧ quit mode ⇒ %s" % sorted(map(str, cont)))
        if not (off and quit_) and V("Ok", I(1)) not in rets and None not in rets and V("Ok", None) not in rets:
            go_bad.append("offset %s, quit mode %s ⇒ %s" % (off, quit_, sorted(map(str, rets))))
    if not g.calls_to(RD + "::binary_byte_offset") and not any(c.callee.startswith(GLUE + "::ReadByLine::") for c in g.calls()):
        r.bad("reader|quit", "anchor-missing: ReadByLine::fill no longer asks the reader for its binary offset", fn=g)
    elif stop_bad:
        r.bad("reader|quit", "ReadByLine::fill continues after binary data in quit mode (%s)" % "; ".join(stop_bad)[:140], fn=g)
    else:
        r.ok("reader|quit", "binary data seen ∧ quit mode ⇒ Ok(false)", fn=g)
    if go_bad:
        r.bad("reader|should_quit", "ReadByLine::fill stops a search that must go on: %s" % "; ".join(go_bad)[:160], fn=g)
    else:
        r.ok("reader|should_quit", "a successful read continues unless (offset seen ∧ quit mode)", fn=g)


PR = "grep_printer"


def print_rule(ctx, r):
    facts = ctx.facts
    STD = PR + "::standard::StandardSink"
    # value tables over (binary offset seen, convert mode[, match_count]): what is printed and what the search is told
    from ..flow import table, ret_set

    def rows_of(f):
        for row, sx in table(facts, f, fields={(STD, "binary_byte_offset"): [V("None", None), V("Some", I(5))],
                                               (STD, "match_count"): [I(0), I(2)]},
                             calls={"BinaryDetection::convert_byte": [V("None", None), V("Some", I(0))]}):
            seen = row[("field", (STD, "binary_byte_offset"))][1] == "Some"
            conv = row[("call", "BinaryDetection::convert_byte")][1] == "Some"
            cnt = row[("field", (STD, "match_count"))][1]
            rets = set()
            for v in ret_set(sx):
                if v is not None and v[0] == "v" and v[1] == "Err":
                    continue
                if v is not None and v[0] == "v" and v[2] is not None and v[2][0] == "s":
                    rets |= {V(v[1], y) for y in v[2][1]}
                else:
                    rets.add(v)
            yield seen and conv, cnt, rets, sx
    for m in ("matched", "context"):
        f = facts.fn("<%s as %s>::%s" % (STD, SINK, m))
        sk = f.calls_to(PR + "::standard::StandardImpl::sink")
        if not sk or not f.calls_to("grep_searcher::searcher::BinaryDetection::convert_byte"):
            r.bad("standard|%s" % m, "StandardSink::%s: convert-mode guard missing (sink %d, convert test %d)"
                  % (m, len(sk), len(f.calls_to("grep_searcher::searcher::BinaryDetection::convert_byte"))), fn=f, construct="convert-guard")
            continue
        printed, silent, told = [], [], []
        for hidden, cnt, rets, sx in rows_of(f):
            shown = any(c.bb in sx.exec_blocks for c in sk)
            if hidden and shown:
                printed.append(cnt)
            if not hidden and not shown:
                silent.append(cnt)
            if hidden:
                # a matching line after binary data: counted, not printed, and the search stops; a context line is not printed
                # either, but it may not end the search while no line has matched ("yields no notice and no match only if no
                # line of it matches" — the notice needs match_count > 0)
                want = {V("Ok", I(0))} if m == "matched" else {V("Ok", I(1 if cnt == 0 else 0))}
                if rets != want:
                    told.append("match_count=%d ⇒ %s" % (cnt, sorted(map(str, rets))))
        if printed:
            r.bad("standard|%s" % m, "StandardSink::%s can print a line after binary data was seen in convert mode" % m, fn=f,
                  loc=sk[0].loc, construct="convert-guard")
        elif silent:
            r.bad("standard|%s" % m, "StandardSink::%s withholds lines although no binary data was seen / not in convert mode" % m, fn=f,
                  loc=sk[0].loc, construct="convert-guard")
        elif told and m == "matched":
            r.bad("standard|%s" % m, "the convert-mode guard of StandardSink::%s returns %s" % (m, "; ".join(told)[:100]), fn=f)
        elif told:
            r.bad("standard|%s" % m, "StandardSink::context ends the search as soon as a context line follows binary data in convert "
                  "mode, whether or not a line has matched yet: with -B/-C/--passthru an explicitly named binary file that has a "
                  "matching line gets neither its 'binary file matches' notice nor exit status 0 (%s)" % "; ".join(told)[:100],
                  fn=f, construct="convert-guard")
        elif m == "matched":
            r.ok("standard|%s" % m, "convert ∧ offset seen ⇒ Ok(false) before StandardImpl::sink", fn=f)
        else:
            r.ok("standard|%s" % m, "convert ∧ offset seen ⇒ not printed; the search stops only once a match was counted", fn=f)
    # the separator between context groups is output too: not after binary data in convert mode
    cb = facts.fn("<%s as %s>::context_break" % (STD, SINK))
    ws = [c for c in cb.calls() if c.path.endswith("write_context_separator")]
    bad_cb = [1 for hidden, cnt, rets, sx in rows_of(cb) if hidden and any(c.bb in sx.exec_blocks for c in ws)]
    lost_cb = [1 for hidden, cnt, rets, sx in rows_of(cb) if not hidden and not any(c.bb in sx.exec_blocks for c in ws)]
    if ws and not bad_cb and not lost_cb:
        r.ok("standard|context_break", "no context separator after binary data in convert mode", fn=cb)
    elif ws and lost_cb and not bad_cb:
        r.bad("standard|context_break", "StandardSink::context_break withholds `--` although nothing hides the lines around it", fn=cb,
              construct="convert-guard")
    else:
        r.bad("standard|context_break", "StandardSink::context_break writes `--` even after binary data was seen in convert mode: a file "
              "that only gets a notice (or nothing) still emits separators", fn=cb, construct="convert-guard")
    f = facts.fn("<%s as %s>::finish" % (STD, SINK))
    eb = ExprBuilder(f)
    wb = f.calls_to(PR + "::standard::StandardImpl::write_binary_message")
    if wb and W.guard_variant(f, eb, [wb[0].bb], lambda e: mentions_field(e, STD, "binary_byte_offset"), "Some"):
        # and it is always written when Some: every path from the Some edge to return passes the call
        arms, info = W.variant_arms(f, eb, lambda e: mentions_field(e, STD, "binary_byte_offset"))
        esc = C.all_paths_pass(f, [arms["Some"]], {wb[0].bb}, f.return_blocks()) if "Some" in arms else [1]
        errs = {c.bb for c in f.calls() if c.is_("core::ops::try_trait::FromResidual::from_residual")}
        if esc:
            r.bad("standard|finish", "a recorded binary offset does not always produce the 'binary file matches' notice", fn=f)
        else:
            r.ok("standard|finish", "binary notice ⇔ binary_byte_offset is Some", fn=f)
    else:
        r.bad("standard|finish", "the binary notice is not tied to binary_byte_offset", fn=f)
    SUM = PR + "::summary::SummarySink"
    f = facts.fn("<%s as %s>::finish" % (SUM, SINK))
    eb = ExprBuilder(f)
    # value table over (binary offset seen, quit mode): seen ∧ quit ⇒ the count is squashed to 0 and nothing is written;
    # otherwise the writes stay reachable
    writes_all = [c for c in f.calls() if c.path.startswith(SUM + "::write")]
    if not writes_all or not f.calls_to("grep_searcher::searcher::BinaryDetection::quit_byte"):
        r.bad("summary|finish", "SummarySink::finish: binary guard missing", fn=f, construct="summary-binary")
    else:
        bad_sq, bad_keep = [], []
        for row, sx in table(facts, f, fields={(SUM, "binary_byte_offset"): [V("None", None), V("Some", I(5))]},
                             calls={"BinaryDetection::quit_byte": [V("None", None), V("Some", I(0))]}):
            seen = row[("field", (SUM, "binary_byte_offset"))][1] == "Some"
            quit_ = row[("call", "BinaryDetection::quit_byte")][1] == "Some"
            wrote = [c for c in writes_all if c.bb in sx.exec_blocks]
            zero = [st for bb, j, st in f.stmts() if bb in sx.exec_blocks and st["k"] == "assign" and
                    (SUM, "match_count") in fields_of_place(st["place"]) and (op_const(st["rv"].get("a", {})) or {}).get("val") == 0]
            if seen and quit_ and (wrote or not zero):
                bad_sq.append("writes %d, squashed %s" % (len(wrote), bool(zero)))
            if not (seen and quit_) and not wrote:
                bad_keep.append("seen=%s quit=%s" % (seen, quit_))
        if bad_sq:
            r.bad("summary|finish", "SummarySink::finish can write a count/path for a file dropped by binary detection (%s)" % bad_sq[0], fn=f,
                  construct="summary-binary")
        elif bad_keep:
            r.bad("summary|finish", "SummarySink::finish withholds its output although the file was not dropped (%s)" % bad_keep[0], fn=f,
                  construct="summary-binary")
        else:
            r.ok("summary|finish", "binary ∧ quit ⇒ match_count = 0, return before any write", fn=f)
    for name, adt in (("standard", STD), ("json", PR + "::json::JSONSink"), ("summary", SUM)):
        b = facts.fn("<%s as %s>::begin" % (adt, SINK))
        _, w, _ = field_rw(b)
        if (adt, "binary_byte_offset") in w:
            r.ok("%s|begin" % name, "begin resets binary_byte_offset", fn=b)
        else:
            r.bad("%s|begin" % name, "%s sink does not reset binary_byte_offset in begin: a notice would leak to the next file" % name,
                  fn=b, construct="begin")
    # (the JSON sink takes the offset from SinkFinish instead; only the standard sink needs it mid-search)
    for name, adt in (("standard", STD),):
        b = facts.fn("<%s as %s>::binary_data" % (adt, SINK))
        _, w, _ = field_rw(b)
        if (adt, "binary_byte_offset") in w:
            r.ok("%s|binary_data" % name, "binary_data records the offset", fn=b)
        else:
            r.bad("%s|binary_data" % name, "%s sink ignores binary_data" % name, fn=b)


def mode_rule(ctx, r):
    facts = ctx.facts
    BD = "rg::flags::hiargs::BinaryDetection"
    f = facts.fn(BD + "::from_low_args")
    # Value table on the MIR: rows (low.binary ∈ BinaryMode, low.null_data ∈ {0,1}); the three constructors of the searcher's
    # BinaryDetection answer with their own name; the outcome is what the BinaryDetection value is built from.
    from ..flow import table
    LOW_ = "rg::flags::lowargs::LowArgs"
    BM = "rg::flags::lowargs::BinaryMode"
    G = "grep_searcher::searcher::BinaryDetection::"
    aggs = [(bb, st_) for bb, j_, st_ in f.stmts() if st_["k"] == "assign" and st_["rv"]["k"] == "agg" and st_["rv"].get("adt") == BD]
    if not aggs or any(set(a_[1]["rv"].get("fields", [])) != {"explicit", "implicit"} for a_ in aggs):
        r.bad("from_low_args", "anchor-missing: BinaryDetection literal", fn=f)
    else:
        modes = facts.variants(BM)
        rows_ok = {"none": True, "convert": True}
        for row, sx in table(facts, f, fields={(LOW_, "binary"): [V(m_, None) for m_ in modes], (LOW_, "null_data"): [I(0), I(1)]},
                             calls={G + "none": [V("none", None)], G + "convert": [V("convert", None)], G + "quit": [V("quit", None)]}):
            mode = row[("field", (LOW_, "binary"))][1]
            nd = row[("field", (LOW_, "null_data"))][1]
            none = mode == "AsText" or bool(nd)
            conv = mode == "SearchAndSuppress"
            built = set()
            for bb0, st0 in aggs:
                if bb0 not in sx.exec_blocks:
                    continue
                # replay the block up to the literal
                env_ = dict(sx.env_in.get(bb0, {}))
                for st_ in f.blocks[bb0]["stmts"]:
                    if st_ is st0:
                        break
                    if st_["k"] == "assign":
                        sx._write(env_, place_key(st_["place"]), sx._rvalue(env_, st_["rv"]))
                got = {fl: sx._operand(env_, op_) for fl, op_ in zip(st0["rv"]["fields"], st0["rv"]["ops"])}
                built.add((got["explicit"][1] if got.get("explicit") and got["explicit"][0] == "v" else None,
                           got["implicit"][1] if got.get("implicit") and got["implicit"][0] == "v" else None))
            ex, im = next(iter(built)) if len(built) == 1 else (None, None)
            wex = "none" if none else "convert"
            wim = "none" if none else ("convert" if conv else "quit")
            key = "table|binary=%s,null_data=%d" % (mode, nd)
            if ex == wex and im == wim:
                r.ok(key, "explicit=%s implicit=%s" % (ex, im), fn=f)
            else:
                r.bad(key, "detection for --binary mode %s, --null-data %s is explicit=%s implicit=%s (specified %s / %s)"
                      % (mode, bool(nd), ex, im, wex, wim), fn=f, construct="table")
                if (ex == "none") != none or (im == "none") != none:
                    rows_ok["none"] = False
                if (im == "convert") != (conv and not none):
                    rows_ok["convert"] = False
            if ex == "quit":
                r.bad("explicit-quit", "an explicitly named file can be dropped by binary detection (explicit = quit)", fn=f)
        if rows_ok["none"]:
            r.ok("none", "none ≡ --text ∨ --null-data", fn=f)
        else:
            r.bad("none", "detection is no longer off exactly under AsText ∨ null_data", fn=f, construct="none")
        if rows_ok["convert"]:
            r.ok("convert", "convert ≡ --binary", fn=f)
        else:
            r.bad("convert", "implicit detection is no longer `convert` exactly under SearchAndSuppress", fn=f)
    perfile_rule(ctx, r)
    g = facts.fn("grep_searcher::searcher::Searcher::set_binary_detection")
    _, w, _ = field_rw(g)
    if ("grep_searcher::searcher::Config", "binary") in w and g.calls_to(LB + "::set_binary_detection"):
        r.ok("searcher|both", "set_binary_detection updates the config and the roll buffer", fn=g)
    else:
        r.bad("searcher|both", "Searcher::set_binary_detection does not update both the config and the line buffer", fn=g,
              construct="both")
    h = facts.fn(HI + "::search_worker")
    ebh = ExprBuilder(h)
    SWB = "rg::search::SearchWorkerBuilder"
    for which in ("explicit", "implicit"):
        cs = h.calls_to(SWB + "::binary_detection_" + which)
        if len(cs) == 1 and mentions_field(ebh.operand(cs[0].args[1]), "rg::flags::hiargs::BinaryDetection", which) and \
                not mentions_field(ebh.operand(cs[0].args[1]), "rg::flags::hiargs::BinaryDetection",
                                   "implicit" if which == "explicit" else "explicit"):
            r.ok("wire|" + which, "binary_detection_%s(self.binary.%s)" % (which, which), fn=h)
        else:
            r.bad("wire|" + which, "binary_detection_%s is not wired to self.binary.%s" % (which, which), fn=h, construct=which)
    for which in ("explicit", "implicit"):
        b = facts.fn(SWB + "::binary_detection_" + which)
        _, w, _ = field_rw(b)
        if w & {(SC, "binary_explicit"), (SC, "binary_implicit")} == {(SC, "binary_" + which)}:
            r.ok("setter|" + which, "writes config.binary_%s" % which, fn=b)
        else:
            r.bad("setter|" + which, "binary_detection_%s writes %s" % (which, sorted(x[1] for x in w)), fn=b, construct=which)
    m = facts.fn(HI + "::matcher_rust")
    ebm = ExprBuilder(m)
    bb_ = m.calls_to("grep_regex::matcher::RegexMatcherBuilder::ban_byte")
    if len(bb_) == 1 and W.is_some_const(ebm.operand(bb_[0].args[1]), 0) and \
            W.guard_cond(m, ebm, [bb_[0].bb], lambda e: mentions_call(e, "rg::flags::hiargs::BinaryDetection::is_none"), False):
        r.ok("ban", "ban_byte(Some(NUL)) iff detection is not none", fn=m)
    else:
        r.bad("ban", "NUL is not banned from patterns exactly when binary detection is on", fn=m, construct="ban")


class _NoInline:
    """LetEnv wrapper that keeps the named locals as atoms."""

    def __init__(self, env, names):
        self.env = env
        self.names = names

    def init_of(self, local, any_type=False):
        if local.get("name") in self.names:
            return None
        return self.env.init_of(local, any_type)


def perfile_rule(ctx, r):
    """Per-file state: the detection mode is chosen and installed for EVERY haystack before it is searched
    (a reused per-thread searcher must not carry the previous file's mode)."""
    facts = ctx.facts
    # SearchWorker::search
    s = facts.fn(SW + "::search")
    eb = ExprBuilder(s)
    sbd = s.calls_to("grep_searcher::searcher::Searcher::set_binary_detection")
    searches = [c for c in s.calls() if c.path in (SW + "::search_reader", SW + "::search_preprocessor",
                                                   SW + "::search_decompress", SW + "::search_path")]
    if len(sbd) == 1 and len(searches) == 4 and all(C.dominates(s, sbd[0].bb, c.bb) for c in searches):
        r.ok("search|installed", "set_binary_detection dominates the 4 search calls", fn=s)
    else:
        r.bad("search|installed", "a search can start before the per-file binary detection is installed", fn=s, construct="install")
    SC = "rg::search::Config"
    ex_sites = [bb for bb, j, st in s.stmts() if st["k"] == "assign" and st["rv"]["k"] in ("ref",) and
                (SC, "binary_explicit") in fields_of_place(st["rv"]["place"])]
    im_sites = [bb for bb, j, st in s.stmts() if st["k"] == "assign" and st["rv"]["k"] in ("ref",) and
                (SC, "binary_implicit") in fields_of_place(st["rv"]["place"])]
    ie = cond_switches(s, lambda e: is_call(e, "rg::haystack::Haystack::is_explicit"), eb)
    if ie and ex_sites and im_sites and not guarded(s, ex_sites, ie, True) and not guarded(s, im_sites, ie, False):
        r.ok("search|choice", "explicit detection iff haystack.is_explicit()", fn=s)
    else:
        r.bad("search|choice", "the detection mode is not chosen by is_explicit()", fn=s, construct="choice")
