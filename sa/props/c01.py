"""C01 — a line is reported iff the pattern matches that line (plumbing around the regex engine)."""
import itertools
from .. import cfg as C
from .. import hirx as H
from ..flow import ExprBuilder, mentions_field, mentions_call, is_call, is_field, walk, show, cond_switches, \
    guarded, seed_after_call, Sccp, I, V, X, strip, value_set
from ..graph import field_rw, discr_switches
from ..facts import op_const, op_place, fields_of_place
from .. import wire as W

TITLE = "line-mode plumbing"
EXPLANATION = (
    "Structural necessary conditions of C01 on the MIR/HIR of grep-searcher, grep-regex and rg (the regex engine and "
    "the soundness of literal extraction are not decided; C11 covers their structural half): (STRIP) every per-line "
    "matcher call receives a lines::without_terminator result computed with the configured terminator; (VERIFY) a "
    "candidate line is returned only on the true edge of is_match and the false edge resumes after that line; "
    "(FASTGATE) the fast path is admitted only when the matcher's terminator equals the searcher's and is not NUL, or "
    "the terminator byte is in non_matching_bytes, never under passthru, and SwitchToSlow falls to the slow path; "
    "(INVERT) success = matched XOR invert; (WIRE) CLI → RegexMatcherBuilder / SearcherBuilder wiring tables; (WRAP) "
    "word / whole-line wrapping tables and the smart-case truth table; (STRIPHIR) strip_from_match whenever a "
    "terminator is configured, literal path only without terminators in the patterns, and the matcher stores the "
    "effective terminator.")
NOT_DECIDED = ["correctness of literal prefiltering, of the regex engine and of smart-case analysis for all patterns",
               "the CRLF fast-path empty match between CR and LF (value-level, a known behavioural defect not visible structurally)"]

CORE = "grep_searcher::searcher::core::Core"
SCFG = "grep_searcher::searcher::Config"
MATCHER = "grep_matcher::Matcher"
WT = "grep_searcher::lines::without_terminator"
HI = "rg::flags::hiargs::HiArgs"
RB = "grep_regex::matcher::RegexMatcherBuilder"
RCFG = "grep_regex::config::Config"
CHIR = "grep_regex::config::ConfiguredHIR"


def strip_rule(ctx, r):
    facts = ctx.facts
    for fname, meth in ((CORE + "::match_by_line_slow", "shortest_match"), (CORE + "::find_by_line_fast", "is_match")):
        f = facts.fn(fname)
        eb = ExprBuilder(f)
        cs = [c for c in f.calls() if c.func.get("trait") == MATCHER and c.func["name"] == meth]
        if not cs:
            r.bad("%s|%s" % (fname, meth), "anchor-missing: no Matcher::%s call in %s" % (meth, fname), fn=f)
            continue
        # no other per-line search call may exist in these functions
        others = [c for c in f.calls() if c.func.get("trait") == MATCHER and c.func["name"] in
                  ("find", "find_at", "is_match", "is_match_at", "shortest_match", "shortest_match_at", "captures")
                  and c not in cs]
        for i, c in enumerate(cs + others):
            hay = eb.operand(c.args[1])
            wt = [x for x in walk(hay) if is_call(x, WT)]
            key = "%s|Matcher::%s|%d" % (fname, c.func["name"], i)
            if not wt:
                r.bad(key, "Matcher::%s at %s is given `%s`, not a terminator-stripped line: patterns such as (?m)^$ "
                      "would match after the terminator" % (c.func["name"], c.loc, show(hay)), fn=f, loc=c.loc,
                      construct="Matcher::" + c.func["name"])
                continue
            term = wt[0][3][1]
            if not mentions_field(term, SCFG, "line_term"):
                r.bad(key, "without_terminator at %s strips `%s`, not config.line_term" % (c.loc, show(term)), fn=f, loc=c.loc)
                continue
            r.ok(key, "haystack = without_terminator(.., config.line_term)", fn=f)


def strip_helper_rule(ctx, r):
    """lines::without_terminator strips exactly the full terminator sequence, and only when the line ends with it."""
    facts = ctx.facts
    f = facts.fn(WT)
    eb = ExprBuilder(f)
    AB = "grep_matcher::LineTerminator::as_bytes"
    eqs = cond_switches(f, lambda e: is_call(e, "core::cmp::PartialEq::eq") and mentions_call(e, AB), eb)
    if not eqs and strip_suffix_spelling(ctx, r, f, eb, AB):
        eqs = None
    elif not eqs:
        r.bad("helper|test", "without_terminator no longer compares the line's tail with the whole terminator sequence "
              "(LineTerminator::as_bytes): with CRLF a line ending in a bare LF would lose content bytes", fn=f, construct="without_terminator")
        return
    if eqs is None:
        as_bytes_rule(facts, r)
        return
    e = eqs[0][3]
    tail = [x for x in walk(e) if is_call(x, "[T]::get") or is_call(x, "core::ops::index::Index::index")]
    tail_ok = tail and any(y.k == "arg" and y[1] == 1 for y in walk(tail[0])) and \
        any(is_call(y, "usize::saturating_sub") or (y.k == "bin" and y[1] in ("Sub", "SubWithOverflow")) for y in walk(tail[0]))
    if tail_ok:
        r.ok("helper|test", "strips iff bytes[len - term.len()..] == term.as_bytes()", fn=f)
    else:
        r.bad("helper|test", "without_terminator's test is `%s`" % show(e)[:80], fn=f, construct="without_terminator")
    # true edge: bytes[..len - term.len()]; false edge: bytes unchanged
    st = Sccp(f).run([(eqs[0][1][1], {})])
    sf = Sccp(f).run([(eqs[0][2][1], {})])

    def ret_expr(sx):
        out = []
        for bb, j, s_ in f.stmts():
            if bb in sx.exec_blocks and s_["k"] == "assign" and s_["place"]["l"] == 0 and not s_["place"]["p"]:
                out.append(eb.rvalue(s_["rv"]))
        return out
    rt, rf = ret_expr(st), ret_expr(sf)
    ok_t = rt and all(any(is_call(y, "core::ops::index::Index::index") for y in walk(x)) and mentions_call(x, AB) and
                      any(y.k == "agg" and y[1].endswith("RangeTo") for y in walk(x)) for x in rt)
    # when the full sequence is not there: the line unchanged, except that under CRLF a bare LF (lines are split on LF
    # alone) is the terminator and goes as well — exactly one byte, and only behind is_crlf() ∧ last == LF
    unchanged = [x for x in rf if strip(x).k == "arg" and strip(x)[1] == 1]
    cut1 = [x for x in rf if x not in unchanged]
    crlf_sw = cond_switches(f, lambda e: is_call(e, "grep_matcher::LineTerminator::is_crlf"), eb)
    cut_ok = all(any(is_call(y, "core::ops::index::Index::index") for y in walk(x)) and
                 any(y.k == "bin" and y[1] in ("Sub", "SubWithOverflow") and any(W.const_val(a) == 1 for a in (y[2], y[3])) for y in walk(x))
                 for x in cut1)
    if ok_t and unchanged and cut_ok:
        r.ok("helper|result", "match ⇒ bytes[..len - term.len()]; otherwise the line unchanged (or minus one bare LF under CRLF)", fn=f)
    else:
        r.bad("helper|result", "without_terminator returns %s / %s" % ([show(x)[:40] for x in rt], [show(x)[:40] for x in rf]), fn=f,
              construct="without_terminator")
    # under CRLF the per-line paths cut lines at every LF; a line ending in a bare LF must lose it too, or `^$`-like
    # patterns see the LF on the slow path (which strips) but not on the fast path (which searches the buffer)
    blocks1 = [bb for bb, j, s_ in f.stmts() if s_["k"] == "assign" and s_["place"]["l"] == 0 and not s_["place"]["p"] and
               eb.rvalue(s_["rv"]) in cut1]
    lf = cond_switches(f, lambda e: (is_call(e, "core::cmp::PartialEq::eq") and any(x.k == "const" and (x[1] == 10 or "10_u8" in str(x[2]) or "\\n" in str(x[2])) for x in walk(e)))
                       or (e.k == "bin" and e[1] == "Eq" and any(W.const_val(a) == 10 for a in (e[2], e[3]))), eb)
    if cut1 and crlf_sw and lf and not guarded(f, blocks1, crlf_sw, True) and not guarded(f, blocks1, lf, True):
        r.ok("helper|crlf-lf", "CRLF ∧ line ends in a bare LF ⇒ that LF is stripped too", fn=f)
    elif cut1:
        r.bad("helper|crlf-lf", "without_terminator drops a single byte outside the is_crlf() ∧ last == LF case", fn=f,
              construct="without_terminator")
    else:
        r.bad("helper|crlf-lf", "under a CRLF terminator without_terminator leaves a bare LF on the line: the slow path then lets "
              "`^$`-like patterns match after it, the fast path does not (strategies and paths disagree)", fn=f,
              construct="without_terminator")
    as_bytes_rule(facts, r)


def strip_suffix_spelling(ctx, r, f, eb, AB):
    """The library spelling of the same function: bytes.strip_suffix(term.as_bytes()), else (CRLF only) bytes.strip_suffix("\n"),
    else bytes. `[T]::strip_suffix` is by definition 'ends with the whole sequence ⇒ the rest'; what is left to decide is what
    it is applied to, and which alternatives follow."""
    facts = ctx.facts
    SS = "[T]::strip_suffix"
    units = facts.with_closures(f.path)
    full, lf = [], []
    for g in units:
        ebg = ExprBuilder(g)
        for c in g.calls():
            if not c.is_(SS):
                continue
            a0, a1 = ebg.operand(c.args[0]), ebg.operand(c.args[1])
            on_line = any((y.k == "arg" and y[1] == 1) or (y.k == "field" and "bytes" in str(y)) for y in walk(a0))
            if on_line and mentions_call(a1, AB):
                full.append((g, c))
            elif on_line and any(y.k == "const" and y[2] and str(y[2]).strip('b"') in ("\\n",) for y in walk(a1)):
                lf.append((g, c))
            else:
                return False
    if len(full) != 1 or full[0][0] is not f:
        return False
    ret = eb.local(0)
    through = [x for x in walk(ret) if is_call(x, "core::option::Option::unwrap_or")]
    if not through:
        return strip_suffix_by_returns(ctx, r, f, eb, AB, full[0][1], lf)
    # the result is that strip's answer when there is one, the line itself when nothing applied
    if not any(is_call(y, SS) and mentions_call(y, AB) for y in walk(through[0][3][0])) or \
            not any(y.k == "arg" and y[1] == 1 for y in walk(through[0][3][1])):
        r.bad("helper|result", "without_terminator (strip_suffix spelling) does not fall back to the line itself: `%s`" % show(ret)[:100],
              fn=f, construct="without_terminator")
        return True
    r.ok("helper|test", "strips iff the line ends with term.as_bytes() ([T]::strip_suffix)", fn=f)
    r.ok("helper|result", "Some(rest) ⇒ rest; nothing applied ⇒ the line unchanged", fn=f)
    # the bare-LF alternative: only under is_crlf(), only "\n", and only after the full sequence did not apply (or_else)
    if not lf:
        r.bad("helper|crlf-lf", "under a CRLF terminator without_terminator leaves a bare LF on the line: the slow path then lets "
              "`^$`-like patterns match after it, the fast path does not (strategies and paths disagree)", fn=f,
              construct="without_terminator")
        return True
    ok = len(lf) == 1
    for g, c in lf:
        crlf_sw = cond_switches(g, lambda e: is_call(e, "grep_matcher::LineTerminator::is_crlf"), ExprBuilder(g))
        ok = ok and crlf_sw and not guarded(g, [c.bb], crlf_sw, True)
        if g is not f:
            ok = ok and any(is_call(y, "core::option::Option::or_else", "core::option::Option::or") and
                            any(z.k == "closure" and z[1] == g.path for z in walk(y)) and
                            any(is_call(z, SS) and mentions_call(z, AB) for z in walk(y[3][0])) for y in walk(ret))
        else:
            ok = ok and C.dominates(f, full[0][1].bb, c.bb)
    if ok:
        r.ok("helper|crlf-lf", "CRLF ∧ the full sequence is absent ∧ line ends in LF ⇒ that LF is stripped", fn=f)
    else:
        r.bad("helper|crlf-lf", "without_terminator drops a single byte outside the is_crlf() ∧ last == LF case", fn=f,
              construct="without_terminator")
    return True


def strip_suffix_by_returns(ctx, r, f, eb, AB, full, lf):
    """`if let Some(rest) = bytes.strip_suffix(term.as_bytes()) { return rest }` followed by explicit alternatives: every value
    the function returns is the full strip's payload, the line itself, or something cut shorter — and the latter only behind
    is_crlf() and a test for LF, after the full sequence was found absent."""
    SS = "[T]::strip_suffix"
    rets = [(bb, eb.rvalue(s_["rv"])) for bb, j, s_ in f.stmts()
            if s_["k"] == "assign" and s_["place"]["l"] == 0 and not s_["place"]["p"]]
    payload = [(bb, x) for bb, x in rets if any(is_call(y, SS) and mentions_call(y, AB) for y in walk(x))]
    same = [(bb, x) for bb, x in rets if (bb, x) not in payload and strip(x).k == "arg" and strip(x)[1] == 1]
    cut = [(bb, x) for bb, x in rets if (bb, x) not in payload and (bb, x) not in same]
    r.ok("helper|test", "strips iff the line ends with term.as_bytes() ([T]::strip_suffix)", fn=f)
    if payload and same:
        r.ok("helper|result", "Some(rest) ⇒ rest; nothing applied ⇒ the line unchanged", fn=f)
    else:
        r.bad("helper|result", "without_terminator returns %s" % [show(x)[:40] for _, x in rets], fn=f, construct="without_terminator")
    if not cut:
        r.bad("helper|crlf-lf", "under a CRLF terminator without_terminator leaves a bare LF on the line: the slow path then lets "
              "`^$`-like patterns match after it, the fast path does not (strategies and paths disagree)", fn=f,
              construct="without_terminator")
        return True
    crlf_sw = cond_switches(f, lambda e: is_call(e, "grep_matcher::LineTerminator::is_crlf"), eb)
    # an LF test in front of the cut: a byte compared / matched against 10, or a strip of "\n"
    lf_blocks = set(c.bb for g, c in lf if g is f)
    for i, b in enumerate(f.blocks):
        t = b["term"]
        if t["k"] == "switch" and any(v == 10 for v, _ in t.get("targets", []) if isinstance(v, int)):
            lf_blocks.add(i)
    for sw_ in cond_switches(f, lambda e: any(x.k == "const" and (x[1] == 10 or "\\n" in str(x[2])) for x in walk(e)), eb):
        lf_blocks.add(sw_[0])
    ok = bool(crlf_sw) and not guarded(f, [bb for bb, _ in cut], crlf_sw, True)
    ok = ok and all(any(C.dominates(f, l, bb) for l in lf_blocks) and C.dominates(f, full.bb, bb) for bb, _ in cut)
    if ok:
        r.ok("helper|crlf-lf", "CRLF ∧ the full sequence is absent ∧ line ends in LF ⇒ that LF is stripped", fn=f)
    else:
        r.bad("helper|crlf-lf", "without_terminator drops a single byte outside the is_crlf() ∧ last == LF case", fn=f,
              construct="without_terminator")
    return True


def as_bytes_rule(facts, r):
    g = facts.fn("grep_matcher::LineTerminator::as_bytes")
    ebg = ExprBuilder(g)
    consts = " ".join(str(x[2]) for x in walk(ebg.local(0)) if x.k == "const" and x[2])
    if ("\\r\\n" in consts or "13_u8, 10_u8" in consts or "\r\n" in consts) and any(x.k == "field" for x in walk(ebg.local(0))):
        r.ok("helper|as_bytes", "LineTerminator::as_bytes: CRLF ⇒ \"\\r\\n\", otherwise the single byte", fn=g)
    else:
        r.bad("helper|as_bytes", "LineTerminator::as_bytes no longer yields \\r\\n for CRLF / the byte otherwise (%s)" % consts[:60], fn=g,
              construct="as_bytes")


def verify_rule(ctx, r):
    facts = ctx.facts
    f = facts.fn(CORE + "::find_by_line_fast")
    eb = ExprBuilder(f)
    ism = [c for c in f.calls() if c.func.get("trait") == MATCHER and c.func["name"] == "is_match"]
    fcl = [c for c in f.calls() if c.func.get("trait") == MATCHER and c.func["name"] == "find_candidate_line"]
    if len(ism) != 1 or not fcl:
        r.bad("is_match", "anchor-missing: expected find_candidate_line and one Matcher::is_match in find_by_line_fast", fn=f)
        return
    hdrs = {h for _, h in C.back_edges(f)}
    # value table over one iteration of the scan: the matcher answers Candidate(3) / Confirmed(3), the terminator is CRLF or
    # not, the line is inside the buffer, is_match (if it is asked) says no. A line that needs verification must then not be
    # returned. Separate arms, merged arms with a `needs_verification` flag, a helper: the same table.
    from ..flow import table, ret_set
    res = {}
    for row, sx in table(facts, f, calls={"Matcher::find_candidate_line": [V("Ok", V("Some", V("Candidate", I(3)))), V("Ok", V("Some", V("Confirmed", I(3))))],
                                          "LineTerminator::is_crlf": [I(0), I(1)], "Matcher::is_match": [V("Ok", I(0))]},
                         start=fcl[0].bb, stop_blocks=hdrs - {fcl[0].bb}):
        kind = row[("call", "Matcher::find_candidate_line")][2][2][1]
        crlf_ = row[("call", "LineTerminator::is_crlf")][1]
        returned = any(v is not None and v[0] == "v" and v[1] == "Ok" and (v[2] is None or (v[2][0] == "v" and v[2][1] == "Some")) for v in ret_set(sx)) \
            or (None in ret_set(sx))
        asked = ism[0].bb in sx.exec_blocks
        res[(kind, crlf_)] = (returned, asked)
    bad_c = [k for k in (("Candidate", 0), ("Candidate", 1)) if res.get(k, (True, False))[0]]
    if bad_c:
        r.bad("candidate|verified", "a candidate line can be returned as a match without calling is_match on it", fn=f, construct="Candidate")
    else:
        r.ok("candidate|verified", "a Candidate line whose is_match says no is never returned", fn=f)
    from ..flow import combinator_model as _cmv
    s = seed_after_call(f, ism[0], V("Ok", I(0)), call_model=_cmv(facts), stop_blocks=hdrs)
    rets = [b for b in s.exec_blocks if f.blocks[b]["term"]["k"] == "return"]
    if rets:
        r.bad("candidate|false", "is_match == false still returns from find_by_line_fast instead of resuming the scan",
              fn=f, loc=ism[0].loc)
    else:
        # pos advanced to line.end()
        adv = False
        for bb, j, st in f.stmts():
            if bb in s.exec_blocks and st["k"] == "assign" and not st["place"]["p"] and \
                    f.locals[st["place"]["l"]].get("name") and f.local_ty(st["place"]["l"]) == "usize":
                e = eb.rvalue(st["rv"])
                if mentions_call(e, "grep_matcher::Match::end"):
                    adv = True
        if adv:
            r.ok("candidate|false", "is_match == false ⇒ scan position advanced to the end of that line, loop continues", fn=f)
        else:
            r.bad("candidate|false", "after a rejected candidate the scan position is not advanced to the end of the line", fn=f,
                  loc=ism[0].loc)
    # A Confirmed answer is a match of the regex somewhere in the buffer. With the two-byte CRLF terminator the regex can
    # match the empty string *between* CR and LF (\\B, or -w around a pattern that can be empty), which is not inside any
    # line's content: under CRLF a Confirmed line has to be verified on the stripped line as well.
    if res.get(("Confirmed", 1), (True, False))[0]:
        r.bad("confirmed|crlf", "find_by_line_fast returns a Confirmed line without verifying it even under a CRLF terminator: an "
              "empty match between CR and LF (e.g. \\B, -w 'x*') reports the line although its content does not match",
              fn=f, construct="Confirmed")
    elif not res.get(("Confirmed", 0), (False, False))[0] and not res.get(("Confirmed", 0), (False, True))[1]:
        r.bad("confirmed|crlf", "anchor-missing: a Confirmed line is neither returned nor verified", fn=f)
    elif res.get(("Confirmed", 0))[0]:
        r.ok("confirmed|crlf", "a Confirmed line is returned unverified only when the terminator is not CRLF", fn=f)
    else:
        r.ok("confirmed|crlf", "every Confirmed line is verified with is_match", fn=f)
    s = seed_after_call(f, ism[0], V("Ok", I(1)), call_model=_cmv(facts), stop_blocks=hdrs)
    vals = {x for v in s.ret_values.values() for x in value_set(v)}
    if vals and all(v is not None and v[1] == "Ok" and v[2] is not None and v[2][1] == "Some" for v in vals):
        r.ok("candidate|true", "is_match == true ⇒ Ok(Some(line))", fn=f)
    else:
        r.bad("candidate|true", "a verified candidate is not returned (%s)" % vals, fn=f, loc=ism[0].loc)


def fastgate_rule(ctx, r):
    facts = ctx.facts
    f = facts.fn(CORE + "::is_line_by_line_fast")
    eb = ExprBuilder(f)
    trues = [bb for bb, j, st in f.stmts() if st["k"] == "assign" and st["place"]["l"] == 0 and
             (op_const(st["rv"].get("a", {})) or {}).get("val") == 1]
    A1 = cond_switches(f, lambda e: is_call(e, "core::cmp::PartialEq::eq") and mentions_call(e, MATCHER + "::line_terminator")
                       and mentions_field(e, SCFG, "line_term"), eb)
    A2 = cond_switches(f, lambda e: e.k == "bin" and e[1] == "Eq" and mentions_call(e, "grep_matcher::LineTerminator::as_byte")
                       and any(y.k == "const" and y[1] == 0 for y in (e[2], e[3])), eb)
    B = cond_switches(f, lambda e: is_call(e, "grep_matcher::ByteSet::contains") and
                      mentions_call(e, MATCHER + "::non_matching_bytes") and mentions_field(e, SCFG, "line_term"), eb)
    # value table (32 rows): the matcher's terminator (none / some), whether it is NUL, whether it equals the searcher's,
    # whether the matcher promises non-matching bytes and whether the searcher's terminator is among them. The fast path may
    # be admitted only under (terminator known ∧ not NUL ∧ (equal ∨ promised)) ∨ (terminator unknown ∧ promised).
    from ..flow import table as _tbl, ret_set as _rs
    LT_ = MATCHER + "::line_terminator"
    called = {c.path for c in f.calls()} | {c.func.get("name") for c in f.calls()}
    if not ({"line_terminator", "non_matching_bytes"} <= called) or not any(c.path.endswith("ByteSet::contains") for c in f.calls()):
        r.bad("shape", "anchor-missing: is_line_by_line_fast: %d true returns, terminator-eq tests %d, NUL tests %d, "
              "non-matching tests %d" % (len(trues), len(A1), len(A2), len(B)), fn=f)
    else:
        wrong, admitted = [], 0
        for row, sx in _tbl(facts, f, fields={(SCFG, "passthru"): [I(0)], (SCFG, "stop_on_nonmatch"): [I(0)]},
                            calls={"Matcher::line_terminator": [V("None", None), V("Some", None)], "LineTerminator::as_byte": [I(0), I(10)],
                                   "PartialEq::eq": [I(0), I(1)], "Matcher::non_matching_bytes": [V("None", None), V("Some", None)],
                                   "ByteSet::contains": [I(0), I(1)]}):
            lt = row[("call", "Matcher::line_terminator")][1] == "Some"
            asb, eq_ = row[("call", "LineTerminator::as_byte")][1], row[("call", "PartialEq::eq")][1]
            nm = row[("call", "Matcher::non_matching_bytes")][1] == "Some"
            cont = row[("call", "ByteSet::contains")][1]
            may = ((asb != 0) and (eq_ or (nm and cont))) if lt else bool(nm and cont)
            got = _rs(sx)
            if I(1) in got or None in got:
                admitted += 1
                if not may:
                    wrong.append("terminator %s%s, equal=%d, promise %s, contains=%d" % ("known" if lt else "unknown", " (NUL)" if lt and asb == 0 else "",
                                                                                      eq_, "given" if nm else "none", cont))
        for i in range(2):
            # (two instances as on the reference tree: the equality route and the promise route)
            if wrong:
                r.bad("true|%d" % i, "is_line_by_line_fast can answer true although the matcher may match the line terminator (%s)" % wrong[0],
                      fn=f, construct="fastgate")
            elif not admitted:
                r.bad("true|%d" % i, "anchor-missing: is_line_by_line_fast never admits the fast path", fn=f)
            else:
                r.ok("true|%d" % i, "fast path admitted only under %s" % (
                    "matcher terminator == searcher terminator ∧ terminator ≠ NUL" if i == 0 else
                    "terminator byte ∈ non_matching_bytes"), fn=f)
    P = cond_switches(f, lambda e: W.field_of(e, SCFG, "passthru"), eb)
    if P:
        s = Sccp(f).run([(P[0][1][1], {})])
        vals = {x for v in s.ret_values.values() for x in value_set(v)}
        if vals == {I(0)}:
            r.ok("passthru", "passthru ⇒ slow path", fn=f)
        else:
            r.bad("passthru", "passthru does not force the slow path", fn=f)
    else:
        r.bad("passthru", "anchor-missing: no passthru test in is_line_by_line_fast", fn=f)
    g = facts.fn(CORE + "::match_by_line")
    ebg = ExprBuilder(g)
    fast = g.calls_to(CORE + "::match_by_line_fast")
    slow = g.calls_to(CORE + "::match_by_line_slow")
    G = cond_switches(g, lambda e: is_call(e, CORE + "::is_line_by_line_fast"), ebg)
    if not fast or not slow or not G:
        r.bad("dispatch", "anchor-missing: match_by_line shape", fn=g)
        return
    if guarded(g, [c.bb for c in fast], G, True):
        r.bad("dispatch|fast", "the fast line path can run without is_line_by_line_fast()", fn=g, loc=fast[0].loc)
    else:
        r.ok("dispatch|fast", "fast path only under is_line_by_line_fast()", fn=g)
    # FastMatchResult arms
    for variant, want in (("SwitchToSlow", "slow"), ("Continue", V("Ok", I(1))), ("Stop", V("Ok", I(0)))):
        s = seed_after_call(g, fast[0], V("Ok", V(variant)))
        if want == "slow":
            if any(c.bb in s.exec_blocks for c in slow):
                r.ok("dispatch|" + variant, "SwitchToSlow ⇒ match_by_line_slow", fn=g)
            else:
                r.bad("dispatch|" + variant, "SwitchToSlow does not fall back to the slow path", fn=g)
        else:
            vals = {x for v in s.ret_values.values() for x in value_set(v)}
            if vals == {want} and not any(c.bb in s.exec_blocks for c in slow):
                r.ok("dispatch|" + variant, "%s ⇒ %s" % (variant, want), fn=g)
            else:
                r.bad("dispatch|" + variant, "FastMatchResult::%s maps to %s" % (variant, vals), fn=g)


def invert_rule(ctx, r):
    facts = ctx.facts
    f = facts.fn(CORE + "::match_by_line_slow")
    eb = ExprBuilder(f)
    xs = []
    for bb, j, st in f.stmts():
        if st["k"] == "assign" and st["rv"]["k"] == "bin" and st["rv"]["op"] in ("Ne", "BitXor"):
            e = eb.rvalue(st["rv"])
            if mentions_field(e, SCFG, "invert_match"):
                xs.append((bb, st, e))
    if len(xs) != 1:
        r.bad("slow|xor", "match_by_line_slow: expected success = matched != config.invert_match (found %d XOR sites)" % len(xs), fn=f)
    else:
        bb, st, e = xs[0]
        other = e[3] if mentions_field(e[2], SCFG, "invert_match") else e[2]
        if mentions_call(other, MATCHER + "::shortest_match") or mentions_call(other, "core::option::Option::is_some"):
            sm = f.calls_to(CORE + "::sink_matched")
            sw = cond_switches(f, lambda y: y.k == "bin" and y[1] in ("Ne", "BitXor") and mentions_field(y, SCFG, "invert_match"), eb)
            if sm and sw and not guarded(f, [c.bb for c in sm], sw, True):
                r.ok("slow|xor", "line reported iff matched XOR invert_match", fn=f)
            else:
                r.bad("slow|xor", "sink_matched in the slow path is not guarded by (matched != invert_match)", fn=f)
        else:
            r.bad("slow|xor", "the XOR with invert_match does not involve the matcher's verdict (`%s`)" % show(other), fn=f)
    # before any of that: the driver skips the search altogether when "no match is possible". With no pattern at all no line
    # matches — so under -v every line is to be reported, and the shortcut must not apply
    mp = facts.fn("rg::flags::hiargs::HiArgs::matches_possible")
    ebm = ExprBuilder(mp)
    HI_ = "rg::flags::hiargs::HiArgs"
    rows = {}
    from ..flow import with_default as _wd
    for empty, invert in ((1, 0), (1, 1), (0, 0), (0, 1)):
        # (self.invert_match has the row's value wherever it is read; max_count is not limiting)
        def fm_(o_, n_, invert=invert):
            if o_ == HI_ and n_ == "invert_match":
                return I(invert)
            if o_ == HI_ and n_ == "max_count":
                return V("None", None)
            return None
        sx = Sccp(mp, call_model=_wd(lambda c, a, empty=empty: I(empty) if c.path.endswith("Vec::is_empty") else None),
                  field_model=fm_).run([(0, {})])
        rows[(empty, invert)] = {x for v in sx.ret_values.values() for x in value_set(v)}
    if rows[(1, 0)] == {I(0)} and rows[(1, 1)] != {I(0)} and rows[(0, 0)] != {I(0)} and rows[(0, 1)] != {I(0)}:
        r.ok("possible|empty", "matches_possible: no patterns ⇒ false only when the match is not inverted", fn=mp)
    elif not mp.calls() or not any(c.path.endswith("Vec::is_empty") for c in mp.calls()):
        r.ok("possible|empty", "matches_possible does not look at the pattern list", fn=mp, nontrivial=False)
    else:
        r.bad("possible|empty", "matches_possible answers false for an empty pattern list whatever invert_match says (%s): `rg -v -f "
              "/dev/null file` prints nothing, although with no pattern no line matches and the complement is every line"
              % {k: sorted(map(str, v)) for k, v in rows.items()}, fn=mp, construct="matches_possible")
    g = facts.fn(CORE + "::match_by_line_fast")
    ebg = ExprBuilder(g)
    inv = g.calls_to(CORE + "::match_by_line_fast_invert")
    fnd = g.calls_to(CORE + "::find_by_line_fast")
    if inv and fnd and W.guard_bool_field(g, ebg, [c.bb for c in inv], SCFG, "invert_match", True) and \
            W.guard_bool_field(g, ebg, [c.bb for c in fnd], SCFG, "invert_match", False):
        r.ok("fast|branch", "inverted branch iff config.invert_match", fn=g)
    else:
        r.bad("fast|branch", "match_by_line_fast does not select the inverted search exactly under config.invert_match", fn=g)


def builder_calls(f, prefix):
    out = {}
    for c in f.calls():
        if c.path.startswith(prefix + "::"):
            out.setdefault(c.path[len(prefix) + 2:], []).append(c)
    return out


def wire_rule(ctx, r):
    facts = ctx.facts
    f = facts.fn(HI + "::matcher_rust")
    eb = ExprBuilder(f)
    bc = builder_calls(f, RB)

    def one(name, pred_arg, desc, guards=(), n=None, unguarded=()):
        cs = [c for c in bc.get(name, []) if pred_arg(eb.operand(c.args[1]))]
        key = "matcher|%s|%s" % (name, desc)
        if not cs:
            r.bad(key, "matcher_rust never calls RegexMatcherBuilder::%s(%s)" % (name, desc), fn=f, construct=name)
            return
        for c in cs:
            for kind, fld, pol in guards:
                ok = True
                if kind == "bool":
                    ok = W.guard_bool_field(f, eb, [c.bb], HI, fld, pol)
                elif kind == "variant":
                    ok = W.guard_variant(f, eb, [c.bb], lambda e: mentions_field(e, HI, fld), pol)
                elif kind == "call":
                    ok = W.guard_cond(f, eb, [c.bb], lambda e: mentions_call(e, fld), pol)
                if not ok:
                    r.bad(key, "RegexMatcherBuilder::%s(%s) at %s is not restricted to %s=%s" % (name, desc, c.loc, fld, pol),
                          fn=f, loc=c.loc, construct=name)
                    return
            for fld in unguarded:
                if not W.unguarded_by_field(f, eb, [c.bb], HI, fld):
                    r.bad(key, "RegexMatcherBuilder::%s(%s) depends on %s" % (name, desc, fld), fn=f, loc=c.loc)
                    return
        r.ok(key, "%d site(s), guards %s" % (len(cs), list(guards)), fn=f)
    cv = W.const_val
    one("multi_line", lambda e: cv(e) == 1, "true")
    one("unicode", lambda e: W.not_field(e, HI, "no_unicode"), "!no_unicode")
    one("fixed_strings", lambda e: W.field_of(e, HI, "fixed_strings"), "fixed_strings")
    one("case_insensitive", lambda e: cv(e) == 0, "false", [("variant", "case", "Sensitive")])
    one("case_insensitive", lambda e: cv(e) == 1, "true", [("variant", "case", "Insensitive")])
    one("case_smart", lambda e: cv(e) == 1, "true", [("variant", "case", "Smart")])
    one("whole_line", lambda e: cv(e) == 1, "true", [("variant", "boundary", "Line")])
    one("word", lambda e: cv(e) == 1, "true", [("variant", "boundary", "Word")])
    one("line_terminator", lambda e: W.is_some_const(e, 10), "Some(LF)", [("bool", "multiline", False)])
    one("line_terminator", lambda e: W.is_some_const(e, 0), "Some(NUL)", [("bool", "multiline", False), ("bool", "null_data", True)])
    one("line_terminator", lambda e: W.is_none_agg(e), "None", [("bool", "multiline", True)])
    one("crlf", lambda e: cv(e) == 1, "true", [("bool", "crlf", True)])
    one("ban_byte", lambda e: W.is_some_const(e, 0), "Some(NUL)", [("call", "rg::flags::hiargs::BinaryDetection::is_none", False)])
    # no other constant may be passed to these setters
    for name, allowed in (("case_insensitive", {0, 1}), ("case_smart", {1}), ("whole_line", {1}), ("word", {1}), ("crlf", {1})):
        for c in bc.get(name, []):
            if cv(eb.operand(c.args[1])) not in allowed:
                r.bad("matcher|%s|extra" % name, "unexpected argument to %s at %s" % (name, c.loc), fn=f, loc=c.loc)
    bm = bc.get("build_many", [])
    if len(bm) == 1 and mentions_field(eb.operand(bm[0].args[1]), "rg::flags::hiargs::Patterns", "patterns"):
        r.ok("matcher|build_many", "build_many(&self.patterns.patterns)", fn=f)
    else:
        r.bad("matcher|build_many", "the matcher is not built from self.patterns.patterns", fn=f)
    # case arms exhaustive
    arms, info = W.variant_arms(f, eb, lambda e: mentions_field(e, HI, "case"))
    cm = [i for i in info if i[1] == "rg::flags::lowargs::CaseMode"]
    if cm and set(arms) >= {"Sensitive", "Insensitive", "Smart"} - set(cm[0][2]):
        r.ok("matcher|case-arms", "CaseMode arms %s" % sorted(arms), fn=f)
    else:
        r.bad("matcher|case-arms", "matcher_rust does not match on every CaseMode", fn=f)
    # searcher
    g = facts.fn(HI + "::searcher")
    ebg = ExprBuilder(g)
    SB = "grep_searcher::searcher::SearcherBuilder"
    sc = builder_calls(g, SB)
    LT = "grep_matcher::LineTerminator"
    for name, fld in (("invert_match", "invert_match"), ("multi_line", "multiline"), ("stop_on_nonmatch", "stop_on_nonmatch"),
                      ("line_number", "line_number")):
        cs = sc.get(name, [])
        if len(cs) == 1 and W.field_of(ebg.operand(cs[0].args[1]), HI, fld):
            r.ok("searcher|" + name, "%s(self.%s)" % (name, fld), fn=g)
        else:
            r.bad("searcher|" + name, "SearcherBuilder::%s is not wired to self.%s" % (name, fld), fn=g, construct=name)
    lt = sc.get("line_terminator", [])
    if len(lt) != 1:
        r.bad("searcher|line_terminator", "anchor-missing: SearcherBuilder::line_terminator", fn=g)
    else:
        # value table on the MIR: (self.crlf, self.null_data) ∈ {0,1}²; LineTerminator::crlf() / ::byte(b) answer with their own
        # name (and byte); the outcome is the value handed to SearcherBuilder::line_terminator
        from ..flow import Sccp as _Sccp, combinator_model as _cm
        ok, detail = True, ""
        for crlf, nd in itertools.product([0, 1], repeat=2):
            seen = []

            def fm(owner, name, crlf=crlf, nd=nd):
                if owner == HI and name == "crlf":
                    return I(crlf)
                if owner == HI and name == "null_data":
                    return I(nd)
                return None

            def inner(call, argv, seen=seen):
                if call.path == LT + "::crlf":
                    return V("crlf", None)
                if call.path == LT + "::byte":
                    return V("byte", argv[0] if argv else None)
                if call.path == SB + "::line_terminator":
                    seen.append(argv[1] if len(argv) > 1 else None)
                return None
            _Sccp(g, call_model=_cm(facts, inner, field_model=fm), field_model=fm).run([(0, {})])
            want = V("crlf", None) if crlf else (V("byte", I(0)) if nd else V("byte", I(10)))
            if not seen or seen[-1] != want:
                ok = False
                detail = "crlf=%s null_data=%s gives %s, expected %s" % (bool(crlf), bool(nd), seen[-1] if seen else "nothing", want)
        if ok:
            r.ok("searcher|line_terminator", "crlf → CRLF, null_data → NUL, else LF (4 rows)", fn=g)
        else:
            r.bad("searcher|line_terminator", "searcher line terminator: %s" % detail, fn=g, construct="line_terminator")
    # value table: self.context ∈ {Passthru, Limited(l)} with l.get() = (3, 5); what the searcher ends up with is the last
    # value handed to each setter, or Config::default()'s when the setter is not called
    from ..flow import Sccp as _Sccp2, combinator_model as _cm2
    SCFG_ = "grep_searcher::searcher::Config"
    eff = {}
    for mode in ("Passthru", "Limited"):
        seen = {}

        def fm2(owner, name, mode=mode):
            return V(mode, None) if owner == HI and name == "context" else None

        def inner2(call, argv, seen=seen):
            if call.path.endswith("ContextModeLimited::get"):
                return ("t", (I(3), I(5)))
            for nm_ in ("passthru", "before_context", "after_context"):
                if call.path == SB + "::" + nm_:
                    seen[nm_] = argv[1] if len(argv) > 1 else None
            return None
        _Sccp2(g, call_model=_cm2(facts, inner2, field_model=fm2), field_model=fm2).run([(0, {})])
        eff[mode] = {nm_: seen.get(nm_, W.struct_default(facts, SCFG_, nm_))
                     for nm_ in ("passthru", "before_context", "after_context")}
        eff[mode]["called"] = set(seen)
    if sc.get("passthru") and eff["Passthru"]["passthru"] == I(1) and eff["Limited"]["passthru"] == I(0):
        r.ok("searcher|passthru", "passthru(true) under ContextMode::Passthru", fn=g)
    else:
        r.bad("searcher|passthru", "passthru wiring", fn=g)
    for name, want in (("before_context", I(3)), ("after_context", I(5))):
        if sc.get(name) and name in eff["Limited"]["called"] and eff["Limited"][name] is not None:
            r.ok("searcher|" + name, "%s under ContextMode::Limited" % name, fn=g)
        else:
            r.bad("searcher|" + name, "%s wiring" % name, fn=g)
    if sc.get("before_context") and sc.get("after_context"):
        # (before, after) = limited.get(): components 0 and 1 respectively
        if eff["Limited"]["before_context"] == I(3) and eff["Limited"]["after_context"] == I(5):
            r.ok("searcher|context-order", "before ← get().0, after ← get().1", fn=g)
        else:
            r.bad("searcher|context-order", "before/after context counts are swapped or not taken from limited.get()", fn=g)


def wire_pcre2_rule(ctx, r):
    """Only under the pcre2 feature configuration (thorough tier): the PCRE2 matcher wiring."""
    facts = ctx.facts
    f = facts.fn(HI + "::matcher_pcre2")
    eb = ExprBuilder(f)
    PB = "grep_pcre2::matcher::RegexMatcherBuilder"
    bc = builder_calls(f, PB)
    cv = W.const_val

    def one(name, pred_arg, desc, guards=()):
        cs = [c for c in bc.get(name, []) if pred_arg(eb.operand(c.args[1]))]
        key = "pcre2|%s|%s" % (name, desc)
        if not cs:
            r.bad(key, "matcher_pcre2 never calls RegexMatcherBuilder::%s(%s)" % (name, desc), fn=f, construct=name)
            return
        for c in cs:
            for kind, fld, pol in guards:
                ok = W.guard_bool_field(f, eb, [c.bb], HI, fld, pol) if kind == "bool" else \
                    W.guard_variant(f, eb, [c.bb], lambda e: mentions_field(e, HI, fld), pol)
                if not ok:
                    r.bad(key, "pcre2 %s(%s) at %s is not restricted to %s=%s" % (name, desc, c.loc, fld, pol), fn=f, loc=c.loc,
                          construct=name)
                    return
        r.ok(key, "%d site(s), guards %s" % (len(cs), list(guards)), fn=f)
    one("multi_line", lambda e: cv(e) == 1, "true")
    one("fixed_strings", lambda e: W.field_of(e, HI, "fixed_strings"), "fixed_strings")
    one("caseless", lambda e: cv(e) == 0, "false", [("variant", "case", "Sensitive")])
    one("caseless", lambda e: cv(e) == 1, "true", [("variant", "case", "Insensitive")])
    one("case_smart", lambda e: cv(e) == 1, "true", [("variant", "case", "Smart")])
    one("whole_line", lambda e: cv(e) == 1, "true", [("variant", "boundary", "Line")])
    one("word", lambda e: cv(e) == 1, "true", [("variant", "boundary", "Word")])
    one("crlf", lambda e: cv(e) == 1, "true", [("bool", "crlf", True)])
    one("utf", lambda e: cv(e) == 1, "true", [("bool", "no_unicode", False)])
    one("ucp", lambda e: cv(e) == 1, "true", [("bool", "no_unicode", False)])
    one("dotall", lambda e: W.field_of(e, HI, "multiline_dotall"), "multiline_dotall", [("bool", "multiline", True)])
    bm = bc.get("build_many", [])
    if len(bm) == 1 and mentions_field(eb.operand(bm[0].args[1]), "rg::flags::hiargs::Patterns", "patterns"):
        r.ok("pcre2|build_many", "build_many(&self.patterns.patterns)", fn=f)
    else:
        r.bad("pcre2|build_many", "the PCRE2 matcher is not built from self.patterns.patterns", fn=f)


def wrap_rule(ctx, r):
    facts = ctx.facts
    f = facts.fn(RB + "::build_many")
    eb = ExprBuilder(f)
    wl = f.calls_to(CHIR + "::into_whole_line")
    wd = f.calls_to(CHIR + "::into_word")
    # value table over (config.whole_line, config.word): which wrapper runs
    from ..flow import table as _table
    wl_bad, wd_bad = [], []
    for row, sx in _table(facts, f, fields={(RCFG, "whole_line"): [I(0), I(1)], (RCFG, "word"): [I(0), I(1)]}):
        x_, w_ = row[("field", (RCFG, "whole_line"))][1], row[("field", (RCFG, "word"))][1]
        if any(c.bb in sx.exec_blocks for c in wl) != bool(x_):
            wl_bad.append("whole_line=%d word=%d" % (x_, w_))
        if any(c.bb in sx.exec_blocks for c in wd) != bool(w_ and not x_):
            wd_bad.append("whole_line=%d word=%d" % (x_, w_))
    if wl and not wl_bad:
        r.ok("build_many|whole_line", "into_whole_line under config.whole_line", fn=f)
    else:
        r.bad("build_many|whole_line", "into_whole_line is not applied exactly under config.whole_line (%s)" % ", ".join(wl_bad), fn=f, construct="whole_line")
    if wd and not wd_bad:
        r.ok("build_many|word", "into_word under word ∧ ¬whole_line", fn=f)
    else:
        r.bad("build_many|word", "into_word is not applied exactly under config.word (and not whole_line) (%s)" % ", ".join(wd_bad), fn=f, construct="word")
    LOOK = "regex_syntax::hir::Look::"
    # into_word
    # the wrappers as value tables on the MIR: Hir::look(x) answers look(x), self.hir reads as "hir"; the outcome is the
    # three-element array handed to Hir::concat. Inline `if`s, accessor methods or a helper give the same array.
    from ..flow import table, operand_at

    def rows(g, cfg_field):
        arrs = [(bb, st) for bb, j_, st in g.stmts() if st["k"] == "assign" and st["rv"]["k"] == "agg" and st["rv"].get("array") and len(st["rv"]["ops"]) == 3]
        if len(arrs) != 1:
            return None
        bb0, st0 = arrs[0]
        from ..flow import Sccp as _Sccp, combinator_model as _cm
        res = {}
        for bit in (0, 1):
            def fm(owner, name, bit=bit):
                if owner == RCFG and name == cfg_field:
                    return I(bit)
                if owner == CHIR and name == "hir":
                    return V("hir", None)
                return None

            def inner(call, argv):
                if call.path == "regex_syntax::hir::Hir::look":
                    return V("look", argv[0] if argv else None)
                return None
            sx = _Sccp(g, call_model=_cm(facts, inner, field_model=fm, callees=lambda p_: p_.startswith(CHIR + "::") and p_ != g.path),
                       field_model=fm).run([(0, {})])
            vals = [operand_at(sx, bb0, st0, o) for o in st0["rv"]["ops"]]

            def name_(v):
                if v is None:
                    return "?"
                if v[0] == "v" and v[1] == "look":
                    return "look(%s)" % (v[2][1] if v[2] is not None and v[2][0] == "v" else "?")
                return v[1] if v[0] == "v" else str(v)
            res[bit] = [name_(v) for v in vals]
        return res
    g = facts.fn(CHIR + "::into_word")
    res = rows(g, "unicode")
    if res is None:
        r.bad("into_word|shape", "anchor-missing: into_word does not build a 3-element concat", fn=g)
    else:
        det = ""
        for uni in (0, 1):
            sfx = "Unicode" if uni else "Ascii"
            if res[uni] != ["look(WordStartHalf%s)" % sfx, "hir", "look(WordEndHalf%s)" % sfx]:
                det = "unicode=%s gives %s" % (bool(uni), res[uni])
        if not det:
            r.ok("into_word|table", "[WordStartHalf{U|A}, hir, WordEndHalf{U|A}] by config.unicode (2 rows)", fn=g)
        else:
            r.bad("into_word|table", "-w wrapping: %s" % det, fn=g, construct="into_word")
    g = facts.fn(CHIR + "::into_whole_line")
    res = rows(g, "crlf")
    if res is None:
        r.bad("into_whole_line|shape", "anchor-missing: into_whole_line does not build a 3-element concat", fn=g)
    else:
        det = ""
        for crlf in (0, 1):
            want = ["look(StartCRLF)", "hir", "look(EndCRLF)"] if crlf else ["look(StartLF)", "hir", "look(EndLF)"]
            if res[crlf] != want:
                det = "crlf=%s gives %s" % (bool(crlf), res[crlf])
        if not det:
            r.ok("into_whole_line|table", "[line_anchor_start, hir, line_anchor_end] by config.crlf (2 rows)", fn=g)
        else:
            r.bad("into_whole_line|table", "-x wrapping is %s" % det, fn=g, construct="into_whole_line")
    LOOKV = {"line_anchor_start": ("StartCRLF", "StartLF"), "line_anchor_end": ("EndCRLF", "EndLF")}
    for name, (t, fl) in LOOKV.items():
        if not facts.has_fn(CHIR + "::" + name):
            r.ok(name, "no separate %s accessor (decided by the into_whole_line table)" % name, fn=g, nontrivial=False)
            continue
        g2 = facts.fn(CHIR + "::" + name)
        got = {}
        for row, sx in table(facts, g2, fields={(RCFG, "crlf"): [I(0), I(1)]}):
            from ..flow import ret_set
            got[row[("field", (RCFG, "crlf"))][1]] = sorted((v[1] if v is not None and v[0] == "v" else "?") for v in ret_set(sx))
        if got.get(1) == [t] and got.get(0) == [fl]:
            r.ok(name, "crlf → %s, else %s" % (t, fl), fn=g2)
        else:
            r.bad(name, "%s yields (%s, %s)" % (name, got.get(1), got.get(0)), fn=g2, construct=name)
    # smart case truth table
    g = facts.fn(RCFG + "::is_case_insensitive")
    at = H.fn_atoms(g.hir)
    want = ["self.case_insensitive", "self.case_smart", "analysis.any_literal()", "analysis.any_uppercase()"]
    if set(at) != set(want):
        r.bad("is_case_insensitive|atoms", "smart-case decision depends on %s" % at, fn=g)
    else:
        bad = None
        for bits in itertools.product([False, True], repeat=4):
            v = dict(zip(want, bits))
            got = H.eval_fn(g.hir, v)
            spec = v[want[0]] or (v[want[1]] and v[want[2]] and not v[want[3]])
            if bool(got) != bool(spec):
                bad = (v, got, spec)
        if bad:
            r.bad("is_case_insensitive|table", "case-insensitivity decision differs from ci ∨ (smart ∧ any_literal ∧ ¬any_uppercase) at %s" % (bad[0],),
                  fn=g, construct="smart-case")
        else:
            r.ok("is_case_insensitive|table", "≡ ci ∨ (smart ∧ any_literal ∧ ¬any_uppercase) (16 rows)", fn=g)


def striphir_rule(ctx, r):
    facts = ctx.facts
    f = facts.fn(CHIR + "::new")
    eb = ExprBuilder(f)
    STRIP = "grep_regex::strip::strip_from_match"
    sc = f.calls_to(STRIP)
    tr = [c for c in f.calls() if c.path.endswith("Translator::translate")]
    # (the literal HIRs may be built in a closure mapped over the patterns: the site is where the closure is consumed)
    from ..flow import call_sites as _cs

    class _S:
        def __init__(self, bb):
            self.bb = bb
    lit = [_S(bb_) for bb_, _, _ in _cs(facts, f, "regex_syntax::hir::Hir::literal")]
    fx = cond_switches(f, lambda e: is_call(e, RCFG + "::is_fixed_strings"), eb)
    if len(sc) != 1 or not tr or not lit or not fx:
        r.bad("shape", "anchor-missing: ConfiguredHIR::new (strip %d, translate %d, literal %d, fixed test %d)"
              % (len(sc), len(tr), len(lit), len(fx)), fn=f)
        return
    if guarded(f, [c.bb for c in lit], fx, True):
        r.bad("literal-path", "the literal fast path is taken without is_fixed_strings()", fn=f)
    else:
        r.ok("literal-path", "hand-built literal HIR only under is_fixed_strings()", fn=f)
    # on the translate path: Some(line_term) ⇒ strip_from_match before Ok
    arms, info = W.variant_arms(f, eb, lambda e: W.field_of(e, RCFG, "line_terminator") or mentions_field(e, RCFG, "line_terminator"))
    ok_rets = [bb for bb, j, st in f.stmts() if st["k"] == "assign" and st["place"]["l"] == 0 and st["rv"]["k"] == "agg"
               and st["rv"].get("variant") == "Ok"]
    if "Some" not in arms:
        r.bad("strip", "ConfiguredHIR::new does not branch on config.line_terminator", fn=f)
    else:
        esc = C.all_paths_pass(f, [arms["Some"]], {sc[0].bb}, ok_rets)
        if esc:
            r.bad("strip", "with a line terminator configured the pattern can reach Ok(..) without strip_from_match", fn=f,
                  construct="strip_from_match")
        else:
            r.ok("strip", "Some(line_term) ⇒ strip_from_match before Ok", fn=f)
        # and the translate path always reaches that switch
        sw_bbs = {i[0] for i in info}
        esc = C.all_paths_pass(f, [tr[0].target], sw_bbs | {b for c in f.calls() if c.is_("core::ops::try_trait::FromResidual::from_residual") for b in [c.bb]}, ok_rets)
        if esc:
            r.bad("strip|gate", "the translated HIR can be returned without consulting config.line_terminator", fn=f)
        else:
            r.ok("strip|gate", "every translated HIR passes the line_terminator match", fn=f)
    # strip_from_match result is `?`-propagated and used
    e0 = eb.operand
    # is_fixed_strings: has_line_terminator ⇒ false; `true` returns pass the terminator gate
    g = facts.fn(RCFG + "::is_fixed_strings")
    ebg = ExprBuilder(g)
    hl = g.calls_to("grep_regex::config::has_line_terminator")
    # the iterator spelling of a scan: patterns.iter().any(|p| has_line_terminator(lineterm, p)) — `any` visits every pattern
    # until one answers true, and its answer stands for the scan's
    HLT = "grep_regex::config::has_line_terminator"
    hl = hl + [c for c in g.calls() if c.path == "core::iter::traits::iterator::Iterator::any" and
               any(x.k == "closure" and x[1] in facts.fns and facts.fns[x[1]].calls_to(HLT) for x in walk(ebg.operand(c.args[1])))]
    if len(hl) < 2:
        r.bad("fixed|scan", "is_fixed_strings scans the patterns for the terminator at %d site(s), expected 2" % len(hl), fn=g)
    for i, c in enumerate(hl):
        s = seed_after_call(g, c, I(1))
        vals = {x for v in s.ret_values.values() for x in value_set(v)}
        if vals == {I(0)}:
            r.ok("fixed|scan|%d" % i, "a literal containing the terminator ⇒ not fixed strings", fn=g)
        else:
            r.bad("fixed|scan|%d" % i, "a pattern containing the line terminator still takes the literal path", fn=g, loc=c.loc)
    # every scan sits in a loop over the patterns (all patterns are scanned, not just the first)
    for i, c in enumerate(hl):
        if c.bb in C.reach_after(g, c.bb) or c.path.endswith("Iterator::any"):
            r.ok("fixed|loop|%d" % i, "terminator scan runs inside the loop over all patterns", fn=g)
        else:
            r.bad("fixed|loop|%d" % i, "the terminator scan at %s is not inside a loop over the patterns" % c.loc, fn=g, loc=c.loc)
    # build_many stores the effective terminator
    b = facts.fn(RB + "::build_many")
    ebb = ExprBuilder(b)
    stored = False
    for bb, j, st in b.stmts():
        if st["k"] == "assign" and (RCFG, "line_terminator") in fields_of_place(st["place"]):
            stored = is_call(strip(ebb.rvalue(st["rv"])), CHIR + "::line_terminator")
    for c in b.calls_to(CHIR + "::line_terminator"):
        if (RCFG, "line_terminator") in fields_of_place(c.dest):
            stored = True
    # ... or the configuration is rebuilt with it (`Config { line_terminator: chir.line_terminator(), ..self.config.clone() }`)
    for bb, j, st in b.stmts():
        if st["k"] == "assign" and st["rv"]["k"] == "agg" and st["rv"].get("adt") == RCFG and "line_terminator" in st["rv"].get("fields", []):
            stored = is_call(strip(ebb.operand(st["rv"]["ops"][st["rv"]["fields"].index("line_terminator")])), CHIR + "::line_terminator")
    if stored:
        r.ok("effective-terminator", "RegexMatcher.config.line_terminator = chir.line_terminator()", fn=b)
    else:
        r.bad("effective-terminator", "the matcher advertises the raw configured terminator, not chir.line_terminator()", fn=b,
              construct="line_terminator")


def run(ctx):
    with ctx.rule("C01.STRIP", "per-line matcher calls receive the terminator-stripped line; the stripping helper's definition", floor=6,
                  kind="FLOW/TABLE") as r:
        strip_rule(ctx, r)
        strip_helper_rule(ctx, r)
    with ctx.rule("C01.VERIFY", "candidate lines (and, under CRLF, confirmed ones) are re-verified; a rejected candidate resumes after its line", floor=4, kind="GUARD/A3") as r:
        verify_rule(ctx, r)
    with ctx.rule("C01.FASTGATE", "fast-path admission guards and fast→slow dispatch", floor=7, kind="GUARD/A3") as r:
        fastgate_rule(ctx, r)
    with ctx.rule("C01.INVERT", "success = matched XOR invert_match", floor=3, kind="TRUTH/GUARD") as r:
        invert_rule(ctx, r)
    with ctx.rule("C01.WIRE", "CLI → matcher builder / searcher builder wiring tables", floor=24, kind="WIRE") as r:
        wire_rule(ctx, r)
    mp = ctx.facts.fns.get(HI + "::matcher_pcre2")
    if mp is not None and any(c.path.startswith("grep_pcre2::") for c in mp.calls()):
        with ctx.rule("C01.WIRE-PCRE2", "CLI → PCRE2 matcher builder wiring (pcre2 feature configuration only)", floor=12, kind="WIRE") as r:
            wire_pcre2_rule(ctx, r)
    with ctx.rule("C01.WRAP", "word / whole-line wrapping tables; smart-case truth table (16 rows)", floor=7, exhaustive=True,
                  kind="TABLE/TRUTH") as r:
        wrap_rule(ctx, r)
    from . import c11
    with ctx.rule("C01.EXACT", "inner-literal exact/inexact bookkeeping (shared with C11.EXACT): a truncated literal must never stay exact",
                  floor=9, kind="PASS/GUARD") as r:
        c11.exact_rule(ctx, r)
    with ctx.rule("C01.GATE", "literal prefilter gating and candidate/confirmed labelling (shared with C11.GATE)", floor=4, kind="GUARD/ARMS") as r:
        c11.gate_rule(ctx, r)
    with ctx.rule("C01.CASEGATE", "the hand-built literal route is never taken where case folding may be due", floor=2, kind="GUARD") as r:
        # is_fixed_strings == true skips the parser/translator, the only place where -i / smart case fold the pattern.
        # It may therefore answer true only with case_insensitive off, and with case_smart off unless the decision is
        # the translator's own (Config::is_case_insensitive), never a private re-implementation of "has uppercase".
        facts = ctx.facts
        f = facts.fn(RCFG + "::is_fixed_strings")
        eb = ExprBuilder(f)
        trues = [bb for bb, j, st in f.stmts() if st["k"] == "assign" and st["place"]["l"] == 0 and not st["place"]["p"] and
                 (op_const(st["rv"].get("a", {})) or {}).get("val") == 1]
        if not trues:
            r.bad("casegate|shape", "anchor-missing: is_fixed_strings has no `true` answer", fn=f)
        for fld in ("case_insensitive", "case_smart"):
            sw = cond_switches(f, lambda e: W.field_of(e, RCFG, fld), eb)
            leak = guarded(f, trues, sw, False) if sw else trues
            own = [c for c in f.calls_to(RCFG + "::is_case_insensitive")]
            if fld == "case_smart" and leak and own:
                leak = [t for t in leak if not any(C.dominates(f, c.bb, t) for c in own)]
            if trues and not leak:
                r.ok("casegate|" + fld, "true only with %s off%s" % (fld, " (or behind is_case_insensitive())" if own else ""), fn=f)
            elif trues:
                r.bad("casegate|" + fld, "is_fixed_strings can answer true with %s set: the literal route skips the translator, the "
                      "only place that folds case, so lines differing in case from the pattern are dropped" % fld, fn=f,
                      construct="is_fixed_strings")
    with ctx.rule("C01.PATTERNS", "patterns given by -e/-f are only de-duplicated by exact text: the dedup key is the pattern itself",
                  floor=1, kind="FLOW") as r:
        # two patterns that differ in anything (case included: \\S / \\s, (?-i:Foo) / foo) are different regexes under every
        # option, so a key that is any function of the pattern other than the identity drops an alternative
        ident = ("core::clone::Clone::clone", "alloc::string::String::as_str", "core::ops::deref::Deref::deref",
                 "alloc::borrow::ToOwned::to_owned", "alloc::string::ToString::to_string", "core::convert::AsRef::as_ref",
                 "core::borrow::Borrow::borrow", "core::convert::From::from", "core::convert::Into::into",
                 "alloc::string::String::as_bytes", "alloc::string::String::into_bytes", "alloc::string::String::into_boxed_str",
                 "alloc::str::<impl str>::to_owned", "alloc::str::<impl alloc::borrow::ToOwned for str>::to_owned")

        def root(e):
            while True:
                e = strip(e)
                if isinstance(e, X) and e.k == "call" and e[1] in ident and e[3]:
                    e = e[3][0]
                    continue
                return e
        facts = ctx.facts
        fns = [f for n, f in sorted(facts.fns.items()) if n.startswith("rg::flags::hiargs::Patterns::from_low_args")]
        if not fns:
            r.bad("dedup|shape", "anchor-missing: Patterns::from_low_args", fn=None)
        nkeys = 0
        for f in fns:
            eb = ExprBuilder(f)
            keyed = [c for c in f.calls() if c.path.startswith(("std::collections::hash::set::HashSet::", "std::collections::hash::map::HashMap::",
                                                                   "alloc::collections::btree::set::BTreeSet::", "alloc::collections::btree::map::BTreeMap::"))
                     and c.path.rsplit("::", 1)[1] in ("contains", "insert", "get", "replace", "contains_key", "entry", "take", "remove")]
            pushes = [c for c in f.calls() if c.path == "alloc::vec::Vec::push"]
            if not keyed:
                continue
            proots = {show(root(eb.operand(c.args[1]))) for c in pushes}
            for c in keyed:
                nkeys += 1
                k = show(root(eb.operand(c.args[1])))
                if len(proots) == 1 and k in proots:
                    r.ok("dedup|key|%s" % c.path.rsplit("::", 1)[1], "key of `%s` is the kept pattern itself" % c.path.rsplit("::", 2)[-2], fn=f)
                else:
                    r.bad("dedup|key|%s" % c.path.rsplit("::", 1)[1], "patterns are de-duplicated by %s, not by their own text (kept: %s): a pattern "
                          "that differs from an earlier one only in what the key ignores is dropped, and the lines only it matches "
                          "are no longer reported" % (k[:80], sorted(proots)), fn=f, loc=c.loc, construct="dedup")
        if fns and not nkeys:
            r.ok("dedup|none", "no de-duplication of patterns", fn=fns[0])
    with ctx.rule("C01.STRIPHIR", "terminator stripped from the pattern whenever configured; effective terminator stored", floor=8,
                  kind="PASS/GUARD") as r:
        striphir_rule(ctx, r)
