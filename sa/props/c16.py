"""C16 — stopping early or failing mid-stream yields a prefix of the full results."""
import re
from .. import cfg as C
from ..flow import Sccp, seed_after_call, I, V, ExprBuilder, walk, is_call, mentions_call, mentions_field, show, \
    TRY_BRANCH, FROM_RESIDUAL, cond_switches, value_set, X
from ..graph import CallGraph, classify_result, field_rw, field_rw_deep
from ..facts import op_place, place_key

TITLE = "stop/error discipline"
EXPLANATION = (
    "Static necessary conditions of C16 decided on the MIR of grep-searcher and grep-printer: "
    "(STOP) at every call site of a keep-going producer inside searcher::{core,glue}, assuming the callee "
    "returned its stop value (seeded conditional constant propagation), no delivering call stays reachable "
    "and the caller itself reports stop (or reaches Core::finish for the run drivers); (FINISH) Core::finish "
    "is called exactly once on every non-error path of the three run drivers and never on an error path; "
    "(ERR) no Result of an I/O, sink, config or matcher call in the searcher is dropped or swallowed; "
    "(FWD) the &mut/Box Sink forwarders return the inner sink's answer unchanged; (LIMIT) match-limit "
    "wiring in the three printers. The behaviour (that the delivered prefix equals the uninterrupted run's "
    "prefix) is not decided.")
NOT_DECIDED = [
    "that the delivered prefix is the same prefix the uninterrupted run delivers",
    "the arithmetic of after_context_remaining",
]

SINK = "grep_searcher::sink::Sink"
CORE = "grep_searcher::searcher::core::Core"
GLUE = "grep_searcher::searcher::glue"
SINK_DELIVER = {SINK + "::" + m for m in ("matched", "context", "context_break", "binary_data")}
SINK_KEEPGOING = SINK_DELIVER | {SINK + "::begin"}

# producers whose stop value is not Ok(false); one line of reason each
STOP_TABLE = {
    CORE + "::detect_binary": ("Ok(true)", V("Ok", I(1)), "answers 'should we stop', true = quit"),
    CORE + "::match_by_line_fast": ("Ok(Stop)", V("Ok", V("Stop")), "three-valued FastMatchResult"),
}
OK_FALSE = V("Ok", I(0))


def in_scope(path):
    return path.startswith(CORE + "::") or path.startswith(GLUE + "::")


def producers(facts):
    """Keep-going producers discovered by signature."""
    out = {}
    for f in facts.fns.values():
        if not in_scope(f.path) or f.kind == "closure":
            continue
        o = f.d.get("output", "")
        if o.startswith("std::result::Result<bool, <S as sink::Sink>::Error>") or \
                o.startswith("std::result::Result<searcher::core::FastMatchResult,"):
            out[f.path] = STOP_TABLE.get(f.path, ("Ok(false)", OK_FALSE, ""))
    for m in SINK_KEEPGOING:
        out[m] = ("Ok(false)", OK_FALSE, "")
    return out


def delivering(facts, cg):
    """Functions of grep_searcher that may reach a delivering Sink method."""
    d = cg.may_reach(SINK_DELIVER, within=lambda p: p.startswith("grep_searcher::"))
    return d | SINK_DELIVER


def run_drivers(facts):
    return [f for f in facts.fns.values()
            if f.path.startswith(GLUE + "::") and f.calls_to(CORE + "::finish")]


def stop_rule(ctx, r, only=None):
    facts = ctx.facts
    cg = CallGraph(facts)
    K = producers(facts)
    D = delivering(facts, cg)
    drivers = {f.path for f in run_drivers(facts)}
    if len(drivers) < 3:
        r.bad("drivers", "anchor-missing: expected 3 run drivers calling Core::finish, found %d" % len(drivers))
    nsites = 0
    for f in sorted(facts.fns.values(), key=lambda f: f.path):
        if not in_scope(f.path):
            continue
        if only and not only(f.path):
            continue
        ordinal = {}
        for c in f.calls():
            kn = [n for n in c.names if n in K]
            if not kn:
                continue
            callee = kn[0]
            stop_txt, stop_val, _ = K[callee]
            n = ordinal.get(callee, 0)
            ordinal[callee] = n + 1
            key = "%s|%s|%d" % (f.path, callee, n)
            nsites += 1
            s = seed_after_call(f, c, stop_val)
            # (i) no delivering call executable after the stop
            offending = []
            for b in sorted(s.exec_blocks):
                t = f.blocks[b]["term"]
                if t["k"] == "call":
                    names = {t["func"]["path"], t["func"].get("resolved")}
                    if names & D:
                        offending.append((b, t["func"]["path"], t.get("loc")))
            if offending:
                b, p, loc = offending[0]
                r.bad(key, "after %s returned %s at %s, the delivering call %s at %s is still reachable"
                      % (callee.split("::")[-1], stop_txt, c.loc, p, loc), fn=f, loc=c.loc,
                      path=[{"bb": x, "loc": f.blocks[x]["term"].get("loc")} for x in sorted(s.exec_blocks)][:40],
                      construct=callee)
                continue
            # (ii) the caller reports the stop
            if f.path in drivers:
                fin = [x.bb for x in f.calls_to(CORE + "::finish")]
                if not any(b in s.exec_blocks for b in fin):
                    r.bad(key, "run driver does not reach Core::finish after %s returned %s"
                          % (callee, stop_txt), fn=f, loc=c.loc, construct=callee)
                    continue
                r.ok(key, "stop ⇒ only finish reachable (%d blocks)" % len(s.exec_blocks), fn=f)
            elif f.path in K:
                own_txt, own_val, _ = K[f.path]
                rets = s.ret_values
                if not rets:
                    r.bad(key, "no return reachable after stop", fn=f, loc=c.loc, construct=callee)
                    continue
                wrong = [(b, v) for b, v in rets.items() if v != own_val]
                if wrong:
                    b, v = wrong[0]
                    r.bad(key, "after %s returned %s at %s the caller returns %s instead of its stop value %s"
                          % (callee.split("::")[-1], stop_txt, c.loc, fmtv(v), own_txt),
                          fn=f, loc=c.loc, construct=callee)
                    continue
                r.ok(key, "stop ⇒ returns %s, no delivery reachable" % own_txt, fn=f)
            else:
                # a helper that is neither a producer nor a driver consumes a keep-going value
                r.bad(key, "keep-going value of %s consumed in %s, which neither returns a keep-going "
                      "value nor finishes the search" % (callee, f.path), fn=f, loc=c.loc, construct=callee)
    r.note_sites(nsites)
    return nsites


def fmtv(v):
    if v is None:
        return "an unknown/true value"
    if v[0] == "i":
        return str(bool(v[1])).lower() if v[1] in (0, 1) else str(v[1])
    if v[0] == "s":
        return " or ".join(sorted(fmtv(x) for x in v[1]))
    if v[0] == "v" and len(v) > 2:
        return "%s(%s)" % (v[1], fmtv(v[2]) if v[2] is not None else "")
    return str(v)


def error_blocks(f):
    """Blocks on an error path: from_residual calls and `_0 = Err(..)` assignments."""
    E = set()
    for c in f.calls():
        if c.is_(*FROM_RESIDUAL):
            E.add(c.bb)
    for bb, j, st in f.stmts():
        if st["k"] == "assign" and st["place"]["l"] == 0 and not st["place"]["p"] \
                and st["rv"]["k"] == "agg" and st["rv"].get("variant") == "Err":
            E.add(bb)
    return E


def once_rule(r, f, callee, label):
    """ONCE(f, callee): exactly one call on every non-error path, none on an error path,
    result returned."""
    sites = f.calls_to(callee)
    key = "%s|%s" % (f.path, label)
    if not sites:
        r.bad(key, "%s is never called in %s" % (callee, f.path), fn=f)
        return
    E = error_blocks(f)
    fin = {c.bb for c in sites}
    # every entry→return path avoiding E passes through a finish site
    escaped = C.all_paths_pass(f, [0], fin | E, f.return_blocks())
    if escaped:
        r.bad(key, "a non-error path reaches return (bb%s) without calling %s" % (escaped[0], label),
              fn=f, loc=f.blocks[escaped[0]]["term"].get("loc"))
        return
    # never twice: no finish site reachable after a finish site
    for c in sites:
        after = C.reach_after(f, c.bb)
        if after & fin:
            r.bad(key, "%s can be called twice (site at %s reaches another call)" % (label, c.loc), fn=f, loc=c.loc)
            return
    # never on an error path
    for e in sorted(E):
        # value-sensitive: what the error path *can execute* given that the residual is an Err (a helper spliced into f
        # hands its Err to f's own `?`, whose Continue edge is not part of the error path)
        after = Sccp(f).run([(e, {})]).exec_blocks - {e} if f.blocks[e]["term"]["k"] == "call" else C.reach_after(f, e)
        if after & fin:
            r.bad(key, "%s is reachable from the error path at %s" % (label, f.blocks[e]["term"].get("loc")),
                  fn=f, loc=f.blocks[e]["term"].get("loc"))
            return
    # result propagated
    for c in sites:
        v, d = classify_result(f, c)
        if v not in ("returned", "try"):
            r.bad(key, "result of %s is %s (%s), not propagated" % (label, v, d), fn=f, loc=c.loc)
            return
    r.ok(key, "%d site(s), %d error block(s): exactly once on non-error paths, never after an error"
         % (len(sites), len(E)), fn=f)


ERR_SCOPE = ("grep_searcher::searcher::", "grep_searcher::line_buffer::")
ERR_TYPES = ("std::io::Error", "<S as sink::Sink>::Error", "searcher::ConfigError",
             "<M as grep_matcher::Matcher>::Error")
# (function, callee) exceptions, one line of reason each
ERR_EXCEPTIONS = {
    ("grep_searcher::searcher::Searcher::fill_multi_line_buffer_from_file", "std::fs::File::metadata"):
        "file.metadata() is a capacity hint; failure means 'reserve nothing'",
}


def err_rule(ctx, r):
    facts = ctx.facts
    n = 0
    for f in sorted(facts.fns.values(), key=lambda f: f.path):
        if not f.path.startswith(ERR_SCOPE) or "::tests::" in f.path or f.d.get("impl_trait") in (
                "core::fmt::Debug", "core::clone::Clone", "core::fmt::Display"):
            continue
        ordinal = {}
        for c in f.calls():
            if c.dest is None or c.dest["p"]:
                continue
            ty = f.local_ty(c.dest["l"])
            if not ty.startswith("std::result::Result<"):
                continue
            if not any(ty.rstrip(">").endswith(e.rstrip(">")) or (", " + e + ">") in ty for e in ERR_TYPES):
                continue
            if c.is_(*TRY_BRANCH) or c.is_(*FROM_RESIDUAL):
                continue
            if c.path.startswith("core::result::Result::") or c.path.startswith("core::ops::"):
                continue
            k = ordinal.get(c.path, 0)
            ordinal[c.path] = k + 1
            key = "%s|%s|%d" % (f.path, c.path, k)
            n += 1
            v, d = classify_result(f, c)
            if v in ("returned", "try", "matched-used"):
                r.ok(key, "%s %s" % (v, d), fn=f, nontrivial=(v != "returned"))
            elif v in ("swallowed", "matched-dropped", "returned") and (f.path.split("::{closure")[0], c.path) in ERR_EXCEPTIONS and \
                    (v != "returned" or f.kind == "closure"):
                # (the exception names the producer, not the spelling of the fallback: unwrap_or, a match, map_or, a closure
                # of the function that yields the hint)
                r.ok(key, "table exception: %s" % ERR_EXCEPTIONS[(f.path.split("::{closure")[0], c.path)], fn=f)
            else:
                r.bad(key, "Result of %s at %s is %s (%s): an error would be lost" % (c.path, c.loc, v, d),
                      fn=f, loc=c.loc, construct=c.path)
    r.note_sites(n)


def interrupted_rule(ctx, r):
    """Every Read::read of the searcher's fill paths: an Interrupted error leads back to the read (nothing was transferred,
    the results may not depend on it — C02), every other error is returned to the caller and never swallowed (C16)."""
    facts = ctx.facts
    KIND = "std::io::error::Error::kind"

    def is_intr_test(e):
        if not (isinstance(e, X) and e.k == "call" and e[1] in ("core::cmp::PartialEq::eq", "core::cmp::PartialEq::ne")):
            return False
        return mentions_call(e, KIND) and any(x.k == "const" and x[2] and "Interrupted" in str(x[2]) for x in walk(e))
    sites = 0
    for f in facts.fns_in("grep_searcher::"):
        if "::tests::" in f.path or f.kind == "closure":
            continue
        reads = f.calls_to("std::io::Read::read")
        if not reads:
            continue
        eb = ExprBuilder(f)
        sw = []
        for bb, te, fe, e in cond_switches(f, is_intr_test, eb):
            if e[1].endswith("::ne"):
                te, fe = fe, te
            sw.append((bb, te, fe, e))
        for i, c in enumerate(reads):
            sites += 1
            key = "%s|read|%d" % (f.path.split("grep_searcher::", 1)[1], i)
            s_ = seed_after_call(f, c, V("Err", None), stop_blocks={c.bb})
            tests = [x for x in sw if x[0] in s_.exec_blocks]
            if not tests:
                r.bad("retry|" + key, "an Interrupted read in %s is reported as a failed search: nothing was transferred, a retry is "
                      "due; the reader strategy otherwise answers differently from a slice of the same bytes" % f.path, fn=f, loc=c.loc,
                      construct="interrupted")
                vals = set()
                for v_ in s_.ret_values.values():
                    vals |= set(value_set(v_)) if v_ is not None else {None}
                if vals and all(v_ is not None and v_[1] == "Err" for v_ in vals):
                    r.ok("propagate|" + key, "a read error is returned", fn=f)
                else:
                    r.bad("propagate|" + key, "a read error is swallowed in %s" % f.path, fn=f, loc=c.loc, construct="read-error")
                continue
            # back to the read; a return on the way is tolerated only behind another call (its own failure, e.g.
            # ensure_capacity()?), never as the direct answer to the interrupted read
            def only_err_returns(edge_target, bb_):
                s3 = Sccp(f, stop_blocks={c.bb}).run([(edge_target, dict(s_.env_in.get(bb_, {})))])
                vals3 = set()
                for v_ in s3.ret_values.values():
                    vals3 |= set(value_set(v_)) if v_ is not None else {None}
                return all(v_ is not None and v_[1] == "Err" for v_ in vals3)
            retried = all(c.bb in C.reach(f, [te[1]]) and only_err_returns(te[1], bb) for bb, te, fe, e in tests)
            if retried:
                r.ok("retry|" + key, "Err(Interrupted) ⇒ back to the read, no return on the way", fn=f)
            else:
                r.bad("retry|" + key, "the Interrupted edge of the read in %s does not lead back to the read" % f.path, fn=f, loc=c.loc,
                      construct="interrupted")
            prop = True
            for bb, te, fe, e in tests:
                s2 = Sccp(f, stop_blocks={c.bb}).run([(fe[1], dict(s_.env_in.get(bb, {})))])
                vals = set()
                for v_ in s2.ret_values.values():
                    vals |= set(value_set(v_)) if v_ is not None else {None}
                if not vals or any(v_ is None or v_[1] != "Err" for v_ in vals) or c.bb in s2.exec_blocks:
                    prop = False
            if prop:
                r.ok("propagate|" + key, "any other read error is returned", fn=f)
            else:
                r.bad("propagate|" + key, "a read error other than Interrupted is swallowed or retried in %s" % f.path, fn=f, loc=c.loc,
                      construct="read-error")
    if sites < 2:
        r.bad("sites", "anchor-missing: expected the two fill loops (LineBuffer::fill, fill_multi_line_buffer_from_reader), found %d "
              "Read::read site(s)" % sites)


def fwd_rule(ctx, r):
    facts = ctx.facts
    methods = ["matched", "context", "context_break", "binary_data", "begin", "finish"]
    for self_ty in ("&mut S", "alloc::boxed::Box"):
        for m in methods:
            cands = [f for f in facts.impl_methods(SINK, m)
                     if re.sub(r"'\w+ ", "", f.d.get("impl_self", "")) == self_ty]
            key = "%s|%s" % (self_ty, m)
            if not cands:
                # default method not overridden: for context/context_break/binary_data/begin/finish the
                # trait default does NOT forward, so a missing override is a violation
                r.bad(key, "forwarding impl of Sink::%s for %s is missing (the trait default would not "
                      "forward to the inner sink)" % (m, self_ty))
                continue
            f = cands[0]
            inner = f.calls_to(SINK + "::" + m)
            if len(inner) != 1:
                r.bad(key, "expected exactly one forwarded call to Sink::%s, found %d" % (m, len(inner)), fn=f)
                continue
            c = inner[0]
            if c.dest["l"] == 0 and not c.dest["p"]:
                r.ok(key, "tail-forwards to the inner Sink::%s" % m, fn=f)
            else:
                v, d = classify_result(f, c)
                if v == "returned":
                    r.ok(key, "forwards and returns the inner result", fn=f)
                else:
                    r.bad(key, "inner result is %s, not returned unchanged" % v, fn=f, loc=c.loc)


PRINTERS = {
    "standard": "grep_printer::standard::StandardSink",
    "json": "grep_printer::json::JSONSink",
    "summary": "grep_printer::summary::SummarySink",
}


def sink_method(facts, adt, m):
    p = "<%s as %s>::%s" % (adt, SINK, m)
    return facts.fn(p)


def limit_rule(ctx, r):
    facts = ctx.facts
    for name, adt in PRINTERS.items():
        f = sink_method(facts, adt, "matched")
        sq = adt + "::should_quit"
        # write of match_count dominates should_quit
        wr = [(bb, j) for bb, j, st in f.stmts() if st["k"] == "assign" and
              any(x == (adt, "match_count") for x in [(p["of"], p["f"]) for p in st["place"]["p"] if isinstance(p, dict) and "f" in p])]
        sqc = f.calls_to(sq)
        key = "%s|matched" % name
        if not wr:
            r.bad(key + "|count", "matched() never writes match_count", fn=f)
            continue
        if name == "summary":
            # SummarySink::matched tests the limit inline (no should_quit helper needed)
            pass
        if not sqc:
            r.bad(key + "|quit", "matched() never consults should_quit()", fn=f)
            continue
        wblocks = {bb for bb, j in wr}
        esc = C.all_paths_pass(f, [0], wblocks, [c.bb for c in sqc])
        if esc:
            c = [c for c in sqc if c.bb in esc][0]
            r.bad(key + "|order", "should_quit() at %s can be reached without the match_count update" % c.loc,
                  fn=f, loc=c.loc)
        else:
            r.ok(key + "|order", "match_count update dominates %d should_quit call(s)" % len(sqc), fn=f)
        # Ok payload on the fall-through return derives from !should_quit()
        eb = ExprBuilder(f)
        ok_payloads = []
        for bb, j, st in f.stmts():
            if st["k"] == "assign" and st["place"]["l"] == 0 and not st["place"]["p"] and \
                    st["rv"]["k"] == "agg" and st["rv"].get("variant") == "Ok":
                ok_payloads.append((bb, eb.operand(st["rv"]["ops"][0])))
        derived = [(bb, e) for bb, e in ok_payloads if mentions_call(e, sq)]
        consts = [(bb, e) for bb, e in ok_payloads if e.k == "const"]
        if not derived:
            r.bad(key + "|result", "no Ok(..) return of matched() derives from should_quit()", fn=f)
        else:
            neg = all(any(x.k == "not" and mentions_call(x, sq) for x in walk(e)) for bb, e in derived)
            if not neg:
                r.bad(key + "|result", "matched() returns should_quit() without negation", fn=f)
            else:
                # constant Ok(true) returns must not bypass the limit: every Ok(true) const return is a bug
                bad_true = [bb for bb, e in consts if e[1] == 1]
                if bad_true:
                    r.bad(key + "|result", "matched() has an unconditional Ok(true) return at %s" %
                          f.blocks[bad_true[0]]["term"].get("loc"), fn=f)
                else:
                    r.ok(key + "|result", "Ok(!should_quit()) on fall-through; constant returns are Ok(false) only", fn=f)
        # begin(): Ok(false) exactly under max_matches == Some(0) (value table)
        from ..flow import table, ret_set
        cfgadt = {"standard": "grep_printer::standard::Config", "json": "grep_printer::json::Config",
                  "summary": "grep_printer::summary::Config"}[name]
        b = sink_method(facts, adt, "begin")
        wrongb = []
        for row, sx in table(facts, b, fields={(cfgadt, "max_matches"): [V("None", None), V("Some", I(0)), V("Some", I(3))],
                                               (cfgadt, "always_begin_end"): [I(0)]}):
            mm = row[("field", (cfgadt, "max_matches"))]
            zero = mm == V("Some", I(0))
            rv = {v for v in ret_set(sx) if not (v is not None and v[0] == "v" and v[1] == "Err")}
            if rv != {V("Ok", I(0 if zero else 1))}:
                wrongb.append("max_matches=%s ⇒ %s" % (mm, sorted(map(str, rv))))
        if wrongb:
            r.bad("%s|begin" % name, "begin() does not refuse the search under a zero match limit (%s)" % wrongb[0], fn=b)
        else:
            r.ok("%s|begin" % name, "begin() answers Ok(false) exactly under max_matches == Some(0)", fn=b)
    # the limit predicates themselves, as value tables: max_matches ∈ {None, Some(3)}, match_count ∈ {2, 3, 4},
    # after_context_remaining ∈ {0, 1}. A match with early returns, map_or with a closure, a let-else read the same.
    for name, adt in PRINTERS.items():
        cfgadt = {"standard": "grep_printer::standard::Config", "json": "grep_printer::json::Config",
                  "summary": "grep_printer::summary::Config"}[name]
        for fnname in (("should_quit", "match_more_than_limit") if name != "summary" else ("should_quit",)):
            g = facts.fn(adt + "::" + fnname)
            key = "%s|%s|def" % (name, fnname)
            flds = {(cfgadt, "max_matches"): [V("None", None), V("Some", I(3))], (adt, "match_count"): [I(2), I(3), I(4)]}
            if name != "summary":
                flds[(adt, "after_context_remaining")] = [I(0), I(1)]
            wrong = []
            reads = set()
            for row, sx in table(facts, g, fields=flds):
                lim = row[("field", (cfgadt, "max_matches"))]
                mc = row[("field", (adt, "match_count"))][1]
                acr = row.get(("field", (adt, "after_context_remaining")), I(0))[1]
                if fnname == "match_more_than_limit":
                    want = lim[1] == "Some" and mc > 3
                    spec = "Some(limit) ∧ match_count > limit"
                elif name == "summary":
                    want = lim[1] == "Some" and mc >= 3
                    spec = "Some(limit) ∧ match_count >= limit"
                else:
                    want = lim[1] == "Some" and mc >= 3 and acr == 0
                    spec = "Some(limit) ∧ ¬(match_count < limit) ∧ after_context_remaining == 0"
                if ret_set(sx) != {I(int(want))}:
                    wrong.append("max_matches=%s match_count=%d after_context_remaining=%d ⇒ %s" % (
                        "None" if lim[1] == "None" else 3, mc, acr, sorted(map(str, ret_set(sx)))))
            if wrong:
                r.bad(key, "%s::%s is no longer `%s` (%s)" % (adt.split("::")[-1], fnname, spec, wrong[0]), fn=g, construct=fnname)
            else:
                r.ok(key, "%s ≡ %s" % (fnname, spec), fn=g)
            if fnname == "should_quit":
                if wrong:
                    r.bad("%s|should_quit|reads" % name, "should_quit() does not decide on max_matches, match_count%s"
                          % ("" if name == "summary" else ", after_context_remaining"), fn=g)
                else:
                    r.ok("%s|should_quit|reads" % name, "decides on max_matches, match_count%s"
                         % ("" if name == "summary" else ", after_context_remaining"), fn=g)
    # after_context_remaining written in matched (both arms) and decremented in context under After
    for name in ("standard", "json"):
        adt = PRINTERS[name]
        f = sink_method(facts, adt, "matched")
        _, w, _ = field_rw(f)
        if (adt, "after_context_remaining") in w:
            r.ok("%s|matched|acr" % name, "matched() re-arms after_context_remaining", fn=f)
        else:
            r.bad("%s|matched|acr" % name, "matched() never writes after_context_remaining", fn=f)
        g = sink_method(facts, adt, "context")
        _, w, _ = field_rw(g)
        sqc = g.calls_to(adt + "::should_quit")
        if (adt, "after_context_remaining") in w and sqc:
            r.ok("%s|context|acr" % name, "context() decrements after_context_remaining and consults should_quit", fn=g)
        else:
            r.bad("%s|context|acr" % name, "context() does not maintain after_context_remaining / should_quit", fn=g)



def prompt_rule(ctx, r):
    """C16: results delivered before an error are a prefix of the full results and completion is never signalled after one.
    Structural half: assuming a fallible call returned Err, no call that can deliver (a Sink method or a searcher function that
    reaches one) is executable afterwards, and every return value is Err."""
    facts = ctx.facts
    cg = CallGraph(facts)
    sink_methods = {n for outs in cg.out.values() for n in outs if n and n.startswith(SINK + "::") and
                    n.rsplit("::", 1)[1] in ("matched", "context", "context_break", "binary_data", "begin", "finish")}
    deliver = cg.may_reach(sink_methods, within=lambda p: p.startswith("grep_searcher::")) | sink_methods
    n = 0
    for f in sorted(facts.fns.values(), key=lambda f: f.path):
        if not f.path.startswith(ERR_SCOPE) or "::tests::" in f.path or f.kind == "closure" or f.d.get("impl_trait") in (
                "core::fmt::Debug", "core::clone::Clone", "core::fmt::Display"):
            continue
        if not f.local_ty(0).startswith("std::result::Result<"):
            continue
        ordinal = {}
        for c in f.calls():
            if c.dest is None or c.dest["p"] or c.target is None:
                continue
            ty = f.local_ty(c.dest["l"])
            if not ty.startswith("std::result::Result<"):
                continue
            if not any(ty.rstrip(">").endswith(e.rstrip(">")) or (", " + e + ">") in ty for e in ERR_TYPES):
                continue
            if c.is_(*TRY_BRANCH) or c.is_(*FROM_RESIDUAL) or c.path.startswith(("core::result::Result::", "core::ops::")):
                continue
            k = ordinal.get(c.path, 0)
            ordinal[c.path] = k + 1
            key = "%s|%s|%d" % (f.path.split("grep_searcher::", 1)[1], c.path.split("::")[-1], k)
            def model(c_, argv):
                # Err stays Err through the variant-preserving adapters
                if c_.path in ("core::result::Result::map_err", "core::result::Result::map", "core::result::Result::and_then",
                               "core::result::Result::inspect_err") and argv and argv[0] is not None and argv[0][0] == "v" \
                        and argv[0][1] == "Err":
                    return V("Err", None)
                return None
            sx = seed_after_call(f, c, V("Err", None), call_model=model)
            late = []
            for c2 in f.calls():
                if c2.bb in sx.exec_blocks and c2.bb != c.bb and any(nm in deliver for nm in c2.names if nm):
                    late.append(c2)
            vals = set()
            for v_ in sx.ret_values.values():
                vals |= set(value_set(v_)) if v_ is not None else {None}
            n += 1
            if late:
                r.bad(key, "after %s has failed, %s still runs %s (%s): lines of an input that could not be read or searched to the "
                      "end are delivered and may not be a prefix of the full results" % (
                          c.path.split("::")[-1], f.path.split("::")[-1], late[0].path.split("::")[-1], late[0].loc),
                      fn=f, loc=c.loc, construct="prompt")
            elif not vals or not all(v_ is not None and v_[1] == "Err" for v_ in vals):
                # the retried Interrupted read and the documented capacity hint answer Ok on purpose; both are decided by
                # C16.INTR / C16.ERR, not here
                r.ok(key, "failure handled without delivering (answer %s; see C16.ERR / C16.INTR)" % sorted(map(str, vals)), fn=f,
                     nontrivial=False)
            else:
                r.ok(key, "Err ⇒ nothing delivered afterwards, Err returned", fn=f)
    r.note_sites(n)

def run(ctx):
    with ctx.rule("C16.STOP", "under 'callee said stop' no delivering call is reachable and the caller reports stop",
                  floor=40, kind="STOP/A3") as r:
        stop_rule(ctx, r)
    with ctx.rule("C16.FINISH", "Core::finish exactly once on non-error paths, never on an error path; "
                  "Core::finish -> Sink::finish likewise", floor=4, kind="ONCE") as r:
        for f in sorted(run_drivers(ctx.facts), key=lambda f: f.path):
            once_rule(r, f, CORE + "::finish", "Core::finish")
        once_rule(r, ctx.facts.fn(CORE + "::finish"), SINK + "::finish", "Sink::finish")
    with ctx.rule("C16.ERR", "no Result of an I/O / sink / config / matcher call in the searcher is dropped or swallowed",
                  floor=30, kind="USED/A10") as r:
        err_rule(ctx, r)
    with ctx.rule("C16.PROMPT", "an error ends the search where it happens: once a fallible call of the searcher has failed, nothing "
                  "that delivers to the sink is called any more and the function answers Err", floor=90, kind="STOP/A3") as r:
        prompt_rule(ctx, r)
    with ctx.rule("C16.INTR", "in both fill loops an Interrupted read is retried and every other read error is returned",
                  floor=4, kind="NOCALL") as r:
        interrupted_rule(ctx, r)
    with ctx.rule("C16.FWD", "Sink forwarders for &mut S and Box<S> return the inner result unchanged",
                  floor=12, kind="PARITY") as r:
        fwd_rule(ctx, r)
    with ctx.rule("C16.LIMIT", "match-limit wiring in the three printers", floor=12, kind="DOM/FLOW/RW") as r:
        limit_rule(ctx, r)
