"""C09 — printed lines and coordinates are the input's own; JSON is lossless (framing, tables, provenance, reset-before-read)."""
from .. import cfg as C
from .. import hirx as H
from ..flow import ExprBuilder, mentions_field, mentions_call, is_call, is_field, walk, show, cond_switches, \
    guarded, seed_after_call, Sccp, I, V, X, strip, value_set, cmp_stmts, cmp_truth, excluded_by_test
from ..graph import field_rw, field_rw_deep, discr_switches
from ..facts import op_const, op_place, fields_of_place
from .. import wire as W

TITLE = "printer framing and provenance"
EXPLANATION = (
    "Structural necessary conditions of C09 on the MIR of grep-printer: (FRAME) in the JSON sink a begin message "
    "dominates every match/context message, is written at most once (guarded by the flag it sets), the end message is "
    "written only when a begin was printed, and no other function constructs Begin/End; (DATA) text is used exactly when "
    "str::from_utf8 succeeds, base64 `bytes` otherwise, and the serializer maps Text→\"text\", Bytes→base64 \"bytes\"; "
    "(FIELDS) every field of the match/context message and of each submatch derives from the searcher's event "
    "(bytes, line number, absolute offset; submatch text = bytes[match], start, end from the same match), and Sunk "
    "takes coordinates from the event and bytes from the event unless a replacement exists; (RESET) the per-call "
    "scratch state (match spans, replacement) is cleared or recomputed before it is read in every Sink method, and "
    "record_matches/replace themselves start by clearing; (PRELUDE) path, line number, column, byte offset in that "
    "order with 1-based columns; (PATHS) fast paths only without match spans, multi-line paths only in multi-line mode. "
    "Byte-for-byte equality of the printed text and correctness of the numbers are values and not decided. (REDISCOVER) match re-discovery reports only matches starting before the end of the reported range, over a bounded haystack starting at range.start, with the terminator trimmed in single-line mode; every printer's matched() passes the searcher's buffer and the match's range in it, not the matched bytes alone.")
NOT_DECIDED = ["byte-for-byte equality of printed text with the input", "correctness of columns / offsets (values)"]

P = "grep_printer"
SINK = "grep_searcher::sink::Sink"
JS = P + "::json::JSONSink"
JSON = P + "::json::JSON"
STD = P + "::standard::StandardSink"
STANDARD = P + "::standard::Standard"
MSG = P + "::jsont::Message"
REPL = P + "::util::Replacer"


def Wr_const(eb, rv):
    """constant operand of a binary rvalue, if any"""
    for k_ in ("a", "b"):
        v_ = W.const_val(eb.operand(rv[k_]))
        if v_ is not None:
            return v_
    return None


def sink_fn(facts, adt, m):
    return facts.fn("<%s as %s>::%s" % (adt, SINK, m))


def rediscover_rule(ctx, r):
    """find_iter_at_in_context: a match starting at or after the end of the reported range belongs to a later line
    and is never reported for this range; the searched haystack is bounded; the search starts at range.start."""
    facts = ctx.facts
    FI = P + "::util::find_iter_at_in_context"
    f = facts.fn(FI)
    eb = ExprBuilder(f)
    clos = [c for c in facts.closures_of(FI) if any(x.is_("core::ops::function::FnMut::call_mut") for x in c.calls())]
    if len(clos) != 1:
        r.bad("closure", "anchor-missing: the reporting closure of find_iter_at_in_context", fn=f)
    else:
        c = clos[0]
        ebc = ExprBuilder(c)
        cb = [x for x in c.calls() if x.is_("core::ops::function::FnMut::call_mut")]

        # comparisons of the match's start / end with range.end, wherever their answers go
        def of_range(e):
            # the captured `range` itself, or a captured local that the parent took out of it (`let end = range.end`)
            from ..flow import captured_expr
            for y in walk(e):
                if y.k == "field" and y[3] == "range":
                    return True
                if y.k == "field" and str(y[2]).startswith("{closure}"):
                    ce = captured_expr(facts, c, y[3])
                    if ce is not None and any(z.k == "field" and z[3] == "end" and any(w.k == "arg" and w[2] == "range" for w in walk(z))
                                              for z in walk(ce)):
                        return True
            return False

        def tests_for(getter, relation):
            out = []
            for bb, j, op, lhs, rhs in cmp_stmts(c, ebc):
                for x, y, lhs_is_x in ((lhs, rhs, True), (rhs, lhs, False)):
                    if mentions_call(x, getter) and not of_range(x) and of_range(y) and not mentions_call(y, "grep_matcher::Match::start", "grep_matcher::Match::end"):
                        v = cmp_truth(op, lhs_is_x, relation)
                        if v is not None:
                            out.append((bb, j, v))
            return out
        beyond = excluded_by_test(c, tests_for("grep_matcher::Match::start", "Ge"), [cb[0].bb])
        if beyond:
            r.ok("bound", "callback only for matches with start < range.end (a match starting at range.end is the next line's)", fn=c)
        else:
            r.bad("bound", "find_iter_at_in_context reports matches that start at (or after) the end of the reported range: "
                  "their offsets lie beyond the line being printed", fn=c, loc=cb[0].loc, construct="bound")
        # ... and the match must lie inside the range altogether: in multi-line mode the haystack is cut off MAX_LOOK_AHEAD
        # bytes after the range, where `$` / `\\z` / `\\b` match at the artificial end; such a match reaches beyond the bytes the
        # printer holds for this event (slicing them panics)
        if excluded_by_test(c, tests_for("grep_matcher::Match::end", "Gt"), [cb[0].bb]):
            r.ok("bound|end", "callback only for matches with end ≤ range.end", fn=c)
        else:
            r.bad("bound|end", "find_iter_at_in_context hands out matches that end beyond the reported range (found in the look-ahead "
                  "tail of the truncated haystack): JSON output and -r then slice past the event's bytes and panic", fn=c,
                  loc=cb[0].loc, construct="bound")
        if beyond:
            bb_, j_, v_ = beyond[0]
            s_ = Sccp(c, stmt_values={(bb_, j_): I(v_)}).run([(bb_, {})])
            vals = {x for v in s_.ret_values.values() for x in value_set(v)}
            if vals == {I(0)}:
                r.ok("stop", "start ≥ range.end ⇒ stop iterating", fn=c)
            else:
                r.bad("stop", "a match beyond the range does not stop the iteration", fn=c)
    fi = [c for c in f.calls() if c.func.get("trait") == "grep_matcher::Matcher" and c.func["name"] == "find_iter_at"]
    if len(fi) != 1:
        r.bad("call", "anchor-missing: Matcher::find_iter_at in find_iter_at_in_context", fn=f)
    else:
        hay, at = eb.operand(fi[0].args[1]), eb.operand(fi[0].args[2])
        bounded = any(is_call(x, "core::ops::index::Index::index") for x in walk(hay)) and \
            mentions_call(hay, P + "::util::trim_line_terminator") or any(x.k == "phi" for x in walk(hay))
        if bounded and any(y.k == "field" and y[3] == "start" for y in walk(at)):
            r.ok("call", "find_iter_at(bounded haystack, range.start)", fn=f)
        else:
            r.bad("call", "re-discovery searches `%s` from `%s`" % (show(hay)[:50], show(at)[:30]), fn=f, construct="call")
        ml = cond_switches(f, lambda e: is_call(e, "grep_searcher::searcher::Searcher::multi_line_with_matcher"), eb)
        tr = f.calls_to(P + "::util::trim_line_terminator")
        if ml and tr and not guarded(f, [tr[0].bb], ml, False):
            r.ok("trim", "single-line mode: the line terminator is trimmed from the haystack", fn=f)
        else:
            r.bad("trim", "in single-line mode the re-discovery haystack still contains the line terminator", fn=f, construct="trim")

    # The matched() entry of every printer hands the re-discovery the searcher's whole buffer plus the range of
    # the match inside it (look-ahead past the last matched line stays visible), never just the matched bytes.
    SM = "grep_searcher::sink::SinkMatch"
    TARGETS = ("::record_matches", "::replace", "::util::find_iter_at_in_context")
    for sink in (STD, JS, P + "::summary::SummarySink"):
        m = sink_fn(facts, sink, "matched")
        ebm = ExprBuilder(m)
        n = 0
        for c in m.calls():
            if not (c.path.startswith(P) and c.path.endswith(TARGETS)):
                continue
            n += 1
            args = [ebm.operand(a) for a in c.args]
            key = "caller|%s|%s" % (sink.split("::")[-1], c.path.split("::")[-1])
            has_buf = any(mentions_call(a, SM + "::buffer") for a in args)
            has_rng = any(mentions_call(a, SM + "::bytes_range_in_buffer") for a in args)
            if has_buf and has_rng:
                r.ok(key, "re-discovery over (mat.buffer(), mat.bytes_range_in_buffer())", fn=m)
            else:
                r.bad(key, "%s::matched re-discovers matches over %s: look-around past the matched lines is cut off, so this "
                      "printer finds other matches than the searcher and its sibling printers" % (
                          sink.split("::")[-1], "the matched bytes only" if not has_buf else "a range that is not the match's range in the buffer"),
                      fn=m, loc=c.loc, construct="rediscover-caller")
        if not n:
            r.bad("caller|%s" % sink.split("::")[-1], "anchor-missing: %s::matched no longer re-discovers matches" % sink, fn=m)

def run(ctx):
    facts = ctx.facts
    with ctx.rule("C09.REDISCOVER", "match re-discovery is confined to the reported range", floor=8, kind="GUARD/FLOW") as r:
        rediscover_rule(ctx, r)
    with ctx.rule("C09.FRAME", "JSON framing: begin dominates, at most once, end only after begin", floor=7, kind="DOM/GUARD") as r:
        WB = JS + "::write_begin_message"
        WM = JSON + "::write_message"
        for m in ("matched", "context"):
            f = sink_fn(facts, JS, m)
            wb, wm = f.calls_to(WB), f.calls_to(WM)
            if wb and wm and all(C.dominates(f, wb[0].bb, c.bb) for c in wm):
                r.ok(m, "write_begin_message dominates write_message", fn=f)
            else:
                r.bad(m, "JSONSink::%s can write a message before the begin message" % m, fn=f, construct="begin")
        b = facts.fn(WB)
        eb = ExprBuilder(b)
        wm = b.calls_to(WM)
        sw = cond_switches(b, lambda e: W.field_of(e, JS, "begin_printed"), eb)
        sets = [bb for bb, j, st in b.stmts() if st["k"] == "assign" and (JS, "begin_printed") in fields_of_place(st["place"])
                and (op_const(st["rv"].get("a", {})) or {}).get("val") == 1]
        if wm and sw and sets and not guarded(b, [wm[0].bb], sw, False) and C.dominates(b, wm[0].bb, sets[0]):
            r.ok("once", "begin written only when !begin_printed, then begin_printed = true", fn=b)
        else:
            r.bad("once", "the begin message is not written at most once per file", fn=b, construct="once")
        f = sink_fn(facts, JS, "finish")
        ebf = ExprBuilder(f)
        wm = f.calls_to(WM)
        sw = cond_switches(f, lambda e: W.field_of(e, JS, "begin_printed"), ebf)
        if wm and sw and not guarded(f, [wm[0].bb], sw, True):
            r.ok("end", "end written only on the begin_printed edge", fn=f)
        else:
            r.bad("end", "an end message can be written without a begin message", fn=f, construct="end")
        # who constructs Begin / End
        makers = {"Begin": set(), "End": set()}
        for g in [g_ for g_ in facts.fns.values() if g_.crate == "grep_printer"]:
            for bb, j, st in g.stmts():
                if st["k"] == "assign" and st["rv"]["k"] == "agg" and st["rv"].get("adt") == MSG and st["rv"]["variant"] in makers:
                    makers[st["rv"]["variant"]].add(g.path)
        if makers["Begin"] == {WB} and makers["End"] == {f.path}:
            r.ok("constructors", "Begin only in write_begin_message, End only in finish", fn=b)
        else:
            r.bad("constructors", "Message::Begin built in %s, Message::End in %s" % (sorted(makers["Begin"]), sorted(makers["End"])),
                  construct="constructors")
        bg = sink_fn(facts, JS, "begin")
        ebb = ExprBuilder(bg)
        wbc = bg.calls_to(WB)
        abe = cond_switches(bg, lambda e: W.field_of(e, P + "::json::Config", "always_begin_end"), ebb)
        if wbc and abe and not guarded(bg, [wbc[0].bb], abe, True):
            r.ok("always", "begin() writes the begin message eagerly only under always_begin_end", fn=bg, nontrivial=False)
        else:
            r.bad("always", "begin() eager framing is not tied to always_begin_end", fn=bg)
        # begin_printed is per search: a sink used for a second search (the library allows it; a search that failed leaves no
        # end behind) must not start with the flag of the previous one, or finish() writes an `end` that has no `begin`
        resets = [bb for bb, j, st in bg.stmts() if st["k"] == "assign" and (JS, "begin_printed") in fields_of_place(st["place"])
                  and (op_const(st["rv"].get("a", {})) or {}).get("val") == 0]
        rets = [bb for bb, b_ in enumerate(bg.blocks) if b_["term"]["k"] == "return"]
        if resets and not C.all_paths_pass(bg, [0], resets, [c.bb for c in wbc] + rets):
            r.ok("begin|reset", "begin() clears begin_printed before anything else can be written", fn=bg)
        else:
            r.bad("begin|reset", "JSONSink::begin resets its other per-search state but not begin_printed: on a sink that is used "
                  "again, a search without matches writes an `end` with no `begin` (also right after a search that failed, "
                  "which reads as its completion)", fn=bg, construct="begin")

    with ctx.rule("C09.DATA", "text iff valid UTF-8, base64 bytes otherwise (decision + serializer arms)", floor=4, exhaustive=True,
                  kind="TABLE/ARMS") as r:
        DATA = P + "::jsont::Data"
        f = facts.fn(DATA + "::from_bytes")
        fu = [c for c in f.calls() if c.path.endswith("from_utf8")]
        if not fu:
            r.bad("from_bytes", "anchor-missing: Data::from_bytes does not call str::from_utf8", fn=f)
        else:
            from ..flow import table, ret_set
            for res, want in (("Ok", "Text"), ("Err", "Bytes")):
                # the value that is returned (a Data::Bytes built eagerly as the default of unwrap_or and then dropped is not)
                made = set()
                for row, sx in table(facts, f, calls={"from_utf8": [V(res, None)]}):
                    made = {(v[1] if v is not None and v[0] == "v" else None) for v in ret_set(sx)}
                if made == {want}:
                    r.ok("from_bytes|" + res, "from_utf8 %s ⇒ Data::%s" % (res, want), fn=f)
                else:
                    r.bad("from_bytes|" + res, "from_utf8 %s produces Data::%s" % (res, sorted(made)), fn=f, construct="from_bytes")
        g = facts.fn("<%s as serde::ser::Serialize>::serialize" % DATA)
        ebg = ExprBuilder(g)
        sws = [s for s in discr_switches(g, DATA)]
        if len(sws) != 1:
            r.bad("serialize", "anchor-missing: Data::serialize must match on self", fn=g)
        else:
            bb, adt, place, arms, ow, ow_live, missing = sws[0]
            for v, key, b64 in (("Text", '"text"', False), ("Bytes", '"bytes"', True)):
                tgt = arms.get(v, ow)
                others = set()
                for v2, t2 in arms.items():
                    if v2 != v:
                        others |= C.reach(g, [t2])
                if v not in arms:
                    others = set().union(*[C.reach(g, [t]) for t in arms.values()]) if arms else set()
                region = C.reach(g, [tgt]) - others
                sf = [c for c in g.calls() if c.bb in region and c.path.endswith("SerializeStruct::serialize_field")]
                names = [str(x[2]) for c in sf for x in walk(ebg.operand(c.args[1])) if x.k == "const" and x[2]]
                hasb64 = any(c.bb in region and c.path.endswith("base64_standard") for c in g.calls())
                if key in names and hasb64 == b64:
                    r.ok("serialize|" + v, "Data::%s ⇒ field %s%s" % (v, key, " (base64)" if b64 else ""), fn=g)
                else:
                    r.bad("serialize|" + v, "Data::%s is serialized as %s%s" % (v, names, " with base64" if hasb64 else ""), fn=g,
                          construct="serialize")

    with ctx.rule("C09.FIELDS", "message fields and submatches derive from the searcher's event", floor=9, kind="FLOW") as r:
        EV = {"matched": ("grep_searcher::sink::SinkMatch", "Match"), "context": ("grep_searcher::sink::SinkContext", "Context")}
        for m, (ev, variant) in EV.items():
            f = sink_fn(facts, JS, m)
            eb = ExprBuilder(f)
            aggs = [st for bb, j, st in f.stmts() if st["k"] == "assign" and st["rv"]["k"] == "agg" and
                    st["rv"].get("adt") == P + "::jsont::" + variant]
            if len(aggs) != 1:
                r.bad(m, "anchor-missing: jsont::%s literal in JSONSink::%s" % (variant, m), fn=f)
                continue
            rv = aggs[0]["rv"]
            want = {"lines": ev + "::bytes", "line_number": ev + "::line_number", "absolute_offset": ev + "::absolute_byte_offset"}
            for fld, src in want.items():
                e = eb.operand(rv["ops"][rv["fields"].index(fld)])
                if is_call(strip(e), src):
                    r.ok("%s|%s" % (m, fld), "%s ← %s()" % (fld, src.split("::")[-1]), fn=f)
                else:
                    r.bad("%s|%s" % (m, fld), "JSON %s.%s is `%s`, not the event's %s()" % (variant, fld, show(e)[:60], src.split("::")[-1]),
                          fn=f, construct=fld)
            e = eb.operand(rv["ops"][rv["fields"].index("submatches")])
            if mentions_call(e, P + "::json::SubMatches::as_slice"):
                sn = [x for x in walk(e) if is_call(x, P + "::json::SubMatches::new")]
                okb = all(is_call(strip(x[3][0]), ev + "::bytes") and mentions_field(x[3][1], JSON, "matches") for x in sn)
                if sn and okb:
                    r.ok("%s|submatches" % m, "submatches = SubMatches::new(event bytes, recorded matches)", fn=f)
                else:
                    r.bad("%s|submatches" % m, "submatches are not computed over the same event bytes", fn=f, construct="submatches")
            else:
                r.bad("%s|submatches" % m, "submatches field is `%s`" % show(e)[:60], fn=f)
        sn = facts.fn(P + "::json::SubMatches::new")
        ebs = ExprBuilder(sn)
        # every SubMatch literal of the function or of a closure it maps over the matches
        aggs = [(g_, st) for g_ in facts.with_closures(sn.path) for bb, j, st in g_.stmts() if st["k"] == "assign" and st["rv"]["k"] == "agg" and
                st["rv"].get("adt") == P + "::jsont::SubMatch"]
        if len(aggs) < 1:
            r.bad("SubMatch", "anchor-missing: SubMatch literals", fn=sn)
        elif len(aggs) == 1:
            r.ok("SubMatch|shared", "one SubMatch literal serves the one-match and the many-matches form", fn=sn, nontrivial=False)
        for i, (g_, st) in enumerate(aggs):
            rv = st["rv"]
            ebs = ExprBuilder(g_)
            em = ebs.operand(rv["ops"][rv["fields"].index("m")])
            es = ebs.operand(rv["ops"][rv["fields"].index("start")])
            ee = ebs.operand(rv["ops"][rv["fields"].index("end")])
            def mat_locals(e, g_=g_):
                return {x[1] for x in walk(e) if x.k in ("phi", "local", "arg") and g_.local_ty(x[1]).lstrip("&") == "grep_matcher::Match"} | \
                    {id(x) for x in walk(e) if is_call(x, "core::ops::index::Index::index") and False}
            # m is the slice itself, `&bytes[mat]`: whether it is text or base64 is decided from exactly these bytes, later, by
            # Data::from_bytes — not something precomputed for a larger range
            ok = is_call(strip(em), "core::ops::index::Index::index") and is_call(strip(es), "grep_matcher::Match::start") \
                and is_call(strip(ee), "grep_matcher::Match::end")
            same = mat_locals(es) == mat_locals(ee) and mat_locals(es) <= mat_locals(em) | mat_locals(es)
            if ok and same:
                r.ok("SubMatch|%d" % i, "m = bytes[mat], start = mat.start(), end = mat.end() (same match)", fn=sn)
            else:
                r.bad("SubMatch|%d" % i, "a submatch's text/start/end do not come from one match (m=%s start=%s end=%s)"
                      % (show(em)[:30], show(es)[:30], show(ee)[:30]), fn=sn, construct="SubMatch")
        for m, ev in (("from_sink_match", "grep_searcher::sink::SinkMatch"), ("from_sink_context", "grep_searcher::sink::SinkContext")):
            f = facts.fn(P + "::util::Sunk::" + m)
            eb = ExprBuilder(f)
            aggs = [st for bb, j, st in f.stmts() if st["k"] == "assign" and st["rv"]["k"] == "agg" and st["rv"].get("adt") == P + "::util::Sunk"]
            if len(aggs) != 1:
                r.bad(m, "anchor-missing: Sunk literal", fn=f)
                continue
            rv = aggs[0]["rv"]
            ea = eb.operand(rv["ops"][rv["fields"].index("absolute_byte_offset")])
            el = eb.operand(rv["ops"][rv["fields"].index("line_number")])
            ebts = eb.operand(rv["ops"][rv["fields"].index("bytes")])
            clos = [facts.fns.get(x[1]) for x in walk(ebts) if x.k == "closure"]
            # replacement's bytes when there is one, else the event's (unwrap_or_else with a closure, or a match)
            bytes_ok = (any(g is not None and g.calls_to(ev + "::bytes") for g in clos) or mentions_call(ebts, ev + "::bytes")) and \
                any(y.k == "arg" and y[2] == "replacement" for y in walk(ebts))
            if is_call(strip(ea), ev + "::absolute_byte_offset") and is_call(strip(el), ev + "::line_number") and bytes_ok:
                r.ok(m, "coordinates from the event; bytes = replacement or the event's bytes", fn=f)
            else:
                r.bad(m, "Sunk::%s does not take its coordinates / bytes from the searcher's event" % m, fn=f, construct="Sunk")

    with ctx.rule("C09.RESET", "scratch state (match spans, replacement) is reset before it is read", floor=8, kind="DOM") as r:
        # summary facts: record_matches / replace begin by clearing
        for adt, owner, fld in ((STD, STANDARD, "matches"), (JS, JSON, "matches")):
            f = facts.fn(adt + "::record_matches")
            eb = ExprBuilder(f)
            clr = [c for c in f.calls() if c.path.endswith("Vec::clear") and mentions_field(eb.operand(c.args[0]), owner, fld)]
            others = [c for c in f.calls() if c not in clr and c.path not in ("core::cell::RefCell::borrow_mut",)]
            if clr and all(C.dominates(f, clr[0].bb, c.bb) for c in f.calls() if c.bb != clr[0].bb):
                r.ok("%s|record_matches" % adt.split("::")[-1], "record_matches starts with matches.clear()", fn=f)
            else:
                r.bad("%s|record_matches" % adt.split("::")[-1], "record_matches does not clear the previous spans first", fn=f,
                      construct="record_matches")
        f = facts.fn(STD + "::replace")
        clr = f.calls_to(REPL + "::clear")
        if clr and all(C.dominates(f, clr[0].bb, c.bb) for c in f.calls() if c.bb != clr[0].bb):
            r.ok("StandardSink|replace", "replace starts with replacer.clear()", fn=f)
        else:
            r.bad("StandardSink|replace", "replace does not clear the previous replacement first", fn=f, construct="replace")
        rc = facts.fn(REPL + "::clear")
        if len([c for c in rc.calls() if c.path.endswith("Vec::clear")]) >= 2:
            r.ok("Replacer|clear", "Replacer::clear clears dst and matches", fn=rc)
        else:
            r.bad("Replacer|clear", "Replacer::clear no longer clears both dst and matches", fn=rc, construct="clear")
        # JSONSink::context recomputes the match spans of the context line (they are the submatches of an inverted search)
        jc = sink_fn(facts, JS, "context")
        rm_ = jc.calls_to(JS + "::record_matches")
        smn = [c for c in jc.calls() if c.path.endswith("SubMatches::new")]
        if rm_ and smn and C.dominates(jc, rm_[0].bb, smn[0].bb):
            r.ok("json|context|record", "JSONSink::context: record_matches before the submatches are built", fn=jc)
        else:
            r.bad("json|context|record", "JSONSink::context builds the submatches of a context line without re-discovering its matches "
                  "(stale or empty spans)", fn=jc, construct="json-context")
        # replace_all itself starts from empty buffers: the sinks do not call Replacer::clear between two lines of one file
        ra = facts.fn(REPL + "::replace_all")
        ebra = ExprBuilder(ra)
        rw = [c for c in ra.calls() if c.path.endswith("replace_with_captures_in_context")]
        clears = [c for c in ra.calls() if c.path.endswith("Vec::clear")]
        dom = [c for c in clears if rw and C.dominates(ra, c.bb, rw[0].bb)]
        if rw and len(dom) >= 2:
            r.ok("Replacer|replace_all", "replace_all empties dst and matches before it fills them", fn=ra)
        else:
            r.bad("Replacer|replace_all", "Replacer::replace_all appends to what the previous line left in dst / matches (%d of 2 clears "
                  "before the replacement): with -r every later line is printed with the earlier lines' replacements in front" % len(dom),
                  fn=ra, construct="replace_all")
        # trim_line_terminator removes exactly the terminator: one byte, and under CRLF also a preceding CR — if it is a CR
        tl = facts.fn(P + "::util::trim_line_terminator")
        ebt = ExprBuilder(tl)
        def has_cr(e):
            return any(x.k == "const" and (x[1] == 13 or "13_u8" in str(x[2]) or "\\r" in str(x[2])) for x in walk(e))
        cr_calls = [c for c in tl.calls() if c.is_("core::cmp::PartialEq::eq") and any(has_cr(ebt.operand(a_)) for a_ in c.args)]
        cr_stmts = [(bb, j) for bb, j, op, lhs, rhs in cmp_stmts(tl, ebt) if op == "Eq" and (has_cr(lhs) or has_cr(rhs))]
        crlf_calls = tl.calls_to("grep_matcher::LineTerminator::is_crlf")
        suf_calls = tl.calls_to("grep_matcher::LineTerminator::is_suffix")
        subs = [bb for bb, j_, st in tl.stmts() if st["k"] == "assign" and st["rv"]["k"] == "bin" and st["rv"]["op"] in ("Sub", "SubWithOverflow")
                and Wr_const(ebt, st["rv"]) == 1]
        if suf_calls and crlf_calls and (cr_calls or cr_stmts) and len(subs) >= 2:
            # a subtraction that happens neither when is_crlf() says no nor when the byte in front is not a CR — wherever
            # the two answers are combined (nested ifs, an `&&` chain, a named flag)
            def without(calls, stmts):
                keys = {(c.bb, c.loc) for c in calls}
                sx = Sccp(tl, call_model=lambda c, argv: I(0) if (c.bb, c.loc) in keys else None,
                          stmt_values={k_: I(0) for k_ in stmts}).run([(0, {})])
                return sx.exec_blocks
            no_crlf, no_cr = without(crlf_calls, []), without(cr_calls, cr_stmts)
            second = [b_ for b_ in subs if b_ not in no_crlf and b_ not in no_cr]
            if second:
                r.ok("trim|definition", "terminator present ⇒ minus one byte; CRLF ∧ preceding byte == CR ⇒ minus one more", fn=tl)
            else:
                r.bad("trim|definition", "trim_line_terminator removes a second byte outside the `is_crlf() ∧ byte == \\r` case: the last "
                      "content byte of a line is cut off (or the CR is left on)", fn=tl, construct="trim_line_terminator")
        else:
            r.bad("trim|definition", "anchor-missing: trim_line_terminator no longer has the shape suffix-test / CRLF test / CR test", fn=tl,
                  construct="trim_line_terminator")
        # readers
        READS = {
            (STD, "matched"): ([STD + "::record_matches"], [STD + "::replace"], P + "::standard::StandardImpl::from_match"),
            (STD, "context"): ([STD + "::record_matches", "Vec::clear@matches"], [STD + "::replace", REPL + "::clear"],
                               P + "::standard::StandardImpl::from_context"),
            (JS, "matched"): ([JS + "::record_matches"], None, P + "::json::SubMatches::new"),
            (JS, "context"): ([JS + "::record_matches", "Vec::clear@matches"], None, P + "::json::SubMatches::new"),
        }
        for (adt, m), (mres, rres, reader) in READS.items():
            f = sink_fn(facts, adt, m)
            eb = ExprBuilder(f)
            rd = f.calls_to(reader)
            key = "%s|%s" % (adt.split("::")[-1], m)
            if not rd:
                r.bad(key, "anchor-missing: %s is not called in %s::%s" % (reader, adt, m), fn=f)
                continue
            owner = STANDARD if adt == STD else JSON

            def reset_blocks(names):
                out = set()
                for c in f.calls():
                    for n in names:
                        if n == "Vec::clear@matches":
                            if c.path.endswith("Vec::clear") and mentions_field(eb.operand(c.args[0]), owner, "matches"):
                                out.add(c.bb)
                        elif c.path == n:
                            out.add(c.bb)
                return out
            bad = []
            for c in rd:
                if C.all_paths_pass(f, [0], reset_blocks(mres), [c.bb]):
                    bad.append("match spans")
                if rres is not None and C.all_paths_pass(f, [0], reset_blocks(rres), [c.bb]):
                    bad.append("replacement")
            if bad:
                r.bad(key, "%s::%s reads the %s of the previous line: no clear / recompute dominates %s" % (
                    adt.split("::")[-1], m, " and ".join(sorted(set(bad))), reader.split("::")[-1]), fn=f, loc=rd[0].loc, construct="reset")
            else:
                r.ok(key, "every path to %s passes a clear or recompute of the scratch state" % reader.split("::")[-1], fn=f)

    with ctx.rule("C09.PRELUDE", "prelude order: path, line number, column, byte offset; 1-based columns", floor=2, kind="ORDER") as r:
        f = facts.fn(P + "::standard::StandardImpl::write_prelude")
        PW = P + "::standard::PreludeWriter::"
        order = []
        seen = {}
        for name in ("write_path", "write_line_number", "write_column_number", "write_byte_offset"):
            cs = f.calls_to(PW + name)
            if cs:
                seen[name] = cs[0]
        names = ["write_path", "write_line_number", "write_column_number", "write_byte_offset"]
        if len(seen) == 4:
            ok = all(seen[names[i + 1]].bb in C.reach_after(f, seen[names[i]].bb) and
                     seen[names[i]].bb not in C.reach_after(f, seen[names[i + 1]].bb) for i in range(3))
            if ok:
                r.ok("order", "path → line number → column → byte offset", fn=f)
            else:
                r.bad("order", "the prelude fields are not written in the documented order", fn=f, construct="order")
            eb = ExprBuilder(f)
            e = eb.operand(seen["write_column_number"].args[1])
            if any(x.k == "bin" and x[1] in ("Add", "AddWithOverflow") and any(y.k == "const" and y[1] == 1 for y in (x[2], x[3]))
                   for x in walk(e)) or any(x.k == "arg" for x in walk(e)):
                r.ok("column", "column derives from the match start (+1 at the call sites)", fn=f, nontrivial=False)
            else:
                r.bad("column", "column is `%s`" % show(e)[:60], fn=f)
        else:
            r.bad("order", "anchor-missing: PreludeWriter calls in write_prelude (%s)" % sorted(seen), fn=f)

    with ctx.rule("C09.OFFSET", "the byte offset printed in front of a line is the event's offset plus the line's (or match's) position "
                  "inside the event's bytes", floor=8, kind="FLOW") as r:
        ABO = "grep_searcher::sink::SinkMatch::absolute_byte_offset"
        SABO = P + "::util::Sunk::absolute_byte_offset"

        def peel(e):
            while isinstance(e, X) and (e.k in ("cast", "ref", "deref") or (e.k == "field" and e[2] == "(tuple)" and e[3] == "0" and
                                                                              isinstance(e[1], X) and e[1].k == "bin")):
                e = e[1]
            return e

        def is_base(e):
            return is_call(peel(e), SABO, ABO)

        def is_pos(e):
            # a position inside the event's bytes: the start of a Match (all Match values of the printer are relative to them)
            return is_call(peel(e), "grep_matcher::Match::start")

        def is_line_len(e):
            # the full length (terminator included) of a line handed out by the event's own line iterator
            e = peel(e)
            return is_call(e, "[T]::len", "core::slice::<impl [T]>::len") and any(is_call(x, "core::iter::traits::iterator::Iterator::next") for x in walk(e)) \
                and not any(is_call(x, "grep_matcher::Match::len") for x in walk(e))
        OM_CFG = P + "::standard::Config"

        def om_switches(g):
            return cond_switches(g, lambda e: any(x.k == "field" and x[3] == "only_matching" and x[2] == OM_CFG for x in walk(e)) and
                                 not any(x.k == "field" and x[3] in ("per_match", "replacement") for x in walk(e)), ExprBuilder(g))

        def under_only_matching(g, bb, depth=0):
            sw_ = om_switches(g)
            if sw_ and not guarded(g, [bb], sw_, True):
                return True
            # by value: with config.only_matching off the site is not reached (the flag may travel through an enum or a local)
            import json as _json
            if '"only_matching"' in _json.dumps(g.mir):
                sx_ = Sccp(g, field_model=lambda o_, n_: I(0) if (o_ == OM_CFG and n_ == "only_matching") else None).run([(0, {})])
                if bb not in sx_.exec_blocks:
                    return True
            if depth >= 2:
                return False
            callers = [(h_, c_) for h_ in facts.fns.values() if h_.crate == "grep_printer" for c_ in h_.calls_to(g.path)]
            return bool(callers) and all(under_only_matching(h_, c_.bb, depth + 1) for h_, c_ in callers)
        nsite = 0
        for n_, f in sorted(facts.fns.items()):
            if not n_.startswith(P + "::standard::StandardImpl::"):
                continue
            eb = ExprBuilder(f)
            for i, c in enumerate(f.calls_to(P + "::standard::StandardImpl::write_prelude")):
                nsite += 1
                key = "offset|%s|%d" % (n_.split("::")[-1], i)
                e = peel(eb.operand(c.args[1]))
                ok_ = False
                if is_base(e):
                    ok_, why = True, "the event's own offset"
                elif e.k == "bin" and e[1] in ("Add", "AddWithOverflow") and ((is_base(e[2]) and is_pos(e[3])) or (is_base(e[3]) and is_pos(e[2]))):
                    # which Match? a line obtained by stepping through the event's bytes (what follows the prelude is that
                    # line), or — only where --only-matching prints the matched text itself — a match
                    pos = peel(e[3] if is_base(e[2]) else e[2])
                    m_ = pos[3][0] if pos[3] else None
                    stepped = m_ is not None and any(is_call(x, "grep_matcher::Match::new", "grep_matcher::Match::with_start",
                                                             "grep_matcher::Match::with_end") for x in walk(m_))
                    if stepped:
                        ok_, why = True, "event offset + start of the line being printed"
                    elif under_only_matching(f, c.bb):
                        ok_, why = True, "event offset + start of the match (only-matching prints the match itself)"
                    else:
                        r.bad(key, "%s prints the offset of a match in front of a whole line (`%s`) outside --only-matching: the "
                              "documented offset is the line's (--vimgrep -b gave the match's offset in line mode and the line's "
                              "with -U)" % (n_.split("::")[-1], show(e)[:100]), fn=f, loc=c.loc, construct="offset")
                        continue
                elif e.k == "phi":
                    parts = [peel(x) for x in e[2]]
                    incs = [x for x in parts if not is_base(x)]
                    if any(is_base(x) for x in parts) and incs and all(
                            x.k == "bin" and x[1] in ("Add", "AddWithOverflow") and (is_line_len(x[3]) or is_line_len(x[2])) for x in incs):
                        ok_, why = True, "running offset: starts at the event's offset, grows by each full line's length"
                if ok_:
                    r.ok(key, why, fn=f)
                else:
                    r.bad(key, "%s prints `%s` as a line's byte offset: not the event's offset plus a position inside the event's bytes, so "
                          "the number no longer locates the line in the input (with a two-byte terminator, with trimming, …)"
                          % (n_.split("::")[-1], show(e)[:120]), fn=f, loc=c.loc, construct="offset")
        r.note_sites(nsite)
    with ctx.rule("C09.PATHS", "printer path selection: fast paths only without spans; multi-line paths only in multi-line mode", floor=2,
                  kind="GUARD") as r:
        f = facts.fn(P + "::standard::StandardImpl::sink")
        eb = ExprBuilder(f)
        SI = P + "::standard::StandardImpl::"
        # value table: (no match spans, multi_line(), is_context()) ∈ {0,1}³ → the one sink_* routine that runs
        from ..flow import table
        names = ("sink_fast", "sink_fast_multi_line", "sink_slow", "sink_slow_multi_line")
        sites = {n_: f.calls_to(SI + n_) for n_ in names}
        bad_fast, bad_ml = [], []
        for row, sx in table(facts, f, calls={"[T]::is_empty": [I(0), I(1)], "StandardImpl::multi_line": [I(0), I(1)],
                                              "StandardImpl::is_context": [I(0), I(1)], "StandardImpl::write_search_prelude": [V("Ok", None)]}):
            emp, ml_, ctx_ = row[("call", "[T]::is_empty")][1], row[("call", "StandardImpl::multi_line")][1], row[("call", "StandardImpl::is_context")][1]
            ran = sorted(n_ for n_, cs_ in sites.items() if any(c.bb in sx.exec_blocks for c in cs_))
            if not emp and any("fast" in n_ for n_ in ran):
                bad_fast.append("spans present, multi_line=%d context=%d ⇒ %s" % (ml_, ctx_, ran))
            if not ml_ and any("multi_line" in n_ for n_ in ran):
                bad_ml.append("multi_line()=0 ⇒ %s" % ran)
            if len(ran) != 1:
                bad_fast.append("empty=%d multi_line=%d context=%d ⇒ %s (exactly one routine expected)" % (emp, ml_, ctx_, ran))
        if not all(sites.values()):
            r.bad("fast", "anchor-missing: StandardImpl::sink no longer dispatches to %s" % [n_ for n_ in names if not sites[n_]], fn=f)
        elif bad_fast:
            r.bad("fast", "a fast printing path can run while match spans exist (colours/columns/replacements would be lost): %s"
                  % bad_fast[0], fn=f, construct="fast")
        else:
            r.ok("fast", "fast printers only when no match spans are needed (8 rows, one routine each)", fn=f)
        if bad_ml:
            r.bad("multi_line", "a multi-line printing path can run for a single-line search: %s" % bad_ml[0], fn=f, construct="multi_line")
        else:
            r.ok("multi_line", "multi-line printers only under multi_line()", fn=f)
