"""C05 — which files are searched follows the documented precedence of filters."""
import itertools
from .. import cfg as C
from .. import hirx as H
from ..flow import ExprBuilder, mentions_field, mentions_call, is_call, is_field, walk, show, cond_switches, \
    guarded, seed_after_call, Sccp, I, V, X, strip, value_set, ret_set
from ..graph import field_rw, field_rw_deep, enum_table, discr_switches
from ..facts import op_const, op_place, fields_of_place, place_key
from .. import wire as W

TITLE = "filter precedence"
EXPLANATION = (
    "Decided on the MIR/HIR of crates ignore and rg: (CHAIN) the value returned by Ignore::matched_ignore is a "
    "left-nested Match::or chain whose operands derive, in order, from the matcher fields custom (.rgignore) > "
    ".ignore > .gitignore > info/exclude > global > --ignore-file, and Match::or/invert/map/is_* are decided as "
    "exhaustive tables; (GIT) every use of a git-sourced matcher is guarded by the any-git condition and the four "
    "per-directory ones by !saw_git; (NEAREST) every accumulator assignment is guarded by is_none() of the same "
    "accumulator; (TOP) override / ignore short-circuits and hidden only when nothing matched; (FLAGS) the write "
    "set of every Flag::update over the protected LowArgs fields equals the documented table and -u delegates at "
    "counts 1,2,3; (WIRE) HiArgs::walk_builder passes each WalkBuilder option the specified boolean formula "
    "(truth-table exact) and from_low_args copies same-named fields; (OPTS) builder forwarders and option->file-name "
    "pairing; (EXPLICIT) explicit paths bypass filters. What one ignore file means (C04) and glob semantics (C12) "
    "are not decided here. (NEAREST also decides cross-source independence: whether a source is consulted at a directory never depends on what another source matched.)")
NOT_DECIDED = ["what a single ignore file means (C04)", "-g/-t glob semantics (C12)",
               "path re-basing for parent directories (strip_prefix arithmetic)"]

D = "ignore::dir"
INNER = D + "::IgnoreInner"
OPTS = D + "::IgnoreOptions"
MATCH = "ignore::Match"
GI_MATCHED = "ignore::gitignore::Gitignore::matched"
CHAIN_ORDER = ["custom_ignore_matcher", "ignore_matcher", "git_ignore_matcher", "git_exclude_matcher",
               "git_global_matcher", "explicit_ignores"]
MATCHER_FIELDS = set(CHAIN_ORDER)


def matcher_fields_in(e):
    return {x[3] for x in walk(e) if x.k == "field" and x[2] == INNER and x[3] in MATCHER_FIELDS}


def chain_rule(ctx, r):
    facts = ctx.facts
    f = facts.fn(D + "::Ignore::matched_ignore")
    eb = ExprBuilder(f)
    e = eb.local(0)
    ops = []
    cur = e
    while is_call(cur, MATCH + "::or"):
        ops.append(cur[3][1])
        cur = cur[3][0]
    ops.append(cur)
    ops.reverse()
    if len(ops) != len(CHAIN_ORDER):
        r.bad("shape", "matched_ignore returns a Match::or chain of %d operands, expected %d (%s)"
              % (len(ops), len(CHAIN_ORDER), show(e)), fn=f)
        return
    for i, (op, want) in enumerate(zip(ops, CHAIN_ORDER)):
        got = matcher_fields_in(op)
        key = "operand|%d|%s" % (i, want)
        if got == {want}:
            r.ok(key, "operand %d derives from IgnoreInner.%s" % (i, want), fn=f)
        else:
            r.bad(key, "precedence position %d of the .or() chain derives from %s, expected %s"
                  % (i, sorted(got) or "no matcher field", want), fn=f, construct=want)


def tables_rule(ctx, r):
    facts = ctx.facts
    want = {
        "is_none": {"None": I(1), "Ignore": I(0), "Whitelist": I(0)},
        "is_ignore": {"None": I(0), "Ignore": I(1), "Whitelist": I(0)},
        "is_whitelist": {"None": I(0), "Ignore": I(0), "Whitelist": I(1)},
    }
    for m, tab in want.items():
        f = facts.fn(MATCH + "::" + m)
        t = enum_table(f)
        if t is None:
            r.bad(m, "anchor-missing: Match::%s is not a match on self" % m, fn=f)
            continue
        for v, val in tab.items():
            got = t[1].get(v)
            if got == val:
                r.ok("%s|%s" % (m, v), "Match::%s(%s) = %s" % (m, v, bool(val[1])), fn=f)
            else:
                r.bad("%s|%s" % (m, v), "Match::%s(%s) returns %s, specified %s" % (m, v, got, bool(val[1])), fn=f)
    for m, tab in (("invert", {"None": "None", "Ignore": "Whitelist", "Whitelist": "Ignore"}),
                   ("map", {"None": "None", "Ignore": "Ignore", "Whitelist": "Whitelist"})):
        f = facts.fn(MATCH + "::" + m)
        t = enum_table(f)
        if t is None:
            r.bad(m, "anchor-missing: Match::%s is not a match on self" % m, fn=f)
            continue
        for v, out in tab.items():
            got = t[1].get(v)
            if got is not None and got[0] == "v" and got[1] == out:
                r.ok("%s|%s" % (m, v), "Match::%s(%s) = %s" % (m, v, out), fn=f)
            else:
                r.bad("%s|%s" % (m, v), "Match::%s(%s) yields %s, specified %s" % (m, v, got, out), fn=f)
    # or: first non-None
    f = facts.fn(MATCH + "::or")
    isn = f.calls_to(MATCH + "::is_none")
    if len(isn) != 1:
        r.bad("or", "anchor-missing: Match::or does not test is_none once", fn=f)
    else:
        eb = ExprBuilder(f)
        if not any(x.k == "arg" and x[1] == 1 for x in walk(eb.operand(isn[0].args[0]))):
            r.bad("or|subject", "Match::or tests is_none() of something other than self", fn=f)
        for val, want_arg, label in ((I(1), 2, "other"), (I(0), 1, "self")):
            s = seed_after_call(f, isn[0], val)
            srcs = set()
            for bb, j, st in f.stmts():
                if bb in s.exec_blocks and st["k"] == "assign" and st["place"]["l"] == 0 and not st["place"]["p"]:
                    p = op_place(st["rv"].get("a", {})) if st["rv"]["k"] == "use" else None
                    srcs.add(p["l"] if p else None)
            if srcs == {want_arg}:
                r.ok("or|%s" % label, "is_none()=%s ⇒ returns %s" % (bool(val[1]), label), fn=f)
            else:
                r.bad("or|%s" % label, "Match::or returns %s when self.is_none() is %s, specified %s"
                      % (srcs, bool(val[1]), label), fn=f)


def named_local(f, name):
    ls = [i for i, l in enumerate(f.locals) if l.get("name") == name]
    return ls


def git_rule(ctx, r):
    facts = ctx.facts
    f = facts.fn(D + "::Ignore::matched_ignore")
    eb = ExprBuilder(f)
    sites = []
    for c in f.calls_to(GI_MATCHED):
        flds = matcher_fields_in(eb.operand(c.args[0]))
        sites.append((c, flds))
    # the "any git" local: a value one of whose definitions is Iterator::any over the parents with a
    # closure reading has_git (identified by what it is computed from, not by its name)
    any_l = None
    for l in range(len(f.locals)):
        e = eb.local(l)
        if e.k != "phi" or e[1] != l:
            continue
        for m in e[2]:
            if is_call(m, "core::iter::traits::iterator::Iterator::any"):
                clos = [x for x in walk(m) if x.k == "closure"]
                for cl in clos:
                    g = facts.fns.get(cl[1])
                    if g is not None and (INNER, "has_git") in field_rw(g)[0]:
                        any_l = l
    if any_l is None:
        r.bad("any_git", "anchor-missing: no value computed as parents().any(|ig| ig.has_git) in matched_ignore", fn=f)
        return
    any_git_sw = cond_switches(f, lambda e: e.k == "phi" and e[1] == any_l, eb)
    saw_git_sw = cond_switches(
        f, lambda e: e.k == "phi" and e[1] != any_l and mentions_field(e, INNER, "has_git"), eb)
    n_git = 0
    for fld in ("git_ignore_matcher", "git_exclude_matcher", "git_global_matcher"):
        ss = [c for c, fl in sites if fl == {fld}]
        want_n = 1 if fld == "git_global_matcher" else 2
        if len(ss) < want_n:
            r.bad("sites|%s" % fld, "anchor-missing: %d use(s) of %s, expected %d" % (len(ss), fld, want_n), fn=f)
        for i, c in enumerate(ss):
            n_git += 1
            key = "%s|%d" % (fld, i)
            if not any_git_sw or guarded(f, [c.bb], any_git_sw, True):
                r.bad(key, "%s is consulted at %s without the 'inside a git repository or --no-require-git' "
                      "condition" % (fld, c.loc), fn=f, loc=c.loc, construct=fld)
                continue
            if fld != "git_global_matcher":
                if not saw_git_sw or guarded(f, [c.bb], saw_git_sw, False):
                    r.bad(key, "%s is consulted at %s even after a repository root was passed (missing !saw_git)"
                          % (fld, c.loc), fn=f, loc=c.loc, construct=fld)
                    continue
            r.ok(key, "guarded by any_git%s" % ("" if fld == "git_global_matcher" else " ∧ !saw_git"), fn=f)
    # any_git definition: `true` only under !require_git, otherwise the scan of the parents
    rq = cond_switches(f, lambda e: is_field(strip(e), OPTS, "require_git"), eb)
    ctrue = [bb for bb, j, st in f.stmts() if st["k"] == "assign" and st["place"]["l"] == any_l
             and (op_const(st["rv"].get("a", {})) or {}).get("val") == 1]
    if rq and ctrue and not guarded(f, ctrue, rq, False):
        r.ok("any_git", "any_git = !opts.require_git || parents().any(has_git)", fn=f)
    else:
        r.bad("any_git", "the git gate is no longer `!require_git || some parent has .git`", fn=f)
    # non-git sources must NOT be gated by git
    for fld in ("custom_ignore_matcher", "ignore_matcher"):
        ss = [c for c, fl in sites if fl == {fld}]
        for i, c in enumerate(ss):
            if any_git_sw and not guarded(f, [c.bb], any_git_sw, True):
                r.bad("%s|%d" % (fld, i), "%s (not a git source) is only consulted inside a git repository" % fld,
                      fn=f, loc=c.loc, construct=fld)
            else:
                r.ok("%s|%d" % (fld, i), "not gated by git", fn=f, nontrivial=False)


def nearest_rule(ctx, r):
    facts = ctx.facts
    f = facts.fn(D + "::Ignore::matched_ignore")
    eb = ExprBuilder(f)
    n = 0
    ordn = {}
    for c in f.calls_to(GI_MATCHED):
        flds = matcher_fields_in(eb.operand(c.args[0]))
        if len(flds) != 1:
            continue
        fld = next(iter(flds))
        if fld == "git_global_matcher":
            continue
        # which accumulator does the result flow into? follow dest through Match::map to a named local
        acc = flows_into_named(f, c)
        k = ordn.get(fld, 0)
        ordn[fld] = k + 1
        key = "%s|%d" % (fld, k)
        if acc is None:
            r.bad(key, "result of %s.matched at %s does not flow into an accumulator" % (fld, c.loc), fn=f, loc=c.loc)
            continue
        sw = cond_switches(f, lambda e: is_call(e, MATCH + "::is_none") and
                           any(y.k in ("phi", "local") and y[1] == acc for y in walk(e[3][0])), eb)
        n += 1
        pol = True
        if fld == "explicit_ignores":
            # `if !m_explicit.is_none() { break }` before the assignment
            pass
        if not sw or guarded(f, [c.bb], sw, True):
            r.bad(key, "assignment of %s from %s at %s is not guarded by %s.is_none(): a farther directory "
                  "could override a nearer one" % (f.local_name(acc), fld, c.loc, f.local_name(acc)),
                  fn=f, loc=c.loc, construct=fld)
        else:
            r.ok(key, "guarded by %s.is_none()" % f.local_name(acc), fn=f)
    # cross-source independence: whether source A is consulted at a directory must not depend on what ANOTHER
    # source said (nearest-first holds within one source only; precedence between sources is decided by the
    # .or() chain afterwards)
    accs = {}
    for c in f.calls_to(GI_MATCHED):
        flds = matcher_fields_in(eb.operand(c.args[0]))
        if len(flds) == 1 and next(iter(flds)) != "git_global_matcher":
            a = flows_into_named(f, c)
            if a is not None:
                accs.setdefault(a, []).append(c)
    def isnone_of(e):
        out = set()
        for x in walk(e):
            if is_call(x, MATCH + "::is_none"):
                for y in walk(x[3][0]):
                    if y.k in ("phi", "local") and y[1] in accs:
                        out.add(y[1])
        return out
    all_sw = cond_switches(f, lambda e: bool(isnone_of(e)), eb)
    for a, cs in sorted(accs.items()):
        foreign = [s_ for s_ in all_sw if isnone_of(s_[3]) - {a}]
        bad = []
        for c in cs:
            for s_ in foreign:
                if not guarded(f, [c.bb], [s_], True) or not guarded(f, [c.bb], [s_], False):
                    bad.append((c, s_))
        key = "independent|%s" % f.local_name(a)
        if bad:
            c, s_ = bad[0]
            others = sorted(f.local_name(x) for x in isnone_of(s_[3]) - {a})
            r.bad(key, "whether %s is consulted at %s depends on what another rule source matched (%s): a lower-precedence "
                  "source found nearer would shadow a higher-precedence one found farther up" % (f.local_name(a), c.loc, ", ".join(others)),
                  fn=f, loc=c.loc, construct="independence")
        else:
            r.ok(key, "%d assignment site(s) of %s do not depend on other sources' results" % (len(cs), f.local_name(a)), fn=f)
    # the two directory loops partition the parents at the search root: take_while(!is_absolute_parent) /
    # skip_while(!is_absolute_parent); explicit ignore files are scanned last-added first
    parts = {"take_while": None, "skip_while": None}
    for c in f.calls():
        nm = c.path.split("::")[-1]
        if nm in parts and c.path.startswith("core::iter::traits::iterator::Iterator::"):
            cl = [x for x in walk(eb.operand(c.args[1])) if x.k == "closure"]
            g_ = facts.fns.get(cl[0][1]) if cl else None
            if g_ is not None:
                eg = ExprBuilder(g_).local(0)
                parts[nm] = eg.k == "not" and is_field(strip(eg[1]), INNER, "is_absolute_parent")
    if parts["take_while"] and parts["skip_while"]:
        r.ok("partition", "in-root directories: take_while(!is_absolute_parent); above the root: skip_while(!is_absolute_parent)", fn=f)
    else:
        r.bad("partition", "the two directory loops no longer partition the parents at the search root (%s)" % parts, fn=f, construct="partition")
    # whatever consumes the iterator over explicit_ignores (the `next` of a for loop, find, find_map, …) consumes it reversed
    CONSUMERS = ("next", "find", "find_map", "any", "all", "fold", "try_fold", "for_each", "try_for_each", "last", "position",
                 "collect", "nth")
    ex = [c for c in f.calls() if c.path.startswith("core::iter::traits::iterator::Iterator::") and c.path.rsplit("::", 1)[1] in CONSUMERS and
          c.args and mentions_field(eb.operand(c.args[0]), INNER, "explicit_ignores")]
    if ex and all("rev::Rev" in (c.func.get("resolved") or "") or mentions_call(eb.operand(c.args[0]), "core::iter::traits::iterator::Iterator::rev")
                  for c in ex):
        r.ok("explicit-order", "--ignore-file matchers are consulted last-added first", fn=f)
    else:
        r.bad("explicit-order", "explicit ignore files are no longer scanned in reverse order of addition", fn=f, construct="explicit-order")
    # the repository-root flag: starts false, only ever accumulates has_git
    sg = None
    for l_ in range(len(f.locals)):
        e_ = eb.local(l_)
        if e_.k == "phi" and e_[1] == l_ and f.local_ty(l_) == "bool" and any(m_.k == "const" and m_[1] == 0 for m_ in e_[2]) and \
                any(mentions_field(m_, INNER, "has_git") for m_ in e_[2]) and \
                not any(is_call(m_, "core::iter::traits::iterator::Iterator::any") for m_ in e_[2]) and \
                f.locals[l_].get("name"):          # a user variable (the accumulator), not a lowering temporary of `a || b`
            sg = (l_, e_)
    if sg:
        def fine(m_):
            if m_.k == "const":
                return m_[1] == 0
            if m_.k in ("phi", "local") and m_[1] == sg[0]:
                return True
            if m_.k == "phi":      # the lowered `saw_git || has_git`: φ(true, has_git)
                return all((x.k == "const" and x[1] == 1) or mentions_field(x, INNER, "has_git") for x in m_[2])
            return mentions_field(m_, INNER, "has_git")
        if all(fine(m_) for m_ in sg[1][2]):
            r.ok("saw_git", "the 'passed a repository root' flag starts false and only accumulates has_git", fn=f)
        else:
            r.bad("saw_git", "the 'passed a repository root' flag is initialised / updated differently (%s)" % show(sg[1])[:80], fn=f, construct="saw_git")
    else:
        r.bad("saw_git", "anchor-missing: no accumulator of has_git (initialised false) in matched_ignore", fn=f)
    # absolute-parent loop guarded by opts.parents
    sw = cond_switches(f, lambda e: is_field(strip(e), OPTS, "parents") or mentions_field(e, OPTS, "parents"), eb)
    ab = f.calls_to(D + "::Ignore::absolute_base")
    if sw and ab and not guarded(f, [ab[0].bb], sw, True):
        r.ok("parents", "parent-directory rules only under opts.parents", fn=f)
    else:
        r.bad("parents", "rules of directories above the root are consulted regardless of opts.parents", fn=f)


def flows_into_named(f, call, depth=0):
    """Follow a call's destination through Match::map / moves to a user-named local."""
    l = call.dest["l"]
    seen = set()
    work = [l]
    while work:
        x = work.pop()
        if x in seen:
            continue
        seen.add(x)
        if f.locals[x].get("name"):
            return x
        for bb, j, st in f.stmts():
            if st["k"] == "assign" and st["rv"]["k"] == "use":
                p = op_place(st["rv"]["a"])
                if p and p["l"] == x and not st["place"]["p"]:
                    work.append(st["place"]["l"])
        for c in f.calls():
            for a in c.args:
                p = op_place(a)
                if p and p["l"] == x and c.path in (MATCH + "::map",) and c.dest is not None:
                    work.append(c.dest["l"])
    return None


def top_rule(ctx, r):
    facts = ctx.facts
    f = facts.fn(D + "::Ignore::matched")
    eb = ExprBuilder(f)
    ov = f.calls_to("ignore::overrides::Override::matched")
    mi = f.calls_to(D + "::Ignore::matched_ignore")
    ty = f.calls_to("ignore::types::Types::matched")
    if not (ov and mi and ty):
        r.bad("sites", "anchor-missing: Ignore::matched must call Override::matched, matched_ignore, Types::matched", fn=f)
        return
    # order: overrides before ignore before types
    if C.dominates(f, ov[0].bb, mi[0].bb) or not (ov[0].bb in C.reach(f, [mi[0].bb])):
        pass
    order_ok = (mi[0].bb in C.reach_after(f, ov[0].bb) and ov[0].bb not in C.reach_after(f, mi[0].bb)
                and ty[0].bb in C.reach_after(f, mi[0].bb) and mi[0].bb not in C.reach_after(f, ty[0].bb))
    if order_ok:
        r.ok("order", "overrides → ignore rules → file types", fn=f)
    else:
        r.bad("order", "Ignore::matched does not consult overrides, then ignore rules, then types in that order", fn=f)
    # Value table over the verdicts of the three stages (None / Ignore / Whitelist, the Match methods evaluated in place):
    # a verdict of the override stage decides at once; an ignore verdict of a later stage is returned at once. Whether the
    # function tests with is_none()/is_ignore() or matches on the enum does not matter.
    from ..flow import table
    OVM, MIM, TYM = "overrides::Override::matched", "dir::Ignore::matched_ignore", "types::Types::matched"
    verdicts = [V("None", None), V("Ignore", None), V("Whitelist", None)]
    bad_ov = []
    from ..flow import combinator_model
    mm = combinator_model(facts, lambda c_, a_: None, callees=lambda p_: p_.startswith(MATCH + "::"))
    for verdict in ("Ignore", "Whitelist"):
        s_ = Sccp(f, call_model=mm)
        env_ = {}
        Sccp._write(env_, place_key(ov[0].dest), V(verdict, None))
        s_ = s_.run([(ov[0].target, env_)])
        later = [c for c in mi + ty if c.bb in s_.exec_blocks]
        if later or not s_.ret_values:
            bad_ov.append((verdict, later[0].path if later else "no return"))
    if bad_ov:
        r.bad("override", "a matching -g/override glob does not decide immediately (%s still consulted after %s)"
              % (bad_ov[0][1], bad_ov[0][0]), fn=f, loc=ov[0].loc)
    else:
        r.ok("override", "override match ⇒ returned, nothing else consulted", fn=f)
    # ... and a verdict that does not decide lets the next stage speak: a whitelist from an ignore file does not exempt the
    # file from the type filter (nor does "no verdict")
    for verdict in ("None", "Whitelist"):
        s_ = Sccp(f, call_model=mm)
        env_ = {}
        Sccp._write(env_, place_key(mi[0].dest), V(verdict, None))
        s_ = s_.run([(mi[0].target, env_)])
        if not any(c.bb in s_.exec_blocks for c in ty):
            r.bad("types|reached", "after the ignore rules answered %s the file-type filter is not consulted any more: a file "
                  "whitelisted by an ignore file escapes -t / -T" % verdict, fn=f, loc=mi[0].loc, construct="types")
            break
    else:
        r.ok("types|reached", "ignore rules answering None / Whitelist ⇒ the type filter is still consulted", fn=f)
    for lbl, site, others in (("ignore", mi[0], ty), ("types", ty[0], [])):
        s_ = Sccp(f, call_model=mm)
        env_ = {}
        Sccp._write(env_, place_key(site.dest), V("Ignore", None))
        s_ = s_.run([(site.target, env_)])
        later = [c for c in others if c.bb in s_.exec_blocks]
        if later or not s_.ret_values:
            r.bad(lbl, "an ignore verdict of %s is not returned immediately" % site.path.split("::")[-1], fn=f, loc=site.loc)
        else:
            r.ok(lbl, "ignore verdict ⇒ returned", fn=f)
    # the three stages are consulted exactly when they hold rules
    har = facts.fn(D + "::Ignore::has_any_ignore_rules")
    # value table (64 rows): four options, and whether the two lists are empty
    wrong_h = []
    for row, sx in table(facts, har, fields={(OPTS, n_): [I(0), I(1)] for n_ in ("ignore", "git_global", "git_ignore", "git_exclude")},
                         calls={"Vec::is_empty": [I(0), I(1)]}):
        # (both lists share one is_empty model: the formula is symmetric in them; their individual use is checked by name)
        opts_on = any(row[("field", (OPTS, n_))][1] for n_ in ("ignore", "git_global", "git_ignore", "git_exclude"))
        empty = row[("call", "Vec::is_empty")][1]
        want = I(int(bool(opts_on or not empty)))
        if ret_set(sx) != {want}:
            wrong_h.append("%s lists empty=%d ⇒ %s" % ({n_: row[("field", (OPTS, n_))][1] for n_ in ("ignore", "git_global", "git_ignore", "git_exclude")},
                                                         empty, sorted(map(str, ret_set(sx)))))
    import json as _json
    both_lists = all('"%s"' % n_ in _json.dumps(har.mir) for n_ in ("custom_ignore_filenames", "explicit_ignores"))
    okh = not wrong_h and both_lists
    det = wrong_h[0] if wrong_h else ("32 rows" if both_lists else "one of the two lists is not consulted")
    if okh:
        r.ok("any-rules", "has_any_ignore_rules ≡ any option on ∨ custom names ∨ explicit ignores (%s)" % det, fn=har)
    else:
        r.bad("any-rules", "has_any_ignore_rules: %s (a source could be skipped entirely)" % det, fn=har, construct="any-rules")
    for callee, gate, pol, lbl in ((ov[0], "ignore::overrides::Override::is_empty", False, "overrides"),
                                   (mi[0], D + "::Ignore::has_any_ignore_rules", True, "ignore rules"),
                                   (ty[0], "ignore::types::Types::is_empty", False, "types")):
        sw = cond_switches(f, lambda e: is_call(e, gate), eb)
        if sw and not guarded(f, [callee.bb], sw, pol):
            # and nothing else gates it: the stage is consulted whenever the gate allows
            r.ok("stage|" + lbl, "%s consulted iff %s%s" % (lbl, "" if pol else "!", gate.split("::")[-1]), fn=f)
        else:
            r.bad("stage|" + lbl, "the %s stage is not consulted exactly when it holds rules" % lbl, fn=f, construct="stage")
    # hidden only when nothing matched
    g = facts.fn(D + "::Ignore::matched_dir_entry")
    ebg = ExprBuilder(g)
    hid = g.calls_to(D + "::IgnoreMatch::hidden")
    if not hid:
        r.bad("hidden", "anchor-missing: matched_dir_entry never produces IgnoreMatch::hidden()", fn=g)
    else:
        # value table: verdict of Ignore::matched ∈ {None, Ignore, Whitelist}, opts.hidden ∈ {0,1}, is_hidden(dent) ∈ {0,1}
        wrong = []
        for row, sx in table(facts, g, calls={"dir::Ignore::matched": verdicts, "pathutil::is_hidden": [I(0), I(1)]},
                             fields={(OPTS, "hidden"): [I(0), I(1)]}, callees=lambda p_: p_.startswith(MATCH + "::")):
            v_, oh, ih = row[("call", "dir::Ignore::matched")][1], row[("field", (OPTS, "hidden"))][1], row[("call", "pathutil::is_hidden")][1]
            want = v_ == "None" and oh == 1 and ih == 1
            ran = any(c.bb in sx.exec_blocks for c in hid)
            if ran != want:
                wrong.append("verdict=%s opts.hidden=%d is_hidden=%d ⇒ hidden() %s" % (v_, oh, ih, "produced" if ran else "not produced"))
        if wrong:
            r.bad("hidden", "the hidden-file verdict is not produced exactly under m.is_none() ∧ opts.hidden ∧ is_hidden(dent) (%s): a "
                  "whitelisted or ignored entry could be overridden by the hidden rule" % wrong[0], fn=g, loc=hid[0].loc)
        else:
            r.ok("hidden", "hidden ⇔ m.is_none() ∧ opts.hidden ∧ is_hidden (12 rows)", fn=g)
    # Override::matched
    o = facts.fn("ignore::overrides::Override::matched")
    ebo = ExprBuilder(o)
    # value table over (gitignore verdict, num_whitelists, is_dir): the override's answer is the gitignore verdict inverted;
    # nothing matched becomes Ignore exactly when whitelist globs exist and the entry is not a directory
    wrong_inv, wrong_unm = [], []
    gi_calls = o.calls_to(GI_MATCHED)
    isdir_arg = [i for i, l_ in enumerate(o.locals) if l_.get("name") == "is_dir" and 0 < i <= o.argc]
    if not gi_calls or not isdir_arg:
        r.bad("override|invert", "Override::matched does not invert the gitignore verdict", fn=o)
        r.bad("override|unmatched", "anchor-missing: Override::matched no longer consults its gitignore matcher", fn=o)
    else:
        for row, sx in table(facts, o, calls={GI_MATCHED.split("::", 1)[1]: verdicts, "Override::num_whitelists": [I(0), I(2)],
                                              "Override::is_empty": [I(0)]},
                             args={isdir_arg[0]: [I(0), I(1)]}, callees=lambda p_: p_.startswith(MATCH + "::")):
            gv = row[("call", GI_MATCHED.split("::", 1)[1])][1]
            nw, isd = row[("call", "Override::num_whitelists")][1], row[("arg", isdir_arg[0])][1]
            got = {("?" if v is None else v[1]) for v in ret_set(sx)}
            if gv == "None":
                want = "Ignore" if (nw > 0 and not isd) else "None"
                if got != {want}:
                    wrong_unm.append("nothing matched, whitelists=%d is_dir=%d ⇒ %s" % (nw, isd, sorted(got)))
            else:
                want = "Whitelist" if gv == "Ignore" else "Ignore"
                if got != {want}:
                    wrong_inv.append("gitignore says %s ⇒ %s" % (gv, sorted(got)))
        if wrong_inv:
            r.bad("override|invert", "Override::matched does not invert the gitignore verdict (%s)" % "; ".join(wrong_inv[:2]), fn=o)
        else:
            r.ok("override|invert", "override = inverted gitignore match", fn=o)
        if wrong_unm:
            r.bad("override|unmatched", "'unmatched ⇒ ignore' is not decided by is_none ∧ whitelists>0 ∧ !is_dir (%s)" % "; ".join(wrong_unm[:2]),
                  fn=o)
        else:
            r.ok("override|unmatched", "unmatched ⇒ Ignore only under is_none ∧ whitelists>0 ∧ !is_dir", fn=o)


LOW = "rg::flags::lowargs::LowArgs"
PROTECTED = {"no_ignore_dot", "no_ignore_exclude", "no_ignore_files", "no_ignore_global", "no_ignore_parent",
             "no_ignore_vcs", "no_require_git", "hidden"}
FLAG_TABLE = {
    "NoIgnore": {"no_ignore_dot", "no_ignore_exclude", "no_ignore_global", "no_ignore_parent", "no_ignore_vcs"},
    "NoIgnoreDot": {"no_ignore_dot"}, "NoIgnoreExclude": {"no_ignore_exclude"}, "NoIgnoreFiles": {"no_ignore_files"},
    "NoIgnoreGlobal": {"no_ignore_global"}, "NoIgnoreParent": {"no_ignore_parent"}, "NoIgnoreVcs": {"no_ignore_vcs"},
    "NoRequireGit": {"no_require_git"}, "Hidden": {"hidden"},
}


def flags_rule(ctx, r):
    facts = ctx.facts
    ups = facts.impl_methods("rg::flags::Flag", "update")
    if len(ups) < 90:
        r.bad("count", "anchor-missing: only %d Flag::update impls found" % len(ups))
    seen = set()
    for f in sorted(ups, key=lambda f: f.path):
        flag = f.d.get("impl_self", "").split("::")[-1]
        _, w, mb = field_rw(f)
        wrote = {fl for o, fl in (w | mb) if o == LOW and fl in PROTECTED}
        want = FLAG_TABLE.get(flag, set())
        if flag in FLAG_TABLE:
            seen.add(flag)
        if flag not in FLAG_TABLE and not wrote:
            r.ok(flag, "writes no protected filter field", fn=f, nontrivial=False)
            continue
        if wrote != want:
            extra, missing = wrote - want, want - wrote
            r.bad(flag, "--%s: %s%s" % (flag, ("also changes %s " % sorted(extra)) if extra else "",
                                        ("does not set %s" % sorted(missing)) if missing else ""), fn=f, construct=flag)
            continue
        if flag in FLAG_TABLE:
            # value written is the switch value, not negated
            eb = ExprBuilder(f)
            okv = True
            for bb, j, st in f.stmts():
                if st["k"] == "assign" and any(o == LOW and fl in PROTECTED for o, fl in fields_of_place(st["place"])):
                    e = eb.rvalue(st["rv"])
                    if not mentions_call(e, "rg::flags::FlagValue::unwrap_switch") or any(x.k == "not" for x in walk(e)):
                        okv = False
            if okv:
                r.ok(flag, "writes exactly %s with the switch value" % sorted(want), fn=f)
            else:
                r.bad(flag, "--%s does not store the (un-negated) switch value" % flag, fn=f)
    for flag in FLAG_TABLE:
        if flag not in seen:
            r.bad(flag, "anchor-missing: flag %s has no update impl" % flag)
    # -u delegation
    u = [f for f in ups if f.d.get("impl_self", "").endswith("::Unrestricted")]
    if not u:
        r.bad("Unrestricted", "anchor-missing: Unrestricted::update")
        return
    u = u[0]
    eb = ExprBuilder(u)

    def count_sw(k):
        return cond_switches(u, lambda e: e.k == "bin" and e[1] == "Eq" and mentions_field(e, LOW, "unrestricted")
                             and any(y.k == "const" and y[1] == k for y in (e[2], e[3])), eb)
    deleg = {1: "NoIgnore", 2: "Hidden", 3: "Binary"}
    for k, flag in deleg.items():
        cs = [c for c in u.calls() if c.is_("<rg::flags::defs::%s as rg::flags::Flag>::update" % flag)]
        key = "Unrestricted|%d" % k
        if len(cs) != 1:
            r.bad(key, "-u x%d does not delegate to --%s exactly once" % (k, flag), fn=u)
            continue
        ok = True
        if k in (1, 2):
            sw = count_sw(k)
            ok = bool(sw) and not guarded(u, [cs[0].bb], sw, True)
        else:
            sw1, sw2 = count_sw(1), count_sw(2)
            ok = bool(sw1) and bool(sw2) and not guarded(u, [cs[0].bb], sw1, False) and not guarded(u, [cs[0].bb], sw2, False)
        sv = op_const(cs[0].args[1]) if len(cs[0].args) > 1 else None
        e = eb.operand(cs[0].args[1]) if len(cs[0].args) > 1 else None
        on = e is not None and e.k == "agg" and e[2] == "Switch" and e[3] and e[3][0].k == "const" and e[3][0][1] == 1
        if ok and on:
            r.ok(key, "count == %d ⇒ %s.update(Switch(true))" % (k, flag), fn=u)
        else:
            r.bad(key, "-u x%d: delegation to --%s is %s" % (k, flag, "not guarded by the repeat count" if not ok
                                                            else "not Switch(true)"), fn=u, loc=cs[0].loc)


HI = "rg::flags::hiargs::HiArgs"
WB = "ignore::walk::WalkBuilder"


def wire_rule(ctx, r):
    facts = ctx.facts
    f = facts.fn(HI + "::walk_builder")
    env = H.LetEnv(f.hir)
    calls = {}
    for m in H.mcalls(f.hir, recv_ty=WB):
        calls.setdefault(m["name"], []).append(m)

    def n(a):
        return "self." + a
    BOOL = {
        "hidden": ([n("hidden")], lambda v: not v[n("hidden")]),
        "parents": ([n("no_ignore_parent")], lambda v: not v[n("no_ignore_parent")]),
        "ignore": ([n("no_ignore_dot")], lambda v: not v[n("no_ignore_dot")]),
        "git_global": ([n("no_ignore_vcs"), n("no_ignore_global")],
                       lambda v: not v[n("no_ignore_vcs")] and not v[n("no_ignore_global")]),
        "git_ignore": ([n("no_ignore_vcs")], lambda v: not v[n("no_ignore_vcs")]),
        "git_exclude": ([n("no_ignore_vcs"), n("no_ignore_exclude")],
                        lambda v: not v[n("no_ignore_vcs")] and not v[n("no_ignore_exclude")]),
        "require_git": ([n("no_require_git")], lambda v: not v[n("no_require_git")]),
        "ignore_case_insensitive": ([n("ignore_file_case_insensitive")], lambda v: v[n("ignore_file_case_insensitive")]),
        "follow_links": ([n("follow")], lambda v: v[n("follow")]),
        "same_file_system": ([n("one_file_system")], lambda v: v[n("one_file_system")]),
    }
    VALUE = {"max_depth": "self.max_depth", "max_filesize": "self.max_filesize", "threads": "self.threads",
             "overrides": "self.globs.clone()", "types": "self.types.clone()"}
    for name, (atoms, spec) in BOOL.items():
        ms = calls.get(name, [])
        if len(ms) != 1:
            r.bad(name, "walk_builder calls WalkBuilder::%s %d times, expected once" % (name, len(ms)), fn=f)
            continue
        ok, detail = H.equivalent(ms[0]["args"][0], atoms, spec, env=env)
        if ok:
            r.ok(name, "%s(%s) ≡ spec (%s)" % (name, H.canon(ms[0]["args"][0], env), detail), fn=f)
        else:
            r.bad(name, "WalkBuilder::%s receives `%s`: %s" % (name, H.canon(ms[0]["args"][0], env), detail),
                  fn=f, construct=name)
    for name, want in VALUE.items():
        ms = calls.get(name, [])
        if len(ms) != 1:
            r.bad(name, "walk_builder calls WalkBuilder::%s %d times, expected once" % (name, len(ms)), fn=f)
            continue
        got = H.canon(ms[0]["args"][0], env)
        if got == want:
            r.ok(name, "%s(%s)" % (name, got), fn=f, nontrivial=False)
        else:
            r.bad(name, "WalkBuilder::%s receives `%s`, expected `%s`" % (name, got, want), fn=f, construct=name)
    # guards (MIR): add_ignore under !no_ignore_files; add_custom_ignore_filename(".rgignore") under !no_ignore_dot
    eb = ExprBuilder(f)
    for callee, fld, extra in ((WB + "::add_ignore", "no_ignore_files", None),
                               (WB + "::add_custom_ignore_filename", "no_ignore_dot", ".rgignore")):
        # (the call may sit in a closure handed to an iterator over the files: the site is then where the closure is consumed)
        from ..flow import call_sites as _call_sites
        sites = _call_sites(facts, f, callee)
        cs = [c_ for _, _, c_ in sites]
        key = callee.split("::")[-1]
        if len(cs) != 1:
            r.bad(key, "anchor-missing: %s called %d times" % (callee, len(cs)), fn=f)
            continue
        sw = cond_switches(f, lambda e: is_field(strip(e), HI, fld), eb)
        if not sw or guarded(f, [sites[0][0]], sw, False):
            r.bad(key, "%s is not guarded by !%s" % (key, fld), fn=f, loc=cs[0].loc, construct=fld)
            continue
        if extra:
            e = ExprBuilder(sites[0][1]).operand(cs[0].args[1])
            if not any(x.k == "const" and x[2] and extra in str(x[2]) for x in walk(e)):
                r.bad(key, "custom ignore file name is `%s`, expected %s" % (show(e), extra), fn=f, loc=cs[0].loc)
                continue
        r.ok(key, "guarded by !%s%s" % (fld, (" with name " + extra) if extra else ""), fn=f)
    # from_low_args copies same-named fields
    g = facts.fn(HI + "::from_low_args")
    structs = [x for x in H.find(g.hir, lambda x: x.get("k") == "struct" and x.get("adt") == HI)]
    if len(structs) != 1:
        r.bad("from_low_args", "anchor-missing: expected one HiArgs { .. } literal", fn=g)
        return
    fields = {fl["name"]: fl["e"] for fl in structs[0]["fields"]}
    for name in sorted(PROTECTED | {"follow", "max_depth", "max_filesize", "one_file_system",
                                    "ignore_file", "ignore_file_case_insensitive"}):
        e = fields.get(name)
        got = H.canon(e, None) if e is not None else None
        if got == "low." + name:
            r.ok("copy|" + name, "HiArgs.%s = low.%s" % (name, name), fn=g, nontrivial=False)
        else:
            r.bad("copy|" + name, "HiArgs.%s is initialised from `%s`, expected low.%s" % (name, got, name), fn=g,
                  construct=name)


IGB = D + "::IgnoreBuilder"
OPTION_METHODS = ["hidden", "ignore", "parents", "git_global", "git_ignore", "git_exclude", "require_git",
                  "ignore_case_insensitive"]


def opts_rule(ctx, r):
    facts = ctx.facts
    for m in OPTION_METHODS:
        wf = facts.fn(WB + "::" + m)
        cs = wf.calls_to(IGB + "::" + m)
        eb = ExprBuilder(wf)
        if len(cs) == 1 and any(x.k == "arg" and x[1] == 2 for x in walk(eb.operand(cs[0].args[1]))) and \
                not any(x.k == "not" for x in walk(eb.operand(cs[0].args[1]))):
            r.ok("forward|" + m, "WalkBuilder::%s forwards its argument to IgnoreBuilder::%s" % (m, m), fn=wf)
        else:
            r.bad("forward|" + m, "WalkBuilder::%s does not forward to IgnoreBuilder::%s unchanged" % (m, m), fn=wf,
                  construct=m)
        bf = facts.fn(IGB + "::" + m)
        _, w, _ = field_rw(bf)
        wrote = {fl for o, fl in w if o == OPTS}
        ebb = ExprBuilder(bf)
        val_ok = True
        for bb, j, st in bf.stmts():
            if st["k"] == "assign" and any(o == OPTS for o, fl in fields_of_place(st["place"])):
                e = ebb.rvalue(st["rv"])
                if not (e.k == "arg" and e[1] == 2):
                    val_ok = False
        if wrote == {m} and val_ok:
            r.ok("setter|" + m, "IgnoreBuilder::%s writes opts.%s = arg" % (m, m), fn=bf)
        else:
            r.bad("setter|" + m, "IgnoreBuilder::%s writes %s (expected exactly opts.%s = its argument)"
                  % (m, sorted(wrote), m), fn=bf, construct=m)
    # add_child_path pairing of file name and option
    f = facts.fn(D + "::Ignore::add_child_path")
    eb = ExprBuilder(f)
    PAIR = {".ignore": "ignore", ".gitignore": "git_ignore", "info/exclude": "git_exclude"}
    seen = set()
    for c in f.calls_to(D + "::create_gitignore"):
        names = eb.operand(c.args[2])
        strs = [str(x[2]) for x in walk(names) if x.k == "const" and x[2]]
        lit = None
        for s in strs:
            for k in PAIR:
                if '"%s"' % k in s:
                    lit = k
        if lit is None:
            # custom names: guarded by !custom_ignore_filenames.is_empty()
            if mentions_field(names, INNER, "custom_ignore_filenames"):
                sw = cond_switches(f, lambda e: mentions_field(e, INNER, "custom_ignore_filenames"), eb)
                if sw and not guarded(f, [c.bb], sw, False):
                    r.ok("child|custom", "custom ignore names used only when the list is non-empty", fn=f)
                else:
                    r.bad("child|custom", "custom ignore files are read although no custom name is configured", fn=f, loc=c.loc)
                seen.add("custom")
            else:
                r.bad("child|?", "create_gitignore at %s called with unrecognised names `%s`" % (c.loc, show(names)), fn=f, loc=c.loc)
            continue
        seen.add(lit)
        opt = PAIR[lit]
        # by value: with the option off the file is not looked for (the flag may be tested in place or hoisted into a local)
        sx_off = Sccp(f, field_model=lambda o_, n_, opt=opt: I(0) if (o_ == OPTS and n_ == opt) else None).run([(0, {})])
        import json as _json
        if ('"%s"' % opt) not in _json.dumps(f.mir) or c.bb in sx_off.exec_blocks:
            r.bad("child|" + lit, "%s is read at %s without the opts.%s test" % (lit, c.loc, opt), fn=f, loc=c.loc,
                  construct=opt)
        else:
            r.ok("child|" + lit, "%s read only under opts.%s" % (lit, opt), fn=f)
    for k in list(PAIR) + ["custom"]:
        if k not in seen:
            r.bad("child|" + k, "anchor-missing: add_child_path never builds the %s matcher" % k, fn=f)
    # each matcher stored into its own field
    agg = [st for bb, j, st in f.stmts() if st["k"] == "assign" and st["rv"]["k"] == "agg" and st["rv"].get("adt") == INNER]
    if len(agg) == 1:
        rv = agg[0]["rv"]
        want = {"custom_ignore_matcher": None, "ignore_matcher": ".ignore", "git_ignore_matcher": ".gitignore",
                "git_exclude_matcher": "info/exclude"}
        for fld, op in zip(rv["fields"], rv["ops"]):
            if fld in want:
                e = eb.operand(op)
                strs = " ".join(str(x[2]) for x in walk(e) if x.k == "const" and x[2])
                lit = want[fld]
                others = [v for v in want.values() if v and v != lit and '"%s"' % v in strs]
                has = (lit is None and mentions_field(e, INNER, "custom_ignore_filenames")) or \
                      (lit is not None and '"%s"' % lit in strs)
                if has and not others:
                    r.ok("store|" + fld, "IgnoreInner.%s built from %s" % (fld, lit or "custom names"), fn=f)
                else:
                    r.bad("store|" + fld, "IgnoreInner.%s is built from the wrong file (%s)" % (fld, strs[:80]), fn=f,
                          construct=fld)
    else:
        r.bad("store", "anchor-missing: expected one IgnoreInner literal in add_child_path", fn=f)
    # who marks a matcher as "above the search root": add_parents sets it, add_child_path and build clear it
    if len(agg) == 1:
        rv = agg[0]["rv"]
        v_ = W.const_val(eb.operand(rv["ops"][rv["fields"].index("is_absolute_parent")]))
        hg = eb.operand(rv["ops"][rv["fields"].index("has_git")])
        if v_ == 0 and (mentions_call(hg, "core::option::Option::map") or any(x.k in ("phi", "local") for x in walk(hg))):
            r.ok("child|flags", "child matchers: is_absolute_parent = false, has_git from the .git probe", fn=f)
        else:
            r.bad("child|flags", "add_child_path builds matchers with is_absolute_parent=%s / has_git=%s" % (v_, show(hg)[:40]), fn=f,
                  construct="flags")
    ap = facts.fn(D + "::Ignore::add_parents")
    ebp = ExprBuilder(ap)
    setabs = [st for bb, j, st in ap.stmts() if st["k"] == "assign" and (INNER, "is_absolute_parent") in fields_of_place(st["place"])]
    if setabs and all((op_const(st["rv"].get("a", {})) or {}).get("val") == 1 for st in setabs):
        r.ok("parents|flag", "add_parents marks every parent matcher is_absolute_parent = true", fn=ap)
    else:
        r.bad("parents|flag", "add_parents no longer marks parent matchers as above the search root", fn=ap, construct="flags")
    nx = [c for c in ap.calls() if c.is_("core::iter::traits::iterator::Iterator::next") and "rev::Rev" in (c.func.get("resolved") or "")]
    if nx:
        r.ok("parents|order", "parents are chained from the filesystem root downwards (reverse of child→root)", fn=ap)
    else:
        r.bad("parents|order", "add_parents chains the parent directories in the wrong order", fn=ap, construct="order")
    # IgnoreBuilder::build: global matcher guarded by opts.git_global
    b = facts.fn(IGB + "::build")
    ebb = ExprBuilder(b)
    gl = [c for c in b.calls() if c.path.endswith("GitignoreBuilder::build_global") or c.path.endswith("Gitignore::global")]
    sw = cond_switches(b, lambda e: is_field(strip(e), OPTS, "git_global"), ebb)
    if gl and sw and not guarded(b, [gl[0].bb], sw, True):
        r.ok("build|global", "global gitignore loaded only under opts.git_global", fn=b)
    else:
        r.bad("build|global", "the global gitignore is loaded regardless of opts.git_global", fn=b)


def explicit_rule(ctx, r):
    facts = ctx.facts
    hb = facts.fn("rg::haystack::HaystackBuilder::build")
    ie = hb.calls_to("rg::haystack::Haystack::is_explicit")
    if len(ie) != 1:
        r.bad("build", "anchor-missing: HaystackBuilder::build does not call is_explicit once", fn=hb)
    else:
        s = seed_after_call(hb, ie[0], I(1))
        filt = [c for c in hb.calls() if c.bb in s.exec_blocks and c.is_("rg::haystack::Haystack::is_file", "rg::haystack::Haystack::is_dir")]
        vals = {x for v in s.ret_values.values() for x in value_set(v)}
        if filt or not vals or any(v is None or v[1] != "Some" for v in vals):
            r.bad("build", "an explicitly named path is still subject to the file-type filter", fn=hb, loc=ie[0].loc)
        else:
            r.ok("build", "is_explicit() ⇒ Some(hay) before the file-type filter", fn=hb)
    f = facts.fn("rg::haystack::Haystack::is_explicit")
    from ..flow import table as _table, ret_set as _ret_set
    wrong = []
    for row, sx in _table(facts, f, calls={"Haystack::is_stdin": [I(0), I(1)], "DirEntry::depth": [I(0), I(2)], "Haystack::is_dir": [I(0), I(1)]}):
        sd, dp, dr = row[("call", "Haystack::is_stdin")][1], row[("call", "DirEntry::depth")][1], row[("call", "Haystack::is_dir")][1]
        want = I(int(bool(sd or (dp == 0 and not dr))))
        if _ret_set(sx) != {want}:
            wrong.append("is_stdin=%d depth=%d is_dir=%d ⇒ %s" % (sd, dp, dr, sorted(map(str, _ret_set(sx)))))
    if not wrong:
        r.ok("is_explicit", "≡ is_stdin ∨ (depth == 0 ∧ ¬is_dir) (8 rows)", fn=f)
    else:
        r.bad("is_explicit", "Haystack::is_explicit: %s" % "; ".join(wrong[:3]), fn=f)



ORDER_KEEPING = ("core::iter::traits::collect::IntoIterator::into_iter", "[T]::iter", "core::slice::<impl [T]>::iter",
                 "core::ops::deref::Deref::deref", "alloc::vec::Vec::as_slice", "alloc::vec::Vec::iter",
                 "core::iter::traits::iterator::Iterator::collect", "core::iter::traits::iterator::Iterator::cloned",
                 "core::iter::traits::iterator::Iterator::copied", "core::clone::Clone::clone", "[T]::to_vec",
                 "alloc::slice::<impl [T]>::to_vec", "core::iter::traits::iterator::Iterator::by_ref",
                 "core::iter::traits::iterator::Iterator::enumerate", "core::iter::traits::iterator::Iterator::peekable")


def order_rule(r, f, owner, field, why):
    """Every for-loop of `f` whose elements come from `owner.field` visits them in the stored order: the chain from the field
    to the iterator consists of order-keeping calls only and no collection on the way is mutated in place."""
    nx = [c for c in f.calls() if c.path == "core::iter::traits::iterator::Iterator::next"]
    defs = f.defs()
    found = 0
    for c in nx:
        a = op_place(c.args[0])
        seen, todo, calls_, bad_, root = set(), [a["l"]] if a else [], [], [], False
        while todo:
            l = todo.pop()
            if l in seen:
                continue
            seen.add(l)
            ds = defs.get(l, [])
            for d in ds:
                if d[0] == "assign":
                    rv = d[3]["rv"]
                    if rv["k"] in ("ref", "rawptr"):
                        pl = rv["place"]
                        if any(isinstance(x, dict) and x.get("f") == field and x.get("of") == owner for x in pl["p"]):
                            root = True
                        else:
                            todo.append(pl["l"])
                    elif rv["k"] == "use" and op_place(rv["a"]) is not None:
                        pl = op_place(rv["a"])
                        if any(isinstance(x, dict) and x.get("f") == field and x.get("of") == owner for x in pl["p"]):
                            root = True
                        else:
                            todo.append(pl["l"])
                    else:
                        bad_.append("computed value (%s)" % rv["k"])
                elif d[0] == "call":
                    for x in [d[2]]:
                        if x.path == "core::iter::traits::iterator::Iterator::next":
                            # an element of an earlier iteration: what is looped over here is made from one element (the
                            # bytes of a char, say), it is not the collection
                            continue
                        if x.path in ORDER_KEEPING and x.args:
                            calls_.append(x.path.rsplit("::", 1)[1])
                            pa = op_place(x.args[0])
                            if pa is not None:
                                todo.append(pa["l"])
                        else:
                            bad_.append("through `%s`" % x.path.split("::")[-1])
                            for a_ in x.args:
                                pa = op_place(a_)
                                if pa is not None:
                                    todo.append(pa["l"])
        if not root:
            continue
        found += 1
        # an intermediate collection that is borrowed mutably (sort, reverse, retain, swap, dedup …) is reordered in place
        itl = set()
        l0 = a["l"]
        while True:
            itl.add(l0)
            nxt = [d[3]["rv"]["place"]["l"] for d in defs.get(l0, []) if d[0] == "assign" and d[3]["rv"]["k"] == "ref"]
            if not nxt:
                break
            l0 = nxt[0]
            if l0 in itl:
                break
        mutb = set()
        for bb, j, st in f.stmts():
            if st["k"] == "assign" and st["rv"]["k"] in ("ref", "rawptr") and st["rv"].get("mut", True) and "deref" not in st["rv"]["place"]["p"]:
                if st["rv"]["place"]["l"] in seen and st["rv"]["place"]["l"] not in itl:
                    mutb.add(st["rv"]["place"]["l"])
        if bad_ or mutb:
            r.bad("order|" + field, "%s does not visit %s in its stored order (%s): %s" % (
                f.name.split("::")[-1], field, ", ".join(bad_ + ["local _%d is modified in place before the loop" % l for l in sorted(mutb)]), why),
                fn=f, loc=c.loc, construct="order")
        else:
            r.ok("order|" + field, "loop over %s: %s — order kept" % (field, " ∘ ".join(calls_) or "direct"), fn=f)
    if not found:
        r.bad("order|" + field, "anchor-missing: no loop over %s.%s in %s" % (owner.split("::")[-1], field, f.name), fn=f)


def gitdir_rule(ctx, r):
    facts = ctx.facts
    f = facts.fn("ignore::dir::resolve_git_commondir")
    eb = ExprBuilder(f)
    closures = {g.path: g for g in facts.closures_of(f.path)}
    opens = f.calls_to("std::fs::File::open")
    # the second open is the one of <git dir>/commondir: its path comes from a closure over the git directory read from the file
    cd_open = None
    for c in opens:
        e = eb.operand(c.args[0])
        for x in walk(e):
            if x.k == "closure" and x[1] in closures and any(
                    (op_const(a) or {}).get("str", "").strip('"') == "commondir" or "commondir" in str(a)
                    for c2 in closures[x[1]].calls() for a in c2.args):
                cd_open = (c, closures[x[1]])
    if cd_open is None:
        r.bad("gitdir|relative", "anchor-missing: no open of <git dir>/commondir in resolve_git_commondir", fn=f)
        return
    c, clo = cd_open
    # what the closure captured: the git directory; it must be dir.join(<text after `gitdir: `>) — Path::join keeps an
    # absolute right-hand side as it is and anchors a relative one at `dir`, the directory the `.git` file lives in
    cap = [eb.rvalue(st["rv"]) for bb, j, st in f.stmts() if st["k"] == "assign" and st["rv"]["k"] == "agg" and st["rv"].get("closure") == clo.path]
    joined = any(any(is_call(x, "std::path::Path::join") and x[3] and any(y.k == "arg" and y[1] == 1 for y in walk(x[3][0])) and
                     any(y.k == "const" and "gitdir: " in str(y[2]) for y in walk(x[3][1])) for x in walk(e)) for e in cap)
    if joined:
        r.ok("gitdir|relative", "git dir = dir.join(text after `gitdir: `)", fn=f)
    else:
        r.bad("gitdir|relative", "resolve_git_commondir uses the `gitdir:` path of a `.git` file as written: a relative one (git >= 2.48 "
              "--relative-paths, hand-made worktrees) is resolved against the process's working directory, so info/exclude is "
              "honoured only when rg is started in the worktree's root", fn=f, loc=c.loc, construct="gitdir")
    # the kind of `.git` (directory or file) must be known wherever info/exclude is looked up — also under --no-require-git
    acp = facts.fn("ignore::dir::Ignore::add_child_path")
    eba = ExprBuilder(acp)
    rc = acp.calls_to("ignore::dir::resolve_git_commondir")
    md = [c2 for c2 in acp.calls() if c2.path.endswith("Path::metadata")]
    req = cond_switches(acp, lambda e: any(x.k == "field" and x[3] == "require_git" for x in walk(e)) and
                        not any(x.k == "field" and x[3] in ("git_ignore", "git_exclude") for x in walk(e)), eba)
    if rc and md and mentions_call(eba.operand(rc[0].args[1]), "std::path::Path::metadata"):
        if req and not guarded(acp, [md[0].bb], req, True):
            r.bad("gitdir|no-require-git", "add_child_path looks at the kind of `.git` only under require_git: with --no-require-git a "
                  "`.git` *file* (worktree, submodule) is taken for a directory, `<dir>/.git/info/exclude` does not exist, and the "
                  "exclude rules that apply with the default flags are silently dropped", fn=acp, loc=md[0].loc, construct="gitdir")
        else:
            r.ok("gitdir|no-require-git", "the kind of `.git` is determined whenever git_exclude is on", fn=acp)
    else:
        r.bad("gitdir|no-require-git", "anchor-missing: add_child_path no longer passes the file type of `.git` to resolve_git_commondir", fn=acp)
    # no commondir file (submodule, --separate-git-dir): the git directory is its own common directory
    s_ = seed_after_call(f, c, V("Err", None))
    vals = {x for v in s_.ret_values.values() for x in value_set(v)}
    if vals and all(v is not None and v[0] == "v" and v[1] == "Ok" for v in vals):
        r.ok("gitdir|no-commondir", "commondir cannot be opened ⇒ Ok(the git directory)", fn=f)
    else:
        r.bad("gitdir|no-commondir", "when <git dir>/commondir does not exist resolve_git_commondir gives up (%s): for a submodule or "
              "`git init --separate-git-dir` work tree $GIT_DIR/info/exclude is never read" % sorted(map(str, vals)), fn=f, loc=c.loc,
              construct="gitdir")

def run(ctx):
    facts = ctx.facts
    with ctx.rule("C05.CWDROOT", "rules of --ignore-file and of the global git ignore file are anchored at the current directory, so they "
                  "apply alike to roots spelled `.`, relative or absolute", floor=2, kind="FLOW") as r:
        # Gitignore::strip makes a candidate relative to the matcher's root before anchored patterns are tried. These two
        # sources have no directory of their own; with an empty root an absolute candidate keeps its full path and every
        # rule with a slash in it silently stops matching — the same tree then yields different files for `rg pat .`
        # and `rg pat "$PWD"`.
        for label, fname in (("ignore-file", "ignore::walk::WalkBuilder::add_ignore"), ("git-global", "ignore::dir::IgnoreBuilder::build")):
            f = facts.fn(fname)
            eb = ExprBuilder(f)
            news = f.calls_to("ignore::gitignore::GitignoreBuilder::new")
            if not news:
                r.bad("cwd|" + label, "anchor-missing: %s builds no gitignore matcher" % fname.split("::")[-1], fn=f)
                continue
            roots = [eb.operand(c.args[0]) for c in news]
            if all(mentions_call(e, "std::env::current_dir") for e in roots):
                r.ok("cwd|" + label, "GitignoreBuilder::new(current_dir()…)", fn=f)
            else:
                r.bad("cwd|" + label, "%s builds its matcher with the root `%s`, not the current directory: for a search root given as an "
                      "absolute path no rule containing a slash applies any more, although the same rule applies to the same "
                      "files under `.`" % (fname.split("::")[-1], show([e for e in roots if not mentions_call(e, "std::env::current_dir")][0])[:40]),
                      fn=f, loc=news[0].loc, construct="cwd-root")
    with ctx.rule("C05.BASE", "parent matchers and candidate paths are re-based on the search root they belong to", floor=3,
                  kind="PASS") as r:
        # Parent-directory ignore files are matched against absolute_base.join(path). add_parents caches the parent
        # matchers by directory; a hit returns a matcher built for *another* root. Unless the function looks at / writes
        # absolute_base between the hit and its return, the second root's paths are re-based under the first root and
        # the parents' anchored rules silently stop applying (order- and schedule-dependent).
        f = facts.fn("ignore::dir::Ignore::add_parents")
        eb = ExprBuilder(f)
        up = f.calls_to("alloc::sync::Weak::upgrade")
        hits = []
        for bb, j, st in f.stmts():
            if st["k"] == "assign" and st["rv"]["k"] == "agg" and st["rv"].get("adt") == "ignore::dir::Ignore":
                e = eb.rvalue(st["rv"])
                ops = e[3] if e.k == "agg" else []
                for o in ops:
                    # directly the payload of the upgraded weak pointer (not something computed from an earlier hit)
                    while isinstance(o, X) and o.k in ("field", "dc", "deref", "ref", "cast"):
                        o = o[1]
                    if is_call(o, "alloc::sync::Weak::upgrade"):
                        hits.append(bb)
        if not up or not hits:
            r.ok("add_parents|cache", "add_parents does not reuse cached parent matchers", fn=f, nontrivial=False)
        else:
            touch = set()
            for bb, j, st in f.stmts():
                if st["k"] != "assign":
                    continue
                places = [st["place"]]
                rv = st["rv"]
                if rv["k"] in ("ref", "rawptr", "discr"):
                    places.append(rv["place"])
                else:
                    from ..graph import _rv_operands
                    places += [p_ for p_ in (op_place(o) for o in _rv_operands(rv)) if p_]
                if any(fld == "absolute_base" for p_ in places for (own, fld) in fields_of_place(p_)):
                    touch.add(bb)
            esc = C.all_paths_pass(f, hits, touch, f.return_blocks())
            if not esc:
                r.ok("add_parents|cache", "every path from a cache hit to the return examines or sets absolute_base", fn=f)
            else:
                r.bad("add_parents|cache", "add_parents can return a cached parent matcher built for another root without touching "
                      "absolute_base: with several roots under one parent, that parent's anchored ignore rules are matched "
                      "against paths re-based under the first root", fn=f, construct="absolute_base")
        # ... and a candidate path is re-based by replacing the *search root's* path with absolute_base (the root's own
        # absolute path). Replacing the path of the directory being read instead drops the components between the root
        # and that directory: a parent's anchored rule /sub/file then hits sub/deep/file and /sub/deep/file hits nothing.
        mi = facts.fn("ignore::dir::Ignore::matched_ignore")
        ebm = ExprBuilder(mi)
        sp = [c for c in mi.calls() if c.path.endswith("pathutil::strip_prefix")]
        pref = [c for c in sp if any(x.k == "field" and x[3] == "dir" for x in walk(ebm.operand(c.args[0]))) or
                any(x.k in ("phi", "local") for x in walk(ebm.operand(c.args[0])))]
        via_root = [c for c in sp if mentions_call(ebm.operand(c.args[0]), "ignore::dir::Ignore::parents") or
                    any(mentions_call(x, "ignore::dir::Ignore::parents") for x in walk(ebm.operand(c.args[0])))]
        pclos = [cl for cl in facts.closures_of(mi.path) if any(fl == "is_absolute_parent" for o, fl in field_rw(cl)[0])]
        if sp and via_root and pclos:
            r.ok("matched_ignore|rebase", "the stripped prefix is the directory of the outermost non-absolute matcher (the search root)", fn=mi)
        elif sp:
            r.bad("matched_ignore|rebase", "matched_ignore replaces the path of the directory being read (self.dir), not the search "
                  "root's, by absolute_base: below the first level a parent's anchored rules are matched against a path with "
                  "components missing", fn=mi, loc=sp[0].loc, construct="rebase")
        else:
            r.bad("matched_ignore|rebase", "anchor-missing: matched_ignore no longer strips a prefix before joining absolute_base", fn=mi)
        # strip_prefix works on bytes and the candidate has already lost its leading "./": a root spelled "." must not be
        # stripped at all, or the dot of a hidden name goes with it (".env" is then matched as "env")
        dotcmp = cond_switches(mi, lambda e: is_call(e, "core::cmp::PartialEq::eq") and
                               any(x.k == "const" and x[2] and str(x[2]).strip() == '"."' for x in walk(e)), ebm)
        if dotcmp:
            r.ok("matched_ignore|dot-root", "a search root spelled `.` is not stripped from the candidate path", fn=mi)
        else:
            r.bad("matched_ignore|dot-root", "matched_ignore strips the root path `.` byte-wise from a candidate that no longer starts "
                  "with `./`: for `rg --hidden PATTERN .` the parents' rules see `.env` as `env` and stop applying to dotfiles",
                  fn=mi, construct="dot-root")
    with ctx.rule("C05.GLOBROOT", "the -g / --pre-glob override matchers are rooted at the working directory", floor=3, kind="WIRE") as r:
        # An override glob with a slash is anchored to the matcher's root, and Gitignore::strip only removes that root
        # from a candidate path. Rooted anywhere but the process working directory, an anchored -g glob never matches
        # a file reached through an absolute search root ("command-line globs override everything" stops holding).
        OB = "ignore::overrides::OverrideBuilder::new"
        HA = "rg::flags::hiargs::"
        for name in ("globs", "preprocessor_globs"):
            g = facts.fn(HA + name)
            ebg = ExprBuilder(g)
            cs = g.calls_to(OB)
            if not cs:
                r.bad("root|" + name, "anchor-missing: %s builds no OverrideBuilder" % name, fn=g)
                continue
            a_ = ebg.operand(cs[0].args[0])
            if any(x.k == "field" and x[3] == "cwd" for x in walk(a_)) or mentions_call(a_, "std::env::current_dir", HA + "current_dir"):
                r.ok("root|" + name, "OverrideBuilder::new(&state.cwd)", fn=g)
            else:
                r.bad("root|" + name, "%s roots the override matcher at `%s`, not at the working directory: anchored globs stop "
                      "matching files found under an absolute search root" % (name, show(a_)[:40]), fn=g, loc=cs[0].loc, construct="glob-root")
        st = [f_ for f_ in facts.fns_in(HA) if f_.kind != "closure" and f_.calls_to(HA + "current_dir")]
        cd = facts.fn(HA + "current_dir") if facts.has_fn(HA + "current_dir") else None
        if st and cd is not None and cd.calls_to("std::env::current_dir"):
            r.ok("root|cwd", "State.cwd = current_dir() (std::env::current_dir, falling back to $PWD)", fn=st[0], nontrivial=False)
        else:
            r.bad("root|cwd", "State.cwd is no longer taken from the process working directory", fn=(st[0] if st else None))
    with ctx.rule("C05.PARENTS", "when parent directories are consulted and when a directory counts as a git repository (truth tables)",
                  floor=3, exhaustive=True, kind="TRUTH") as r:
        O = "self.0.opts."
        ap = facts.fn("ignore::dir::Ignore::add_parents")
        acp = facts.fn("ignore::dir::Ignore::add_child_path")

        def cond_with(f, must):
            for x in H.find(f.hir, lambda x: x.get("k") == "if"):
                c = H.canon(x["c"])
                if all(m in c for m in must):
                    return x
            return None
        # (a) parents are skipped only when no source could need them
        # value table on the MIR over the four options: the parents are built (add_child_path is reached) exactly when one
        # of them is on
        from ..flow import table as _table, operand_at as _operand_at
        acp_calls = ap.calls_to("ignore::dir::Ignore::add_child_path")
        names4 = ("parents", "git_ignore", "git_exclude", "git_global")
        if not acp_calls:
            r.bad("add_parents|skip", "anchor-missing: the 'nothing needs parent directories' test of add_parents", fn=ap)
        else:
            wrong4 = []
            for row, sx in _table(facts, ap, fields={(OPTS, n_): [I(0), I(1)] for n_ in names4}):
                vals = [row[("field", (OPTS, n_))][1] for n_ in names4]
                built = any(c.bb in sx.exec_blocks for c in acp_calls)
                if built != bool(any(vals)):
                    wrong4.append("%s ⇒ parents %s" % (dict(zip(names4, vals)), "built" if built else "skipped"))
            if not wrong4:
                r.ok("add_parents|skip", "skip ⇔ ¬parents ∧ ¬git_ignore ∧ ¬git_exclude ∧ ¬git_global (16 rows)", fn=ap)
            else:
                r.bad("add_parents|skip", "add_parents skips the parent directories under another condition: %s" % wrong4[0], fn=ap,
                      construct="add_parents")
        # (b) has_git of a parent / child matcher
        # add_child_path: decided on the value stored in IgnoreInner::has_git (8 rows, `.git` assumed to exist): whether the
        # *kind* of `.git` is looked up is a different question (C05.GITDIR|gitdir|no-require-git) and was wrongly tied to
        # this table before
        hg_ops = [(bb, st["rv"]["ops"][st["rv"]["fields"].index("has_git")]) for bb, j, st in acp.stmts()
                  if st["k"] == "assign" and st["rv"]["k"] == "agg" and str(st["rv"].get("adt", "")).endswith("IgnoreInner") and
                  "has_git" in st["rv"].get("fields", [])]
        import json as _json
        reads_all = all('"%s"' % n in _json.dumps(acp.mir) or any('"%s"' % n in _json.dumps(g_.mir) for g_ in facts.closures_of(acp.path))
                        for n in ("require_git", "git_ignore", "git_exclude"))
        if not hg_ops or not reads_all:
            r.bad("add_child_path|has_git", "anchor-missing: IgnoreInner::has_git / the option tests of add_child_path", fn=acp)
        else:
            wrong = []
            from ..flow import combinator_model as _cm, operand_at as _oat
            for rq, gi, ge in itertools.product([0, 1], repeat=3):
                def fm(owner, name, rq=rq, gi=gi, ge=ge):
                    if owner == OPTS:
                        return {"require_git": I(rq), "git_ignore": I(gi), "git_exclude": I(ge)}.get(name)
                    return None

                def inner(call, argv):
                    if call.path.endswith("Path::metadata"):
                        return V("Ok", None)
                    if call.path.endswith("Path::exists"):
                        return I(1)
                    return None
                sx = Sccp(acp, call_model=_cm(facts, inner, field_model=fm), field_model=fm).run([(0, {})])
                bb, op = hg_ops[0]
                st_ = [st for b2, j2, st in acp.stmts() if b2 == bb and st["k"] == "assign" and st["rv"]["k"] == "agg" and
                       "has_git" in st["rv"].get("fields", [])][0]
                val = _oat(sx, bb, st_, op)
                want = I(1 if (rq and (gi or ge)) else 0)
                if val != want:
                    wrong.append("require_git=%d git_ignore=%d git_exclude=%d ⇒ %s" % (rq, gi, ge, val))
            if wrong:
                r.bad("add_child_path|has_git", "add_child_path marks a directory holding `.git` as a repository under another condition than "
                      "require_git ∧ (git_ignore ∨ git_exclude): %s" % "; ".join(wrong[:3]), fn=acp, construct="has_git")
            else:
                r.ok("add_child_path|has_git", "has_git ⇔ require_git ∧ (git_ignore ∨ git_exclude) ∧ `.git` exists (8 rows)", fn=acp)
        # add_parents: the value stored in has_git of each parent matcher, with `.git` assumed to exist (4 rows)
        hg_st = [(bb, st) for bb, j, st in ap.stmts() if st["k"] == "assign" and st["rv"]["k"] == "use" and
                 any(isinstance(p_, dict) and p_.get("f") == "has_git" for p_ in st["place"]["p"])]
        if not hg_st:
            r.bad("add_parents|has_git", "anchor-missing: the require_git test of add_parents", fn=ap)
        else:
            wrong2 = []
            for row, sx in _table(facts, ap, fields={(OPTS, "require_git"): [I(0), I(1)], (OPTS, "git_ignore"): [I(0), I(1)],
                                                     (OPTS, "parents"): [I(1)]},
                                  calls={"Path::exists": [I(1)]}):
                rq, gi = row[("field", (OPTS, "require_git"))][1], row[("field", (OPTS, "git_ignore"))][1]
                for bb, st in hg_st:
                    if bb in sx.exec_blocks:
                        val = _operand_at(sx, bb, st, st["rv"]["a"])
                        if val != I(1 if (rq and gi) else 0):
                            wrong2.append("require_git=%d git_ignore=%d ⇒ %s" % (rq, gi, val))
            if not wrong2:
                r.ok("add_parents|has_git", "looks for .git ⇔ require_git ∧ git_ignore; otherwise false", fn=ap)
            else:
                r.bad("add_parents|has_git", "add_parents decides whether the directory is a git repository under another condition (%s)"
                      % "; ".join(wrong2[:2]), fn=ap, construct="has_git")
    with ctx.rule("C05.TYPES", "file-type selection applies to files only: a directory is never decided by it", floor=1, kind="GUARD") as r:
        tm = facts.fn("ignore::types::Types::matched")
        ebt = ExprBuilder(tm)
        # is_dir is the third parameter (self, path, is_dir)
        dsw = cond_switches(tm, lambda e: isinstance(strip(e), X) and strip(e).k == "arg" and strip(e)[2] == "is_dir", ebt)
        sm = [c for c in tm.calls() if c.path.endswith("GlobSet::matches_into") or c.path.endswith("pathutil::file_name")]
        if dsw and sm:
            s1 = Sccp(tm).run([(dsw[0][1][1], {})])
            v1 = {x for v in s1.ret_values.values() for x in value_set(v)}
            if v1 == {V("None", None)} and not guarded(tm, [c.bb for c in sm], dsw, False):
                r.ok("types|dir", "is_dir ⇒ Match::None before any glob is consulted", fn=tm)
            else:
                r.bad("types|dir", "Types::matched lets the file-type globs decide about a directory (%s): with -t TYPE every "
                      "directory that does not itself match is pruned and nothing below it is searched" % sorted(map(str, v1)), fn=tm,
                      construct="types-dir")
        else:
            r.bad("types|dir", "Types::matched no longer answers Match::None for directories", fn=tm, construct="types-dir")
    with ctx.rule("C05.TYPEORDER", "--type-add / --type-clear / -t / -T take effect in the order given: the builder is fed "
                  "LowArgs::type_changes front to back", floor=1, kind="FLOW") as r:
        ty = facts.fn("rg::flags::hiargs::types")
        order_rule(r, ty, "rg::flags::lowargs::LowArgs", "type_changes",
                   "a definition changed after a selection (-tfoo --type-add 'foo:*.bar', --type-clear after -t) must not reach back: "
                   "the set of selected files would differ from the documented left-to-right reading")
    with ctx.rule("C05.NAME", "an entry has no file name only when its path is empty or its final component was examined", floor=3,
                  kind="GUARD") as r:
        from . import c12
        FN = "ignore::pathutil::file_name"
        c12.basename_rule(ctx, r, fnpath=FN, key="name", candidate=False)
        for user in ("ignore::pathutil::is_hidden", "ignore::types::Types::matched"):
            u = facts.fn(user)
            if u.calls_to(FN):
                r.ok("name|user|" + user.split("::")[-1], "decides on pathutil::file_name", fn=u, nontrivial=False)
            else:
                r.bad("name|user|" + user.split("::")[-1], "%s no longer takes the entry's name from pathutil::file_name" % user, fn=u)
    with ctx.rule("C05.CHAIN", "the .or() chain of matched_ignore lists the sources in documented precedence order",
                  floor=6, kind="FLOW") as r:
        chain_rule(ctx, r)
    with ctx.rule("C05.MATCH", "Match::{is_none,is_ignore,is_whitelist,invert,map,or} decision tables", floor=17,
                  exhaustive=True, kind="TABLE") as r:
        tables_rule(ctx, r)
    with ctx.rule("C05.GIT", "git-sourced rules only inside a repository (or --no-require-git), stopping at the repository root",
                  floor=6, kind="GUARD") as r:
        git_rule(ctx, r)
    with ctx.rule("C05.GITDIR", ".git/info/exclude is found for every shape of `.git`: a `gitdir:` path is taken relative to the "
                  "directory holding the file; no commondir file means the git directory itself", floor=3, kind="FLOW/A3") as r:
        gitdir_rule(ctx, r)
    with ctx.rule("C05.NEAREST", "nearest directory wins within a source; parents only under opts.parents", floor=9, kind="GUARD") as r:
        nearest_rule(ctx, r)
    with ctx.rule("C05.TOP", "override/ignore short-circuits; hidden only if nothing matched; override semantics", floor=7,
                  kind="A3/GUARD") as r:
        top_rule(ctx, r)
    with ctx.rule("C05.FLAGS", "write sets of Flag::update over the protected LowArgs fields equal the documented table",
                  floor=90, kind="RW") as r:
        flags_rule(ctx, r)
    with ctx.rule("C05.WIRE", "HiArgs::walk_builder option formulas (truth-table exact) and from_low_args copies", floor=30,
                  exhaustive=True, kind="WIRE/TRUTH") as r:
        wire_rule(ctx, r)
    with ctx.rule("C05.OPTS", "builder forwarders, setters and option → ignore-file pairing", floor=24, kind="RW/GUARD") as r:
        opts_rule(ctx, r)
    with ctx.rule("C05.EXPLICIT", "explicit paths bypass filters", floor=2, kind="A3/TRUTH") as r:
        explicit_rule(ctx, r)
    from . import c06
    with ctx.rule("C05.ROOTS", "depth-0 entries bypass every skip predicate in both walkers (shared with C06)", floor=1,
                  kind="DOM") as r:
        ser = ctx.facts.fn(c06.W + "::Walk::skip_entry")
        rs = c06.root_switch(ser)
        if rs is None:
            r.bad("serial", "Walk::skip_entry has no depth()==0 bypass", fn=ser)
        else:
            s = Sccp(ser).run([(rs[1], {})])
            if {x for v in s.ret_values.values() for x in value_set(v)} == {V("Ok", I(0))}:
                r.ok("serial", "depth()==0 ⇒ Ok(false)", fn=ser)
            else:
                r.bad("serial", "a root path can be skipped", fn=ser)
