"""C03 — grep model: order, uniqueness, context, numbering (sibling parity of the delivery routines)."""
import itertools
from .. import cfg as C
from .. import hirx as H
from ..flow import ExprBuilder, mentions_field, mentions_call, is_call, is_field, walk, show, cond_switches, \
    guarded, seed_after_call, Sccp, I, V, X, strip, value_set
from ..graph import field_rw
from ..facts import op_const, op_place, fields_of_place
from .. import wire as W

TITLE = "delivery sibling parity"
EXPLANATION = (
    "Sibling parity over the four routines of searcher::core::Core that deliver a line (discovered as the functions "
    "calling Sink::matched / Sink::context): each (a) runs the binary check under self.binary before delivering, (b) "
    "counts lines up to the line's start before the event is built, (c) computes the event offset as "
    "absolute_byte_offset + range.start(), (d) on the keep-going edge — and only there — records last_line_visited = "
    "range.end() and has_sunk = true, (e) only the match routine re-arms after_context_left and only the after-context "
    "routine decrements it. (BREAK) the separator decision is compared with its specification as a 16-row truth table "
    "and is consulted before every match / before-context line. (ORDERING/WINDOW) after-context, then before-context, "
    "then the match; before-context starts at the last visited line. Which lines fall inside windows and true line "
    "numbers are arithmetic over the input and are not decided. (STOPNM) under --stop-on-nonmatch, once a line matched the fast path is neither admitted nor continued and the slow path returns stop at the first non-matching line; has_matched is recorded before every delivered match; the inverted fast scanner, which steps over the line ending a run of matches, consults stop_on_nonmatch there or is not admitted under it. (LIVE) dual of the stop discipline: assuming every callee and the sink say keep going (whole-function propagation with a call model), a routine returns its stop value only on a path guarded by a listed reason.")
NOT_DECIDED = ["which lines fall inside context windows", "true line numbers and byte offsets (arithmetic over the input)"]

CORE = "grep_searcher::searcher::core::Core"
SINK = "grep_searcher::sink::Sink"
SCFG = "grep_searcher::searcher::Config"
RANGE = "grep_matcher::Match"


def kinds_in(e):
    """SinkContextKind variants mentioned in an expression (aggregate or fieldless-enum constant form)."""
    out = []
    for x in walk(e):
        if x.k == "agg" and x[1].endswith("SinkContextKind"):
            out.append(x[2])
        elif x.k == "const" and x[2] and "SinkContextKind::" in str(x[2]):
            out.append(str(x[2]).split("SinkContextKind::")[-1].strip("} "))
    return out


def byte_count_fn(facts, strat):
    """The routine that computes the byte count a slice strategy hands to Core::finish: `<strategy>::byte_count`, or — when the
    two copies were merged into one routine elsewhere — whatever searcher routine the finish argument is computed by (looked
    up in the program as written)."""
    GLUE_ = "grep_searcher::searcher::glue::"
    legacy = facts.fns.get(GLUE_ + strat + "::byte_count")
    if legacy is not None:
        return legacy
    raw = facts.raw
    run_ = raw.fns.get(GLUE_ + strat + "::run")
    if run_ is None:
        return None
    eb = ExprBuilder(run_)
    for fin in run_.calls_to(CORE + "::finish"):
        for x in walk(eb.operand(fin.args[1])):
            if x.k == "call" and x[1].startswith("grep_searcher::searcher::") and x[1] in raw.fns and \
                    not x[1].endswith(("::pos", "::binary_byte_offset", "::absolute_byte_offset")):
                return raw.fns[x[1]]
    return None


def kind_calls(f, kind):
    """Calls of f to a Core routine that is handed SinkContextKind::<kind>."""
    eb = ExprBuilder(f)
    return [c for c in f.calls() if c.path.startswith(CORE + "::") and any(kind in kinds_in(eb.operand(a)) for a in c.args)]


def siblings(facts):
    out = []
    for f in facts.fns_in(CORE + "::"):
        cs = [c for c in f.calls() if c.is_(SINK + "::matched", SINK + "::context")]
        if cs:
            out.append((f, cs[0]))
    return sorted(out, key=lambda t: t[0].path)


def stopnm_invert_rule(ctx, r):
    """The inverted fast scanner consumes the line that ends a run of (inverted) matches without looking at it. That
    line is a non-match, so under stop_on_nonmatch it must end the search; since the run sets has_matched inside the
    same call, the loop-top test of match_by_line_fast comes too late. Necessary condition: either the routine itself
    consults stop_on_nonmatch, or the inverted scanner is not admitted under stop_on_nonmatch at all."""
    facts = ctx.facts
    f = facts.fn(CORE + "::match_by_line_fast_invert")
    eb = ExprBuilder(f)
    own = cond_switches(f, lambda e: W.field_of(e, SCFG, "stop_on_nonmatch") or mentions_field(e, SCFG, "stop_on_nonmatch"), eb)
    skips = [c for c in f.calls_to(CORE + "::set_pos") if mentions_call(eb.operand(c.args[1]), CORE + "::find_by_line_fast")]
    if not skips:
        r.bad("fast-invert|skip", "anchor-missing: match_by_line_fast_invert no longer advances past the line found by "
              "find_by_line_fast", fn=f)
        return
    excluded = False
    for g in (facts.fn(CORE + "::match_by_line_fast"), facts.fn(CORE + "::is_line_by_line_fast")):
        ebg = ExprBuilder(g)
        inv = cond_switches(g, lambda e: W.field_of(e, SCFG, "invert_match"), ebg)
        snm = cond_switches(g, lambda e: W.field_of(e, SCFG, "stop_on_nonmatch"), ebg)
        hm = cond_switches(g, lambda e: W.field_of(e, CORE, "has_matched"), ebg)
        calls = [c.bb for c in g.calls_to(CORE + "::match_by_line_fast_invert")]
        trues = [bb for bb, j, st in g.stmts() if st["k"] == "assign" and st["place"]["l"] == 0 and not st["place"]["p"] and
                 (op_const(st["rv"].get("a", {})) or {}).get("val") == 1]
        targets = calls if calls else (trues if g.name == "is_line_by_line_fast" else [])
        if inv and snm and targets:
            # force stop_on_nonmatch ∧ invert_match true, has_matched false: is the inverted scanner still reached?
            rem = {s_[2] for s_ in snm} | {s_[2] for s_ in inv} | {s_[1] for s_ in hm}
            if not (set(targets) & C.reach(g, [0], removed_edges=rem)):
                excluded = True
    if own or excluded:
        r.ok("fast-invert|skip", "the inverted fast scanner %s" % ("consults stop_on_nonmatch where it skips the line ending a run"
             if own else "is not admitted under stop_on_nonmatch"), fn=f)
    else:
        r.bad("fast-invert|skip", "match_by_line_fast_invert steps over the line that ends a run of inverted matches without "
              "consulting stop_on_nonmatch, and nothing keeps it from running under stop_on_nonmatch: that line is the first "
              "non-match after a match and must end the search (the slow path and a reader whose buffer ends before it stop there)",
              fn=f, loc=skips[-1].loc, construct="fast-invert")


def run(ctx):
    facts = ctx.facts
    with ctx.rule("C03.DELIVER", "the line-delivering siblings agree on binary check, counting, offset, cursor update",
                  floor=14, kind="PARITY") as r:
        # The delivering routines are enumerated by what they do (they call Sink::matched / Sink::context), and every
        # obligation is a positive one on each of them. Two faithful views of the program are tried: with new helpers spliced
        # into their callers (a helper extracted from a sibling), and as written (siblings merged into one parameterised
        # routine are then one sibling, with the callers passing the kind). The rule holds if it holds in one of them.
        from ..engine import Rule
        t1 = Rule(ctx, r.id, r.statement, None, False, r.kind)
        deliver_body(ctx, t1, facts)
        chosen = t1
        if t1.violations and facts.raw is not facts:
            t2 = Rule(ctx, r.id, r.statement, None, False, r.kind)
            try:
                deliver_body(ctx, t2, facts.raw)
                if not t2.violations:
                    chosen = t2
            except Exception:
                pass
        r.instances += chosen.instances
        r.violations += chosen.violations
        r.fns |= chosen.fns
    deliver_rest(ctx)


def deliver_body(ctx, r, facts):
    sib = siblings(facts)
    if True:
        msib = [f.name for f, dc in sib if dc.is_(SINK + "::matched")]
        csib = [f.name for f, dc in sib if dc.is_(SINK + "::context")]
        if len(msib) != 1 or not csib:
            r.bad("siblings", "anchor-missing: expected one match-delivering and at least one context-delivering routine in Core, "
                  "found %s / %s" % (msib, csib))
        rearm, decr = [], []
        for f, dc in sib:
            eb = ExprBuilder(f)
            nm = f.name
            # (a) binary check
            db = f.calls_to(CORE + "::detect_binary")
            sw = cond_switches(f, lambda e: W.field_of(e, CORE, "binary"), eb)
            # every path to the delivery passes detect_binary unless it took the !self.binary edge
            if db and sw and not C.all_paths_pass(f, [0], {db[0].bb}, [dc.bb], removed_edges={s_[2] for s_ in sw}):
                r.ok("%s|binary" % nm, "detect_binary under self.binary before delivering", fn=f)
            else:
                r.bad("%s|binary" % nm, "%s can deliver a line without the binary check when self.binary is set" % nm, fn=f,
                      construct="detect_binary")
            # (b) count_lines(buf, range.start()) dominates the delivery
            cl = f.calls_to(CORE + "::count_lines")
            if cl and C.dominates(f, cl[0].bb, dc.bb) and mentions_call(eb.operand(cl[0].args[2]), RANGE + "::start"):
                r.ok("%s|count" % nm, "count_lines(buf, range.start()) before the event is built", fn=f)
            else:
                r.bad("%s|count" % nm, "%s builds its event without first counting lines up to range.start(): the line number "
                      "would be stale" % nm, fn=f, construct="count_lines")
            # (c) offset formula
            ev = eb.operand(dc.args[2])
            offs = [x for x in walk(ev) if x.k == "agg" and "absolute_byte_offset" in x[4]]
            okc = False
            if offs:
                a = offs[0]
                e = a[3][a[4].index("absolute_byte_offset")]
                okc = any(x.k == "bin" and x[1] in ("Add", "AddWithOverflow") and mentions_field(x, CORE, "absolute_byte_offset")
                          and mentions_call(x, RANGE + "::start") for x in walk(e))
                ln = a[3][a[4].index("line_number")]
                okl = mentions_field(ln, CORE, "line_number")
            if offs and okc and okl:
                r.ok("%s|offset" % nm, "offset = absolute_byte_offset + range.start(); line_number from Core", fn=f)
            else:
                r.bad("%s|offset" % nm, "%s reports an offset / line number not computed as absolute_byte_offset + range.start()" % nm,
                      fn=f, construct="offset")
            # (d) cursor update only on keep-going
            def writes_in(blocks):
                w = {}
                for bb, j, st in f.stmts():
                    if bb in blocks and st["k"] == "assign":
                        for o, fl in fields_of_place(st["place"]):
                            if o == CORE:
                                w[fl] = eb.rvalue(st["rv"])
                # writes performed by a same-crate helper called in the region (value checked inside the helper)
                for c in f.calls():
                    if c.bb in blocks and c.path.startswith(CORE + "::") and c.path not in (CORE + "::count_lines", CORE + "::detect_binary",
                                                                                           CORE + "::sink_break_context"):
                        g = facts.fns.get(c.path)
                        if g is not None:
                            ebg_ = ExprBuilder(g)
                            for bb2, j2, st2 in g.stmts():
                                if st2["k"] == "assign":
                                    for o, fl in fields_of_place(st2["place"]):
                                        if o == CORE and fl not in w:
                                            w[fl] = ebg_.rvalue(st2["rv"])
                return w
            s1 = seed_after_call(f, dc, V("Ok", I(1)))
            s0 = seed_after_call(f, dc, V("Ok", I(0)))
            w1, w0 = writes_in(s1.exec_blocks), writes_in(s0.exec_blocks)
            good = "last_line_visited" in w1 and mentions_call(w1["last_line_visited"], RANGE + "::end") and \
                "has_sunk" in w1 and W.const_val(w1["has_sunk"]) == 1
            if not good:
                r.bad("%s|cursor" % nm, "after a delivered line %s does not set last_line_visited = range.end() and has_sunk = true"
                      % nm, fn=f, construct="cursor")
            else:
                # (what happens to the cursor after a refusal is unobservable — the search ends — and is not demanded)
                r.ok("%s|cursor" % nm, "keep-going ⇒ last_line_visited = range.end(), has_sunk = true", fn=f)
            wall = writes_in(set(range(len(f.blocks))))
            if "after_context_left" in wall:
                e = wall["after_context_left"]
                if mentions_field(e, SCFG, "after_context"):
                    rearm.append(nm)
                else:
                    decr.append(nm)
            # the event bytes are buf[range]
            by = [x for x in walk(ev) if x.k == "agg" and "bytes" in x[4]]
            if by:
                e = by[0][3][by[0][4].index("bytes")]
                if any(is_call(x, "core::ops::index::Index::index") for x in walk(e)) and any(x.k == "arg" and x[2] == "range" for x in walk(e)):
                    r.ok("%s|bytes" % nm, "event bytes = buf[*range]", fn=f)
                else:
                    r.bad("%s|bytes" % nm, "event bytes are `%s`" % show(e)[:80], fn=f)
        # who writes after_context_left, over all of Core (wrappers included)
        from ..graph import CallGraph
        cg = CallGraph(facts)
        reach_ctx = cg.may_reach({SINK + "::context"}, within=lambda p: p.startswith(CORE + "::"))
        reach_mat = cg.may_reach({SINK + "::matched"}, within=lambda p: p.startswith(CORE + "::"))
        rearm, decr, other = [], [], []
        for g in facts.fns_in(CORE + "::"):
            if g.kind == "closure":
                continue
            ebg = ExprBuilder(g)
            for bb, j, st in g.stmts():
                if st["k"] == "assign" and (CORE, "after_context_left") in fields_of_place(st["place"]):
                    e = ebg.rvalue(st["rv"])
                    if mentions_field(e, SCFG, "after_context"):
                        rearm.append(g.name)
                    elif e.k == "const":
                        other.append(g.name)
                    else:
                        decr.append(g.name)
        bad_decr = [n for n in decr if (CORE + "::" + n) not in reach_ctx or (CORE + "::" + n) in reach_mat]
        if rearm == msib and decr and not bad_decr:
            r.ok("after_context_left", "re-armed only by the match routine (%s), decremented only on the context-delivery path (%s)" % (rearm, sorted(set(decr))))
        else:
            r.bad("after_context_left", "after_context_left is re-armed by %s and decremented by %s" % (rearm, decr),
                  construct="after_context_left")
        # all three context kinds are delivered by someone: as a literal in a dedicated routine, or passed by the
        # callers of a shared routine
        kinds = {}
        for f, dc in sib:
            if not dc.is_(SINK + "::context"):
                continue
            eb = ExprBuilder(f)
            ev = eb.operand(dc.args[2])
            ks = kinds_in(ev)
            for k_ in ks:
                kinds.setdefault(k_, []).append(f.name)
            if not ks:
                for c in facts.callers_of(f.path):
                    ebc = ExprBuilder(c.fn)
                    for a in c.args:
                        for k_ in kinds_in(ebc.operand(a)):
                            kinds.setdefault(k_, []).append(c.fn.name + "→" + f.name)
        for k in ("Before", "After", "Other"):
            if k in kinds:
                r.ok("kind|" + k, "SinkContextKind::%s delivered by %s" % (k, sorted(set(kinds[k]))))
            else:
                r.bad("kind|" + k, "no routine delivers context of kind %s" % k, construct="kind")
        # a dedicated routine must deliver the kind its callers expect: before_context_by_line → Before, etc.
        EXPECT = {"before_context_by_line": "Before", "after_context_by_line": "After", "other_context_by_line": "Other"}
        for caller, k in EXPECT.items():
            g = facts.fns.get(CORE + "::" + caller)
            if g is None:
                continue
            ebg = ExprBuilder(g)
            ok = False

            def kinds_via(fn_, call, depth=0):
                """kinds delivered when `fn_` makes `call` (following thin wrappers one level)."""
                tgt = [f for f, dc in sib if f.path == call.path and dc.is_(SINK + "::context")]
                ebx = ExprBuilder(fn_)
                passed = [k_ for a in call.args for k_ in kinds_in(ebx.operand(a))]
                if tgt:
                    lit = kinds_in(ExprBuilder(tgt[0]).operand([dc for f_, dc in sib if f_ is tgt[0]][0].args[2]))
                    return lit or passed
                h = facts.fns.get(call.path)
                if h is not None and depth < 2 and call.path.startswith(CORE + "::"):
                    out = []
                    for c2 in h.calls():
                        if c2.path.startswith(CORE + "::"):
                            out += kinds_via(h, c2, depth + 1)
                    return out
                return []
            for c in g.calls():
                if c.path.startswith(CORE + "::") and k in kinds_via(g, c):
                    ok = True
            if ok:
                r.ok("route|" + caller, "%s delivers %s context" % (caller, k), fn=g)
            else:
                r.bad("route|" + caller, "%s does not deliver context of kind %s" % (caller, k), fn=g, construct="kind")



def deliver_rest(ctx):
    facts = ctx.facts
    sib = siblings(facts)
    with ctx.rule("C03.BREAK", "separator ⇔ (before>0 ∨ after>0) ∧ has_sunk ∧ last_line_visited < start (16 rows); consulted before matches and before-context",
                  floor=18, exhaustive=True, kind="TRUTH/DOM") as r:
        # decided on the MIR (a table over concrete values), so that guard clauses, a negated disjunction or a match spell
        # the same decision: before/after ∈ {0, 1}, has_sunk ∈ {false, true}, last_line_visited = 5, start_of_line ∈ {5, 7}
        from ..flow import table, ret_set
        f = facts.fn(CORE + "::sink_break_context")
        cb = f.calls_to(SINK + "::context_break")
        if not cb or f.argc < 2:
            r.bad("atoms", "anchor-missing: sink_break_context(start_of_line) no longer calls Sink::context_break", fn=f)
        else:
            rows = table(facts, f,
                         fields={(SCFG, "before_context"): [I(0), I(1)], (SCFG, "after_context"): [I(0), I(1)],
                                 (CORE, "has_sunk"): [I(0), I(1)], (CORE, "last_line_visited"): [I(5)]},
                         args={2: [I(5), I(7)]})
            for row, sx in rows:
                b, a = row[("field", (SCFG, "before_context"))][1], row[("field", (SCFG, "after_context"))][1]
                hs, gap = row[("field", (CORE, "has_sunk"))][1], int(row[("arg", 2)][1] > 5)
                sep = bool((b or a) and hs and gap)
                ran = any(c.bb in sx.exec_blocks for c in cb)
                rv = ret_set(sx)
                key = "row|%d%d%d%d" % (gap, b, a, hs)
                if (sep and ran) or (not sep and not ran and rv == {V("Ok", I(1))}):
                    r.ok(key, "gap=%d before=%d after=%d has_sunk=%d → %s" % (gap, b, a, hs, "separator" if sep else "none"), fn=f)
                else:
                    r.bad(key, "separator decision for gap=%s before>0=%s after>0=%s has_sunk=%s: context_break %s, answer %s"
                          % (bool(gap), bool(b), bool(a), bool(hs), "called" if ran else "not called", sorted(map(str, rv))), fn=f,
                          construct="separator")
        g = facts.fn(CORE + "::sink_matched")
        bc = g.calls_to(CORE + "::sink_break_context")
        sm = g.calls_to(SINK + "::matched")
        from ..flow import always_after
        if bc and sm and always_after(g, [c.bb for c in bc], [c.bb for c in sm]):
            r.ok("sink_matched", "sink_break_context before Sink::matched", fn=g)
        else:
            r.bad("sink_matched", "a match is delivered without first deciding on the group separator", fn=g)
        h = facts.fn(CORE + "::before_context_by_line")
        bc = h.calls_to(CORE + "::sink_break_context")
        sb = h.calls_to(CORE + "::sink_before_context")
        if not sb:
            # the dedicated routine may have been merged into one that is told the kind: the delivery is then the call that
            # passes SinkContextKind::Before (looked for in the function as written)
            h = facts.raw.fn(CORE + "::before_context_by_line")
            bc = h.calls_to(CORE + "::sink_break_context")
            sb = kind_calls(h, "Before")
        if bc and sb and always_after(h, [c.bb for c in bc], [c.bb for c in sb]):
            r.ok("before_context", "sink_break_context before each sink_before_context", fn=h)
        else:
            r.bad("before_context", "before-context lines are delivered without the separator decision", fn=h)

    with ctx.rule("C03.ORDERING", "after-context of the previous match, then before-context, then the match", floor=2, kind="ORDER") as r:
        for name in ("match_by_line_fast", "match_by_line_fast_invert"):
            f = facts.fn(CORE + "::" + name)
            hdrs = {h for _, h in C.back_edges(f)}
            a = f.calls_to(CORE + "::after_context_by_line")
            b = f.calls_to(CORE + "::before_context_by_line")
            m = f.calls_to(CORE + "::sink_matched")
            if not a or not b or not m:
                r.bad(name, "anchor-missing: context calls in %s" % name, fn=f)
                continue
            a0 = [x for x in a if b[0].bb in C.reach(f, [x.bb], stop_blocks=hdrs)]
            ok = bool(a0) and all(b[0].bb in C.reach(f, [x.bb], stop_blocks=hdrs) for x in a0) and \
                not any(x.bb in C.reach(f, [b[0].bb], stop_blocks=hdrs) for x in a0) and \
                m[0].bb in C.reach(f, [b[0].bb]) and \
                b[0].bb not in C.reach(f, [m[0].bb], stop_blocks=hdrs)
            if ok:
                r.ok(name, "after-context → before-context → match within one iteration", fn=f)
            else:
                r.bad(name, "%s does not deliver after-context, before-context and the match in that order" % name, fn=f)

    with ctx.rule("C03.STOPNM", "--stop-on-nonmatch: once a line matched, the first non-matching line ends the search on every path of the line strategies (the multi-line strategy does not implement the option; the CLI excludes the combination)",
                  floor=6, kind="GUARD/A3") as r:
        def force_both(f, eb):
            """edges to delete so that (stop_on_nonmatch ∧ has_matched) is forced true"""
            a = cond_switches(f, lambda e: W.field_of(e, SCFG, "stop_on_nonmatch"), eb)
            b = cond_switches(f, lambda e: W.field_of(e, CORE, "has_matched"), eb)
            return a, b, {s_[2] for s_ in a} | {s_[2] for s_ in b}
        f = facts.fn(CORE + "::is_line_by_line_fast")
        eb = ExprBuilder(f)
        a, b, rem = force_both(f, eb)
        trues = [bb for bb, j, st in f.stmts() if st["k"] == "assign" and st["place"]["l"] == 0 and
                 (op_const(st["rv"].get("a", {})) or {}).get("val") == 1]
        if a and b and trues and not (set(trues) & C.reach(f, [0], removed_edges=rem)):
            r.ok("fastgate", "stop_on_nonmatch ∧ has_matched ⇒ the fast path is not admitted", fn=f)
        else:
            r.bad("fastgate", "is_line_by_line_fast can admit the fast path although stop_on_nonmatch is set and a line already "
                  "matched (the fast path skips non-matching lines instead of stopping at the first one)", fn=f, construct="stop_on_nonmatch")
        g = facts.fn(CORE + "::match_by_line_fast")
        ebg = ExprBuilder(g)
        a, b, rem = force_both(g, ebg)
        finders = [c.bb for c in g.calls() if c.path in (CORE + "::find_by_line_fast", CORE + "::match_by_line_fast_invert")]
        if a and b and finders and not (set(finders) & C.reach(g, [0], removed_edges=rem)):
            r.ok("fast|loop", "inside the fast loop: stop_on_nonmatch ∧ has_matched ⇒ SwitchToSlow before searching on", fn=g)
        else:
            r.bad("fast|loop", "match_by_line_fast keeps searching with the fast scanner after a match under stop_on_nonmatch", fn=g,
                  construct="stop_on_nonmatch")
        h = facts.fn(CORE + "::match_by_line_slow")
        ebh = ExprBuilder(h)
        a, b, rem = force_both(h, ebh)
        succ = cond_switches(h, lambda e: e.k == "bin" and e[1] in ("Ne", "BitXor") and mentions_field(e, SCFG, "invert_match"), ebh)
        # under stop ∧ matched ∧ !success the function returns Ok(false)
        if a and b and succ:
            rem2 = rem | {s_[1] for s_ in succ}
            hdrs = {x for _, x in C.back_edges(h)}
            # from the success switch's false edge (a non-matching line), forcing the two flags true: no next iteration
            fr = C.reach(h, [succ[0][2][1]], removed_edges=rem2, stop_blocks=hdrs)
            rets_false = [bb for bb, j, st in h.stmts() if bb in fr and st["k"] == "assign" and st["place"]["l"] == 0 and
                          st["rv"]["k"] == "agg" and st["rv"].get("variant") == "Ok" and (op_const(st["rv"]["ops"][0]) or {}).get("val") == 0]
            again = [x for x in hdrs if x in fr]
            if rets_false and not again:
                r.ok("slow|stop", "non-matching line ∧ stop_on_nonmatch ∧ has_matched ⇒ Ok(false) (no further iteration)", fn=h)
            else:
                r.bad("slow|stop", "the slow path keeps going after the first non-matching line under stop_on_nonmatch", fn=h,
                      construct="stop_on_nonmatch")
        else:
            r.bad("slow|stop", "anchor-missing: stop_on_nonmatch handling in match_by_line_slow", fn=h)
        # has_matched is set before every match is delivered on the line paths
        for fn_ in (h, g, facts.fn(CORE + "::match_by_line_fast_invert")):
            ebx = ExprBuilder(fn_)
            sm = fn_.calls_to(CORE + "::sink_matched")
            sets = {bb for bb, j, st in fn_.stmts() if st["k"] == "assign" and (CORE, "has_matched") in fields_of_place(st["place"])
                    and (op_const(st["rv"].get("a", {})) or {}).get("val") == 1}
            if sm and sets and not C.all_paths_pass(fn_, [0], sets, [c.bb for c in sm]):
                r.ok("has_matched|" + fn_.name, "has_matched = true before every sink_matched", fn=fn_)
            else:
                r.bad("has_matched|" + fn_.name, "%s can deliver a match without recording has_matched" % fn_.name, fn=fn_,
                      construct="has_matched")

        stopnm_invert_rule(ctx, r)

    with ctx.rule("C03.LIVE", "no spurious stop: while every callee/sink says keep going, a routine stops only for a listed reason",
                  floor=20, kind="A3") as r:
        from . import c16
        K = c16.producers(facts)
        CONT = {}
        for k_, (txt, val, _) in K.items():
            if val == V("Ok", I(0)):
                CONT[k_] = V("Ok", I(1))
            elif k_.endswith("::detect_binary"):
                CONT[k_] = V("Ok", I(0))
            elif k_.endswith("::match_by_line_fast"):
                CONT[k_] = V("Ok", V("Continue"))
        # listed legitimate stop reasons (function suffix -> predicate on the guarding condition), one line each
        ALLOWED = {
            "Core::match_by_line_slow": [lambda e: mentions_field(e, SCFG, "stop_on_nonmatch")],     # --stop-on-nonmatch
            "Core::match_by_line": [lambda e: True],                                                   # maps FastMatchResult
            "Core::detect_binary": [lambda e: True],                                                   # answers quit_byte().is_some()
            "MultiLine::sink_matched": [lambda e: is_call(e, RANGE + "::is_empty")],                   # empty final range
            "MultiLine::sink": [lambda e: False],
            "ReadByLine::fill": [lambda e: mentions_call(e, "grep_searcher::line_buffer::LineBufferReader::fill")  # EOF
                                 or is_call(e, "grep_searcher::searcher::glue::ReadByLine::should_binary_quit")     # binary quit
                                 or (e.k == "bin" and mentions_call(e, CORE + "::roll"))],                        # no progress
            "Core::match_by_line_fast": [lambda e: mentions_field(e, SCFG, "stop_on_nonmatch")],       # SwitchToSlow is not a stop
        }
        for path in sorted(K):
            g = facts.fns.get(path)
            if g is None or g.kind == "closure":
                continue
            txt, stopv, _ = K[path]

            def model(call, argv):
                for n in call.names:
                    if n in CONT:
                        return CONT[n]
                return None
            sx = Sccp(g, call_model=model).run([(0, {})])
            ebg = ExprBuilder(g)
            preds = []
            for suf, ps in ALLOWED.items():
                if path.endswith("::" + suf):
                    preds = ps
            allowed_sw = cond_switches(g, lambda e: any(p_(e) for p_ in preds), ebg) if preds else []
            removed = set()
            for s_ in allowed_sw:
                removed.add(s_[1]); removed.add(s_[2])
            unexplained = C.reach(g, [0], removed_edges=removed)
            bad = []
            for b_, v_ in sx.ret_values.items():
                for x in value_set(v_):
                    if x == stopv:
                        # where was _0 given that value: the assigning blocks that are executable and reach b_
                        srcs = [bb for bb, j, st in g.stmts() if bb in sx.exec_blocks and st["k"] == "assign" and st["place"]["l"] == 0
                                and not st["place"]["p"] and sx._rvalue(sx.env_in.get(bb, {}), st["rv"]) == stopv]
                        for sb in srcs:
                            if sb in unexplained:
                                bad.append(sb)
            key = path.split("::")[-2] + "::" + path.split("::")[-1]
            if bad:
                loc = g.blocks[bad[0]]["stmts"][-1]["loc"] if g.blocks[bad[0]]["stmts"] else g.loc
                r.bad(key, "%s can answer %s although every callee and the sink said keep going and no listed stop reason applies "
                      "(results after this point would be lost)" % (key, txt), fn=g, loc=loc, construct="live")
            else:
                r.ok(key, "all-continue ⇒ no unexplained %s" % txt, fn=g)

    with ctx.rule("C03.ROLL", "context retention across a buffer refill (shared with C02.ROLL)", floor=2, kind="FLOW") as r:
        f = facts.fn(CORE + "::roll")
        eb = ExprBuilder(f)
        pc = f.calls_to("grep_searcher::lines::preceding")
        if pc and is_call(strip(eb.operand(pc[0].args[2])), SCFG + "::max_context"):
            r.ok("retain", "retained lines = preceding(buf, term, config.max_context())", fn=f)
        else:
            r.bad("retain", "roll no longer retains config.max_context() trailing lines: a context line or a group separator can be lost "
                  "where the buffer is refilled", fn=f, construct="retain")
        ret = eb.local(0)
        if mentions_call(ret, "core::cmp::max") and mentions_field(ret, CORE, "last_line_visited"):
            r.ok("consumed", "never consumes past the last delivered line: max(context start, last_line_visited)", fn=f)
        else:
            r.bad("consumed", "roll's consumed amount no longer respects last_line_visited", fn=f, construct="consumed")
    with ctx.rule("C03.CLEAR", "a searcher's reused buffer starts every input at offset 0 (shared with C02.REFILL|clear)", floor=2, kind="RW") as r:
        from . import c02
        c02.clear_rule(ctx, r)
    with ctx.rule("C03.BYTES", "a search that runs to completion reports the cursor (the input's length) as bytes searched: the offset of "
                  "binary data replaces it only when the search quits there", floor=2, kind="GUARD") as r:
        GLUE = "grep_searcher::searcher::glue::"
        for strat in ("SliceByLine", "MultiLine"):
            bc = byte_count_fn(facts, strat)
            if bc is None:
                r.bad("bytes|" + strat, "anchor-missing: the byte count %s::run hands to Core::finish is not computed by a searcher routine" % strat)
                continue
            ebc = ExprBuilder(bc)
            bo = bc.calls_to(CORE + "::binary_byte_offset")
            # blocks that answer with (something derived from) the binary offset and not the cursor
            offs = [bb for bb, j, st in bc.stmts() if st["k"] == "assign" and st["place"]["l"] == 0 and not st["place"]["p"] and
                    mentions_call(ebc.rvalue(st["rv"]), CORE + "::binary_byte_offset") and not mentions_call(ebc.rvalue(st["rv"]), CORE + "::pos")
                    and not mentions_field(ebc.rvalue(st["rv"]), CORE, "pos")]
            if not bo or not offs:
                r.ok("bytes|" + strat, "byte_count never answers with the binary offset", fn=bc, nontrivial=False)
                continue
            quit_sw = cond_switches(bc, lambda e: mentions_call(e, CORE + "::quits_on_binary", "grep_searcher::searcher::BinaryDetection::quit_byte")
                                    or any(x.k == "field" and x[3] == "binary" for x in walk(e)), ebc)
            if quit_sw and not guarded(bc, offs, quit_sw, True):
                r.ok("bytes|" + strat, "binary offset as byte count only under quit-on-binary", fn=bc)
            else:
                r.bad("bytes|" + strat, "%s::byte_count answers with the offset of the first binary byte whenever there is one before the "
                      "cursor, also in convert mode where the search carries on to the end: a completed search of a mapped file "
                      "then reports fewer bytes searched than the same file read through a reader" % strat, fn=bc, construct="byte_count")
    with ctx.rule("C03.COUNT", "incremental line counting: count [last_line_counted, upto) once, then advance the mark", floor=3, kind="GUARD/RW") as r:
        f = facts.fn(CORE + "::count_lines")
        eb = ExprBuilder(f)
        cnt = f.calls_to("grep_searcher::lines::count")
        # the comparison of the mark with `upto`, however it is spelled (`mark >= upto` ⇒ return, `mark < upto` ⇒ count):
        # when the mark has reached upto nothing is counted
        from ..flow import cmp_stmts, cmp_truth, excluded_by_test
        tests_ = []
        for bb_, j_, op_, lhs_, rhs_ in cmp_stmts(f, eb):
            for x_, y_, lx_ in ((lhs_, rhs_, True), (rhs_, lhs_, False)):
                if mentions_field(x_, CORE, "last_line_counted") and any(z.k == "arg" and z[2] == "upto" for z in walk(y_)):
                    v_ = cmp_truth(op_, lx_, "Ge")
                    if v_ is not None:
                        tests_.append((bb_, j_, v_))
        ge = excluded_by_test(f, tests_, [c_.bb for c_ in cnt]) if cnt else []
        wm = [eb.rvalue(st["rv"]) for bb, j, st in f.stmts() if st["k"] == "assign" and (CORE, "last_line_counted") in fields_of_place(st["place"])]
        if cnt and ge:
            hay = eb.operand(cnt[0].args[0])
            rng = [x for x in walk(hay) if x.k == "agg" and x[1].endswith("ops::range::Range")]
            okr = rng and mentions_field(rng[0][3][0], CORE, "last_line_counted") and any(y.k == "arg" and y[2] == "upto" for y in walk(rng[0][3][1]))
            if okr and mentions_field(eb.operand(cnt[0].args[1]), SCFG, "line_term"):
                r.ok("range", "counts terminators in buf[last_line_counted..upto] (only when last_line_counted < upto)", fn=f)
            else:
                r.bad("range", "count_lines counts `%s`" % show(hay)[:70], fn=f, construct="count_lines")
        else:
            r.bad("range", "count_lines no longer counts exactly once per byte (guard last_line_counted >= upto)", fn=f, construct="count_lines")
        if wm and all(x.k == "arg" and x[2] == "upto" for x in map(strip, wm)) and cnt and \
                all(C.dominates(f, cnt[0].bb, bb) for bb, j, st in f.stmts() if st["k"] == "assign" and (CORE, "last_line_counted") in fields_of_place(st["place"])):
            r.ok("mark", "last_line_counted = upto after counting", fn=f)
        else:
            r.bad("mark", "count_lines does not advance last_line_counted to upto after counting", fn=f, construct="count_lines")
        # the count is added to the running line number
        adds = [st for bb, j, st in f.stmts() if st["k"] == "assign" and st["rv"]["k"] in ("bin",) and st["rv"]["op"] in ("Add", "AddWithOverflow")
                and mentions_call(eb.rvalue(st["rv"]), "grep_searcher::lines::count")]
        if adds:
            r.ok("add", "line_number += count", fn=f)
        else:
            r.bad("add", "the counted terminators are no longer added to the line number", fn=f, construct="count_lines")
        g = facts.fn(CORE + "::before_context_by_line")
        ebg = ExprBuilder(g)
        pc = g.calls_to("grep_searcher::lines::preceding")
        if pc:
            e = ebg.operand(pc[0].args[2])
            if any(x.k == "bin" and x[1] in ("Sub", "SubWithOverflow") and mentions_field(x, SCFG, "before_context") and
                   any(y.k == "const" and y[1] == 1 for y in (x[2], x[3])) for x in walk(e)):
                r.ok("before|count", "before-context window = preceding(.., before_context - 1) lines before the match's line start", fn=g)
            else:
                r.bad("before|count", "before_context_by_line asks for `%s` preceding lines instead of before_context - 1" % show(e)[:50], fn=g,
                      construct="before-count")
        else:
            r.bad("before|count", "anchor-missing: lines::preceding in before_context_by_line", fn=g)
    with ctx.rule("C03.PHANTOM", "context lines only next to a delivered line: none for the empty range at EOF (shared with C13.PHANTOM)",
                  floor=1, kind="GUARD") as r:
        from . import c13
        c13.phantom_rule(ctx, r)
    with ctx.rule("C03.WINDOW", "before-context starts at the last visited line; after-context stops when none is owed", floor=2,
                  kind="FLOW/A3") as r:
        f = facts.fn(CORE + "::before_context_by_line")
        eb = ExprBuilder(f)
        rn = [c for c in f.calls_to("grep_matcher::Match::new")]
        if rn and mentions_field(eb.operand(rn[0].args[0]), CORE, "last_line_visited"):
            r.ok("before|start", "before-context range starts at last_line_visited (no line twice)", fn=f)
        else:
            r.bad("before|start", "before-context no longer starts at last_line_visited", fn=f)
        g = facts.fn(CORE + "::after_context_by_line")
        ebg = ExprBuilder(g)
        z = cond_switches(g, lambda e: e.k == "bin" and e[1] == "Eq" and mentions_field(e, CORE, "after_context_left")
                          and any(y.k == "const" and y[1] == 0 for y in (e[2], e[3])), ebg)
        sa = g.calls_to(CORE + "::sink_after_context")
        if not sa:
            g = facts.raw.fn(CORE + "::after_context_by_line")
            ebg = ExprBuilder(g)
            z = cond_switches(g, lambda e: e.k == "bin" and e[1] == "Eq" and mentions_field(e, CORE, "after_context_left")
                              and any(y.k == "const" and y[1] == 0 for y in (e[2], e[3])), ebg)
            sa = kind_calls(g, "After")
        if z and sa and not guarded(g, [sa[0].bb], z, False):
            r.ok("after|zero", "no after-context is delivered when after_context_left == 0", fn=g)
        else:
            r.bad("after|zero", "after_context_by_line can deliver lines although none are owed", fn=g)
