"""C10 — all reporting modes agree with each other (sink parity, kind tables, mode wiring)."""
import itertools
from .. import cfg as C
from .. import hirx as H
from ..flow import ExprBuilder, mentions_field, mentions_call, is_call, is_field, walk, show, cond_switches, \
    guarded, seed_after_call, Sccp, I, V, X, strip, value_set
from ..graph import field_rw, enum_table, discr_switches
from ..facts import op_const, op_place, fields_of_place
from .. import wire as W

TITLE = "reporting-mode parity"
EXPLANATION = (
    "Structural necessary conditions of C10 on the MIR/HIR of grep-printer and rg: (COUNT) each of the three sinks "
    "increments match_count on every path of matched() and defines has_match by it; (STATS) all three feed "
    "Stats::add_matches with the number of matches re-discovered by find_iter_at_in_context for this event and "
    "add_matched_lines with the event's line count, every consumer of find_iter_at_in_context is enumerated, and "
    "finish() adds searches / searches-with-match (guarded by match_count > 0) / bytes; (KIND) the SummaryKind "
    "predicates are decided as exhaustive tables and stats are enabled under config.stats ∨ requires_stats; (FINISH) "
    "each SummaryKind arm of SummarySink::finish writes what its mode promises under the right count guard; (MODE) "
    "-v --count-matches ⇒ --count and -o --count ⇒ --count-matches and nothing else, SearchMode → printer/SummaryKind "
    "mapping with quiet ⇒ Quiet, quit_after_match ≡ no stats ∧ quiet, and the same max_count reaches all three "
    "printers. That re-discovered matches equal the searcher's is not decided. (REDISCOVER, shared with C09; MLPRED) every printer decides multi-line mode by the same matcher-aware predicate as the searcher.")
NOT_DECIDED = ["that the printers' re-discovered matches equal the searcher's matches",
               "the empty match at the end of an unterminated last line (a known behavioural defect, value-level)"]

P = "grep_printer"
SINK = "grep_searcher::sink::Sink"
SINKS = {"standard": P + "::standard::StandardSink", "json": P + "::json::JSONSink", "summary": P + "::summary::SummarySink"}
STATS = P + "::stats::Stats"
FIND = P + "::util::find_iter_at_in_context"
SK = P + "::summary::SummaryKind"
HI = "rg::flags::hiargs::HiArgs"


def sink_fn(facts, adt, m):
    return facts.fn("<%s as %s>::%s" % (adt, SINK, m))


def run(ctx):
    facts = ctx.facts
    with ctx.rule("C10.COUNT", "match_count incremented on every path of matched(); has_match defined by it", floor=7, kind="PASS/TRUTH") as r:
        for name, adt in SINKS.items():
            f = sink_fn(facts, adt, "matched")
            eb = ExprBuilder(f)
            incs = []
            for bb, j, st in f.stmts():
                if st["k"] == "assign" and (adt, "match_count") in fields_of_place(st["place"]):
                    e = eb.rvalue(st["rv"])
                    if any(x.k == "bin" and x[1] in ("Add", "AddWithOverflow") for x in walk(e)) or e.k == "field":
                        incs.append(bb)
            errs = {c.bb for c in f.calls() if c.is_("core::ops::try_trait::FromResidual::from_residual")}
            esc = C.all_paths_pass(f, [0], set(incs) | errs, f.return_blocks())
            if incs and not esc:
                r.ok("%s|inc" % name, "every non-error path of matched() increments match_count", fn=f)
            else:
                r.bad("%s|inc" % name, "%s sink: matched() can return without counting the match" % name, fn=f, construct="match_count")
            h = facts.fn(adt + "::has_match")
            # value table: has_match over (kind, match_count)
            from ..flow import table, ret_set
            SK = "grep_printer::summary::SummaryKind"
            flds = {(adt, "match_count"): [I(0), I(2)]}
            if name == "summary":
                flds[("grep_printer::summary::Config", "kind")] = [V(v) for v in facts.variants(SK)]
            wrong = []
            for row, sx in table(facts, h, fields=flds):
                cnt = row[("field", (adt, "match_count"))][1]
                kind = row.get(("field", ("grep_printer::summary::Config", "kind")))
                want = (cnt == 0) if (kind is not None and kind[1] == "PathWithoutMatch") else (cnt > 0)
                got = ret_set(sx)
                if got != {I(1 if want else 0)}:
                    wrong.append("%s count=%d ⇒ %s" % (kind[1] if kind else "", cnt, sorted(map(str, got))))
            if not wrong and name == "summary":
                r.ok("summary|has_match", "has_match: PathWithoutMatch ⇒ count == 0, otherwise count > 0", fn=h)
            elif not wrong:
                r.ok("%s|has_match" % name, "has_match ≡ match_count > 0", fn=h)
            elif name == "summary":
                r.bad("summary|has_match", "SummarySink::has_match is not `PathWithoutMatch ⇒ count == 0, otherwise count > 0`: %s" % "; ".join(wrong)[:160],
                      fn=h, construct="has_match")
            else:
                r.bad("%s|has_match" % name, "%s has_match is not `match_count > 0`: %s" % (name, "; ".join(wrong)[:120]), fn=h, construct="has_match")
        # summary: multi-line adds the re-discovered count, otherwise 1
        f = sink_fn(facts, SINKS["summary"], "matched")
        eb = ExprBuilder(f)
        sw = [s for s in cond_switches(f, lambda e: e.k in ("phi", "local") or is_call(e, SINKS["summary"] + "::multi_line"), eb)
              if mentions_call(s[3], SINKS["summary"] + "::multi_line")]
        if sw:
            r.ok("summary|multiline", "summary adds the match total only in multi-line mode", fn=f, nontrivial=False)
        else:
            r.bad("summary|multiline", "SummarySink::matched no longer distinguishes multi-line counting", fn=f)
        # ... and never under inversion: the lines handed over then contain no match at all, the re-discovered count is 0 and
        # `-U -v -c` would print nothing although `-U -v` prints lines. The per-match addition (match_count += <non-constant>)
        # must sit on the !invert_match() edge.
        inv = cond_switches(f, lambda e: is_call(e, "grep_searcher::searcher::Searcher::invert_match"), eb)
        varadd = []
        for bb, j, st in f.stmts():
            if st["k"] == "assign" and st["rv"]["k"] == "bin" and st["rv"]["op"] in ("Add", "AddWithOverflow"):
                e = eb.rvalue(st["rv"])
                if any(x.k == "field" and x[3] == "match_count" for x in walk(e)) and \
                        not any(W.const_val(a) == 1 for a in (e[2], e[3])):
                    varadd.append(bb)
        # whatever is added for a delivered match is at least 1: matched() is only called because there is a match; that the
        # printer's own re-search does not find it again (an empty match at the end of an unterminated last line) must not turn
        # the file into one without matches for -q / -l / -c / --files-without-match while the standard printer shows the line
        zero = []
        for bb, j, st in f.stmts():
            if st["k"] == "assign" and st["rv"]["k"] == "bin" and st["rv"]["op"] in ("Add", "AddWithOverflow"):
                e = eb.rvalue(st["rv"])
                if any(x.k == "field" and x[3] == "match_count" for x in walk(e)):
                    amt = e[3] if any(x.k == "field" and x[3] == "match_count" for x in walk(e[2])) else e[2]

                    def alts(x):
                        x = strip(x)
                        return [z for y in x[2] for z in alts(y)] if x.k == "phi" else [x]
                    for one in alts(amt):
                        if W.const_val(one) == 1:
                            continue
                        if any(is_call(x, "core::cmp::max", "core::cmp::Ord::max") and
                               any(W.const_val(a) == 1 for a in x[3]) for x in walk(one)):
                            continue
                        zero.append(bb)
        if zero:
            r.bad("summary|at-least-one", "SummarySink::matched adds the number of matches its own re-search finds, which can be 0 "
                  "for a match the searcher delivered: `printf ' ' > f; rg -U -q '$' f` exits 1 although `rg -U '$' f` prints the "
                  "line", fn=f, construct="summary-count")
        else:
            r.ok("summary|at-least-one", "every delivered match adds at least 1 to match_count", fn=f)
        # under inversion what is added is the constant 1, wherever the amount is chosen (two additions, or one addition of
        # a value picked before)
        from ..flow import operand_at
        sxi = Sccp(f, call_model=lambda c, argv: I(1) if c.is_("grep_searcher::searcher::Searcher::invert_match") else None).run([(0, {})])
        inv_ok, nadd = True, 0
        for bb, j, st in f.stmts():
            if st["k"] == "assign" and st["rv"]["k"] == "bin" and st["rv"]["op"] in ("Add", "AddWithOverflow") and bb in sxi.exec_blocks:
                ea, eb_ = eb.operand(st["rv"]["a"]), eb.operand(st["rv"]["b"])
                if any(x.k == "field" and x[3] == "match_count" for x in walk(ea)):
                    amt_op = st["rv"]["b"]
                elif any(x.k == "field" and x[3] == "match_count" for x in walk(eb_)):
                    amt_op = st["rv"]["a"]
                else:
                    continue
                nadd += 1
                if operand_at(sxi, bb, st, amt_op) != I(1):
                    inv_ok = False
        if not varadd:
            r.ok("summary|invert", "no per-match addition to match_count", fn=f, nontrivial=False)
        elif f.calls_to("grep_searcher::searcher::Searcher::invert_match") and nadd and inv_ok:
            r.ok("summary|invert", "per-match counting only when the search is not inverted", fn=f)
        else:
            r.bad("summary|invert", "SummarySink::matched adds the number of re-discovered matches to the count even when the search "
                  "is inverted: inverted lines contain no match, so -U -v -c counts 0 and reports nothing where -U -v prints lines",
                  fn=f, construct="summary-invert")

    with ctx.rule("C10.STATS", "all sinks feed Stats the same way; every consumer of find_iter_at_in_context enumerated; drivers sum every file", floor=11,
                  kind="PARITY/FLOW") as r:
        users = sorted({c.fn.path.split("::{closure")[0] for c in facts.callers_of(FIND)})
        KNOWN = {SINKS["standard"] + "::record_matches", SINKS["json"] + "::record_matches",
                 "<%s as %s>::matched" % (SINKS["summary"], SINK)}
        for u in users:
            if u in KNOWN:
                r.ok("consumer|" + u.split("::")[-2] + "::" + u.split("::")[-1], "classified consumer of find_iter_at_in_context", fn=u)
            else:
                r.bad("consumer|" + u, "new consumer of find_iter_at_in_context (%s) must be classified: its notion of 'a match' "
                      "has to agree with the three sinks" % u, fn=u, construct="consumer")
        for k in KNOWN - set(users):
            r.bad("consumer|" + k, "%s no longer re-discovers matches through find_iter_at_in_context" % k, construct="consumer")
        # the drivers add every searched file's Stats to the total, matched or not ("--stats totals equal the sums over files")
        HM = "rg::search::SearchResult::has_match"
        AA = "core::ops::arith::AddAssign::add_assign"
        drivers = [facts.fn("rg::search")] + [c_ for c_ in facts.closures_of("rg::search_parallel")
                                                if c_.calls_to("rg::search::SearchWorker::search")]
        for d_ in drivers:
            ebd = ExprBuilder(d_)
            adds = [c for c in d_.calls() if c.path == AA and "grep_printer::stats::Stats" in str(c.func.get("resolved", "")) + str(c.names)]
            key = "aggregate|" + d_.path.split("::{closure")[0].split("::")[-1]
            if not adds:
                r.bad(key, "%s no longer adds the per-file Stats to the total" % d_.path, fn=d_, construct="stats-aggregate")
                continue
            sw = cond_switches(d_, lambda e: is_call(e, HM), ebd)
            gated = [c for c in adds if sw and not guarded(d_, [c.bb], sw, True)]
            if gated:
                r.bad(key, "%s adds a file's Stats to the total only when it matched: files searched / bytes searched then count "
                      "matching files only and differ from the single-threaded run and from -c --include-zero" % d_.path, fn=d_,
                      loc=gated[0].loc, construct="stats-aggregate")
            else:
                r.ok(key, "per-file Stats added to the total whether or not the file matched", fn=d_)
        for name, adt in SINKS.items():
            f = sink_fn(facts, adt, "matched")
            eb = ExprBuilder(f)
            am = f.calls_to(STATS + "::add_matches")
            al = f.calls_to(STATS + "::add_matched_lines")
            if not am or not al:
                r.bad("%s|stats" % name, "%s sink: matched() does not record matches and matched lines in Stats" % name, fn=f,
                      construct="stats")
                continue
            a = eb.operand(am[0].args[1])
            l = eb.operand(al[0].args[1])
            src_ok = mentions_call(a, "alloc::vec::Vec::len") and any(x.k == "field" and x[3] == "matches" for x in walk(a)) \
                if name != "summary" else (mentions_call(a, FIND) or any(x.k in ("phi",) for x in walk(a)))
            lines_ok = mentions_call(l, "core::iter::traits::iterator::Iterator::count") and \
                mentions_call(l, "grep_searcher::sink::SinkMatch::lines")
            if src_ok and lines_ok:
                r.ok("%s|stats" % name, "add_matches(#re-discovered matches), add_matched_lines(mat.lines().count())", fn=f)
            else:
                r.bad("%s|stats" % name, "%s sink feeds Stats with matches=`%s` lines=`%s`" % (name, show(a)[:40], show(l)[:40]), fn=f,
                      construct="stats")
            if name != "summary":
                rm = f.calls_to(adt + "::record_matches")
                if rm and C.dominates(f, rm[0].bb, am[0].bb):
                    r.ok("%s|order" % name, "record_matches before add_matches", fn=f)
                else:
                    r.bad("%s|order" % name, "Stats are updated before the matches of this event are recorded", fn=f, construct="stats")
            g = sink_fn(facts, adt, "finish")
            ebg = ExprBuilder(g)
            need = ["add_searches", "add_searches_with_match", "add_bytes_searched"]
            cs = {n: g.calls_to(STATS + "::" + n) for n in need}
            # value table over match_count ∈ {0, 2}: what the aggregate receives (a call that does not run adds nothing)
            from ..flow import table as _tb, operand_at as _oa
            eff = {}
            for row, sx in _tb(facts, g, fields={(adt, "match_count"): [I(0), I(2)]}):
                cnt = row[("field", (adt, "match_count"))][1]
                got = {}
                for n in need:
                    ran = [c for c in cs[n] if c.bb in sx.exec_blocks]
                    got[n] = (_oa(sx, ran[0].bb, None, ran[0].args[1]) if ran else I(0))
                eff[cnt] = got
            okf = all(cs.values()) and eff.get(0, {}).get("add_searches") == I(1) and eff.get(2, {}).get("add_searches") == I(1) and \
                eff[0]["add_searches_with_match"] == I(0) and eff[2]["add_searches_with_match"] == I(1) and \
                all(any(c.bb in sx_.exec_blocks for c in cs["add_bytes_searched"]) for _, sx_ in _tb(facts, g, fields={(adt, "match_count"): [I(0), I(2)]}))
            if okf:
                r.ok("%s|finish" % name, "finish: searches += 1; searches_with_match += 1 iff match_count > 0; bytes", fn=g)
            else:
                r.bad("%s|finish" % name, "%s sink: finish() does not update the aggregate statistics consistently" % name, fn=g,
                      construct="finish")

    from . import c09
    with ctx.rule("C10.REDISCOVER", "match re-discovery is confined to the reported range (shared with C09.REDISCOVER)", floor=8,
                  kind="GUARD/FLOW") as r:
        c09.rediscover_rule(ctx, r)
    with ctx.rule("C10.ANCHORS", "the printers' re-search of a line inside its buffer sees the same line anchors as the searcher's "
                  "isolated line: the engine is given the configured terminator (shared with C11.ENGINE)", floor=1, kind="WIRE") as r:
        from . import c11
        c11.engine_rule(ctx, r)
    with ctx.rule("C10.MLPRED", "printers and searcher decide 'multi-line' by the same matcher-aware predicate", floor=5, kind="PARITY") as r:
        RAW = "grep_searcher::searcher::Searcher::multi_line"
        MLWM = "grep_searcher::searcher::Searcher::multi_line_with_matcher"
        raw_users = sorted({c.fn.path.split("::{closure")[0] for c in facts.callers_of(RAW)} - {MLWM})
        for u in raw_users:
            if u.startswith("grep_printer::") or u.startswith("grep_searcher::searcher::"):
                r.bad("raw|" + u, "%s consults the raw --multiline flag instead of multi_line_with_matcher: for a pattern that cannot "
                      "match a line terminator it would count/print per match while the searcher works per line" % u, fn=u, construct="mlpred")
        users = sorted({c.fn.path.split("::{closure")[0] for c in facts.callers_of(MLWM)})
        need = ["grep_printer::standard::StandardImpl::multi_line", "grep_printer::summary::SummarySink::multi_line",
                "grep_printer::util::Replacer::replace_all", "grep_printer::util::find_iter_at_in_context"]
        for n in need:
            if n in users:
                r.ok("user|" + n.split("::")[-2] + "::" + n.split("::")[-1], "uses multi_line_with_matcher(&matcher)", fn=n)
            else:
                r.bad("user|" + n, "%s no longer decides multi-line mode with multi_line_with_matcher" % n, construct="mlpred")
        # the summary sink's per-match counting branch is taken on that predicate
        f = sink_fn(facts, SINKS["summary"], "matched")
        if f.calls_to(SINKS["summary"] + "::multi_line"):
            r.ok("summary|matched", "SummarySink::matched branches on self.multi_line(searcher)", fn=f)
        else:
            r.bad("summary|matched", "SummarySink::matched does not consult the matcher-aware multi-line predicate", fn=f, construct="mlpred")

    with ctx.rule("C10.KIND", "SummaryKind predicate tables (15 rows) and stats enabling", floor=16, exhaustive=True, kind="TABLE") as r:
        TAB = {
            "requires_stats": {"CountMatches"},
            "quit_early": {"PathWithMatch", "Quiet"},
            "requires_path": {"PathWithMatch", "PathWithoutMatch"},
        }
        variants = facts.variants(SK)
        for m, trues in TAB.items():
            f = facts.fn(SK + "::" + m)
            t = enum_table(f)
            for v in variants:
                got = t[1].get(v) if t else None
                want = I(int(v in trues))
                if got == want:
                    r.ok("%s|%s" % (m, v), "SummaryKind::%s(%s) = %s" % (m, v, v in trues), fn=f)
                else:
                    r.bad("%s|%s" % (m, v), "SummaryKind::%s(%s) = %s, specified %s" % (m, v, got, v in trues), fn=f, construct=m)
        for m in ("sink", "sink_with_path"):
            f = facts.fn(P + "::summary::Summary::" + m)
            cond = None
            for x in H.find(f.hir, lambda x: x.get("k") == "if"):
                c = H.canon(x["c"])
                if "requires_stats" in c:
                    cond = x["c"]
            if cond is None:
                r.bad("stats|" + m, "anchor-missing: stats enabling in Summary::%s" % m, fn=f)
                continue
            atoms = ["self.config.stats", "self.config.kind.requires_stats()"]
            ok, detail = H.equivalent(cond, atoms, lambda v: v[atoms[0]] or v[atoms[1]])
            if ok:
                r.ok("stats|" + m, "stats tracked ⇔ config.stats ∨ kind.requires_stats()", fn=f)
            else:
                r.bad("stats|" + m, "Summary::%s enables stats under: %s" % (m, detail), fn=f, construct="stats")

    with ctx.rule("C10.FINISH", "SummarySink::finish writes what each mode promises under the right count guard", floor=6, kind="ARMS") as r:
        f = sink_fn(facts, SINKS["summary"], "finish")
        eb = ExprBuilder(f)
        SUM = SINKS["summary"]
        # Value table on the MIR: rows (kind, match_count ∈ {0,1}, exclude_zero ∈ {0,1}), no binary data; the outcome is which
        # writes are executable. if/else inside the arms, match guards, a hoisted `has_match` local all read the same.
        from ..flow import Sccp as _Sccp, combinator_model as _cm
        sws = [s_ for s_ in discr_switches(f, SK)]
        variants = facts.variants(SK)
        PCFG = P + "::summary::Config"
        if not sws:
            r.bad("switch", "anchor-missing: SummarySink::finish must match on config.kind", fn=f)
        else:
            w_path = [c for c in f.calls() if c.path == SUM + "::write_path_line"]
            w_cnt = [c for c in f.calls() if c.path == SUM + "::write" and mentions_field(eb.operand(c.args[1]), SUM, "match_count")
                     and not mentions_call(eb.operand(c.args[1]), STATS + "::matches")
                     and not any(x.k == "closure" or mentions_field(x, SUM, "stats") for x in walk(eb.operand(c.args[1])))]
            w_mat = [c for c in f.calls() if c.path == SUM + "::write" and mentions_call(eb.operand(c.args[1]), STATS + "::matches")]
            w_any = [c for c in f.calls() if c.path.startswith(SUM + "::write")]
            wrong = {}
            for v in variants:
                for mc, ez in itertools.product((0, 1), (0, 1)):
                    removed = set()
                    for bb, adt, place, arms, ow, ow_live, missing in sws:
                        for var, tgt in arms.items():
                            if var != v:
                                removed.add((bb, tgt))
                        if v in arms:
                            removed.add((bb, ow))

                    def fm(owner, name, mc=mc, ez=ez):
                        if owner == SUM and name == "match_count":
                            return I(mc)
                        if owner == PCFG and name == "exclude_zero":
                            return I(ez)
                        return None

                    def inner(call, argv):
                        if call.path.endswith("SinkFinish::binary_byte_offset"):
                            return V("None", None)
                        return None
                    sx = _Sccp(f, call_model=_cm(facts, inner, field_model=fm, callees=lambda p_: p_.startswith(SUM + "::has_match")),
                               field_model=fm, removed_edges=removed).run([(0, {})])

                    def ran(cs):
                        return any(c.bb in sx.exec_blocks for c in cs)
                    show = (not ez) or mc > 0
                    if v == "Quiet":
                        ok_ = not ran(w_any)
                    elif v == "Count":
                        ok_ = ran(w_cnt) == show and not ran(w_path) and not ran(w_mat)
                    elif v == "CountMatches":
                        ok_ = ran(w_mat) == show and not ran(w_path) and not ran(w_cnt)
                    elif v == "PathWithMatch":
                        ok_ = ran(w_path) == (mc > 0) and not ran(w_cnt) and not ran(w_mat)
                    elif v == "PathWithoutMatch":
                        ok_ = ran(w_path) == (mc == 0) and not ran(w_cnt) and not ran(w_mat)
                    else:
                        ok_ = True
                    if not ok_:
                        wrong.setdefault(v, []).append("match_count=%d exclude_zero=%d: path %s, count %s, matches %s" % (
                            mc, ez, ran(w_path), ran(w_cnt), ran(w_mat)))
            texts = {"Quiet": "--quiet writes output", "Count": "--count does not print match_count exactly when ¬exclude_zero ∨ match_count > 0",
                     "CountMatches": "--count-matches does not print stats.matches() exactly when ¬exclude_zero ∨ match_count > 0",
                     "PathWithMatch": "-l does not list exactly the files with match_count > 0",
                     "PathWithoutMatch": "--files-without-match does not list exactly the files with match_count == 0"}
            for v in variants:
                if v in wrong:
                    r.bad("arm|" + v, "%s (%s)" % (texts.get(v, v), wrong[v][0]), fn=f, construct=v)
                else:
                    r.ok("arm|" + v, "SummaryKind::%s: 4 rows (match_count × exclude_zero) write what the mode promises" % v, fn=f)
            if "Count" in wrong or "CountMatches" in wrong:
                r.bad("show_count", "show_count: the count is not shown exactly when ¬exclude_zero ∨ match_count > 0", fn=f, construct="show_count")
            else:
                r.ok("show_count", "count shown ⇔ ¬exclude_zero ∨ match_count > 0", fn=f)

    with ctx.rule("C10.MODE", "mode normalisation, SearchMode → printer mapping, quit_after_match, max_count wiring", floor=12,
                  exhaustive=True, kind="TABLE/WIRE") as r:
        f = facts.fn(HI + "::from_low_args")
        SM = "rg::flags::lowargs::SearchMode"
        # Decide the normalisation as a table over (mode, -o, -v) on the MIR: the switch on the mode is pinned to the row's
        # variant, the two flags are the row's field values, and what the mode ends up as is the variant that the executable
        # code stores (nothing stored: unchanged). --count-matches under -v counts nothing useful and is --count; -o turns
        # --count into --count-matches (only without -v, for the same reason).
        pass
        from ..flow import Sccp as _Sccp, combinator_model as _cm
        from ..graph import discr_switches as _ds
        LOW_ = "rg::flags::lowargs::LowArgs"
        sws = [x for x in _ds(f) if x[1] == SM and any(v_ in x[3] for v_ in ("Count", "CountMatches"))]
        stores = [(bb, st["rv"]["variant"]) for bb, j_, st in f.stmts()
                  if st["k"] == "assign" and st["rv"]["k"] == "agg" and st["rv"].get("adt") == SM]
        bad_rows = []
        if not sws or not stores:
            r.bad("normalise", "anchor-missing: no switch on the search mode / no store of a SearchMode in from_low_args", fn=f,
                  construct="normalise")
        else:
            for m0, o, v in itertools.product(("Count", "CountMatches"), (0, 1), (0, 1)):
                removed = set()
                for bb, adt, place, arms, ow, ow_live, missing in sws:
                    for var, tgt in arms.items():
                        if var != m0:
                            removed.add((bb, tgt))
                    if m0 in arms:
                        removed.add((bb, ow))

                def fm(owner, name, o=o, v=v):
                    if owner == LOW_ and name == "only_matching":
                        return I(o)
                    if owner == LOW_ and name == "invert_match":
                        return I(v)
                    return None
                sx = _Sccp(f, call_model=_cm(facts, None, field_model=fm), field_model=fm, removed_edges=removed).run([(sws[0][0], {})])
                ran = [var for bb, var in stores if bb in sx.exec_blocks]
                got = ran[-1] if ran else m0
                if len(set(ran)) > 1:
                    got = "/".join(sorted(set(ran)))
                want = "Count" if v else ("CountMatches" if (o or m0 == "CountMatches") else "Count")
                if got != want:
                    bad_rows.append("(%s, -o=%d, -v=%d) ⇒ %s, expected %s" % (m0, o, v, got, want))
            if bad_rows:
                r.bad("normalise", "mode normalisation: %s" % "; ".join(bad_rows), fn=f, construct="normalise")
            else:
                r.ok("normalise", "8-row table: -v ⇒ --count; else -o ∨ --count-matches ⇒ --count-matches; else --count", fn=f)
        # it precedes every use of low.mode by other conversions
        qam = None
        for x in H.walk(f.hir):
            if isinstance(x, dict) and x.get("k") == "let" and x.get("pat", {}).get("name") == "quit_after_match":
                qam = x.get("init")
        if qam is not None:
            atoms = ["stats.is_none()", "low.quiet"]
            ok, detail = H.equivalent(qam, atoms, lambda v: v[atoms[0]] and v[atoms[1]])
            if ok:
                r.ok("quit_after_match", "≡ stats.is_none() ∧ quiet", fn=f)
            else:
                r.bad("quit_after_match", "quit_after_match: %s" % detail, fn=f, construct="quit_after_match")
        else:
            r.bad("quit_after_match", "anchor-missing: quit_after_match", fn=f)
        g = facts.fn(HI + "::printer")
        # value table over (search_mode, self.quiet): which printer is built, and with which SummaryKind
        from ..flow import Sccp as _S2, combinator_model as _cm2
        MAP = {"FilesWithMatches": "PathWithMatch", "FilesWithoutMatch": "PathWithoutMatch", "Count": "Count",
               "CountMatches": "CountMatches"}
        res = {}
        for sm in facts.variants(SM):
            for q in (0, 1):
                built = []

                def fm(owner, name, q=q):
                    return I(q) if owner == HI and name == "quiet" else None

                def inner(call, argv, built=built):
                    for fn_ in ("printer_json", "printer_standard", "printer_summary"):
                        if call.path == HI + "::" + fn_:
                            k_ = argv[2] if fn_ == "printer_summary" and len(argv) > 2 else None
                            built.append((fn_, k_[1] if k_ is not None and k_[0] == "v" else None))
                    return None
                env = {}
                _S2._write(env, (2, ()), V(sm))
                _S2(g, call_model=_cm2(facts, inner, field_model=fm), field_model=fm).run([(0, env)])
                res[(sm, q)] = sorted(set(built))
        if not any(res.values()):
            r.bad("printer|match", "anchor-missing: HiArgs::printer must match on SearchMode", fn=g)
        else:
            for sm, kind in MAP.items():
                got = res.get((sm, 0))
                if got == [("printer_summary", kind)]:
                    r.ok("printer|" + sm, "SearchMode::%s ⇒ SummaryKind::%s" % (sm, kind), fn=g)
                else:
                    r.bad("printer|" + sm, "SearchMode::%s maps to %s, specified SummaryKind::%s" % (sm, got, kind), fn=g, construct=sm)
            for sm, fn_ in (("JSON", "printer_json"), ("Standard", "printer_standard")):
                if res.get((sm, 0)) == [(fn_, None)]:
                    r.ok("printer|" + sm, "SearchMode::%s ⇒ %s" % (sm, fn_), fn=g)
                else:
                    r.bad("printer|" + sm, "SearchMode::%s does not build %s (%s)" % (sm, fn_, res.get((sm, 0))), fn=g, construct=sm)
        if res and all(res[(sm, 1)] == [("printer_summary", "Quiet")] for sm in facts.variants(SM)):
            r.ok("printer|quiet", "quiet ⇒ SummaryKind::Quiet regardless of mode", fn=g)
        else:
            r.bad("printer|quiet", "--quiet does not select SummaryKind::Quiet", fn=g, construct="quiet")
        for fn_, builder in (("printer_json", "JSONBuilder"), ("printer_standard", "StandardBuilder"), ("printer_summary", "SummaryBuilder")):
            h = facts.fn(HI + "::" + fn_)
            ebh = ExprBuilder(h)
            mx = [c for c in h.calls() if c.path.endswith(builder + "::max_matches")]
            if len(mx) == 1 and W.field_of(ebh.operand(mx[0].args[1]), HI, "max_count"):
                r.ok("max_count|" + fn_, "%s::max_matches(self.max_count)" % builder, fn=h)
            else:
                r.bad("max_count|" + fn_, "%s does not receive self.max_count" % builder, fn=h, construct="max_count")
        h = facts.fn(HI + "::printer_summary")
        ebh = ExprBuilder(h)
        ez = [c for c in h.calls() if c.path.endswith("SummaryBuilder::exclude_zero")]
        kd = [c for c in h.calls() if c.path.endswith("SummaryBuilder::kind")]
        st = [c for c in h.calls() if c.path.endswith("SummaryBuilder::stats")]
        if ez and W.not_field(ebh.operand(ez[0].args[1]), HI, "include_zero") and kd and \
                any(x.k == "arg" and x[2] == "kind" for x in walk(ebh.operand(kd[0].args[1]))) and \
                st and mentions_field(ebh.operand(st[0].args[1]), HI, "stats"):
            r.ok("summary|wiring", "exclude_zero(¬include_zero), kind(kind), stats(self.stats.is_some())", fn=h)
        else:
            r.bad("summary|wiring", "summary printer wiring (exclude_zero / kind / stats) changed", fn=h, construct="summary")
