"""C04 — ignore files mean what git says they mean (code-shape halves of the documented rules)."""
from .. import cfg as C
from .. import hirx as H
from ..flow import ExprBuilder, mentions_field, mentions_call, is_call, is_field, walk, show, cond_switches, \
    guarded, seed_after_call, Sccp, I, V, X, strip, value_set
from ..graph import field_rw, classify_result
from ..facts import op_const, op_place, fields_of_place, place_key
from .. import wire as W
from . import c05, c06, c12

TITLE = "gitignore rule structure"
EXPLANATION = (
    "No oracle (git is not run): the code-shape halves of the documented gitignore rules, decided on the MIR/HIR of "
    "crates ignore and globset: (LAST) matched_stripped walks the matched indices in reverse and returns at the first "
    "accepted one (last pattern wins), accepting iff ¬dir-only ∨ is_dir, whitelist/ignore by the `!` flag, on top of "
    "the sorted/de-duplicated index contract of the glob set; (LINE) add_line builds globs with literal separators "
    "and backslash escapes, sets the whitelist flag only on a leading `!`, the directory-only flag only on a trailing "
    "`/`, adds the `**/` prefix only for unanchored slash-free lines, skips comment and empty lines before anything "
    "is registered, and registers set entry and glob record together (index alignment); (NEAREST) a deeper ignore "
    "file overrides a shallower one (shared with C05); (PRUNE) nothing beneath an ignored directory is visited "
    "(shared with C06); (STRIP) paths are made relative to the ignore file's directory before matching. Glob "
    "semantics and agreement with git are behavioural and not decided. The helper deciding whether a pattern already starts with a `**/` component is compared with its two-atom truth table.")
NOT_DECIDED = ["glob semantics and agreement with git (behavioural, oracle based)",
               "names ending in '.' (a known behavioural defect in globset::pathutil, not visible structurally)"]

GI = "ignore::gitignore::Gitignore"
GIB = "ignore::gitignore::GitignoreBuilder"
GLOB = "ignore::gitignore::Glob"
GB = "globset::glob::GlobBuilder"


def run(ctx):
    facts = ctx.facts
    with ctx.rule("C04.LAST", "last matching pattern wins; dir-only filter; whitelist by the `!` flag", floor=5, kind="ORDER/TRUTH") as r:
        f = facts.fn(GI + "::matched_stripped")
        eb = ExprBuilder(f)
        nxt = [c for c in f.calls() if c.is_("core::iter::traits::iterator::Iterator::next")]
        rev = [c for c in nxt if "rev::Rev" in (c.func.get("resolved") or "") or "Rev<" in " ".join(c.func.get("targs", []))]
        if nxt and len(rev) == len(nxt):
            r.ok("reverse", "indices are visited through Rev<..> (highest index first)", fn=f)
        else:
            r.bad("reverse", "matched_stripped no longer iterates the matched indices in reverse: the FIRST matching "
                  "pattern would win instead of the last", fn=f, construct="rev")
        mci = f.calls_to("globset::GlobSet::matches_candidate_into")
        if mci and nxt and C.dominates(f, mci[0].bb, nxt[0].bb) and mentions_field(eb.operand(mci[0].args[0]), GI, "set"):
            r.ok("source", "indices come from self.set.matches_candidate_into", fn=f)
        else:
            r.bad("source", "the candidate indices are not produced by the compiled glob set", fn=f)
        # globs[i] with i from the iteration
        idx = [c for c in f.calls() if c.is_("core::ops::index::Index::index") and mentions_field(eb.operand(c.args[0]), GI, "globs")]
        if idx and mentions_call(eb.operand(idx[0].args[1]), "core::iter::traits::iterator::Iterator::next"):
            r.ok("lookup", "glob record = self.globs[i] for the visited index", fn=f)
        else:
            r.bad("lookup", "the glob record is not looked up by the matched index", fn=f)
        # accepting test and whitelist decision via HIR
        envh = H.LetEnv(f.hir)
        ifs = [x for x in H.find(f.hir, lambda x: x.get("k") == "if" and "is_only_dir" in H.canon(x["c"], envh))]
        if len(ifs) != 1:
            r.bad("accept", "anchor-missing: no `is_only_dir` test in matched_stripped", fn=f)
        else:
            ok, detail = H.equivalent(ifs[0]["c"], ["only_dir", "is_dir"],
                                      lambda v: (not v["only_dir"]) or v["is_dir"], env=envh,
                                      rename=lambda a: "only_dir" if a.endswith(".is_only_dir()") else a)
            if ok:
                r.ok("accept", "accepted ⇔ ¬is_only_dir ∨ is_dir (%s)" % detail, fn=f)
            else:
                r.bad("accept", "directory-only filter: %s" % detail, fn=f, construct="dir-only")
            rets = [x for x in H.find(ifs[0]["t"], lambda x: x.get("k") == "ret")]
            if rets:
                a = H.decide(rets[0]["e"], {"glob.is_whitelist()": True})
                b = H.decide(rets[0]["e"], {"glob.is_whitelist()": False})
                if a.startswith("ignore::Match::Whitelist(") and b.startswith("ignore::Match::Ignore("):
                    r.ok("verdict", "`!` pattern ⇒ Whitelist, otherwise Ignore; returned at the first accepted index", fn=f)
                else:
                    r.bad("verdict", "whitelist flag maps to (%s, %s)" % (a[:40], b[:40]), fn=f, construct="verdict")
            else:
                r.bad("verdict", "an accepted pattern does not return immediately (a lower-index pattern could override it)", fn=f,
                      construct="verdict")
    with ctx.rule("C04.MERGE", "glob set returns ascending, de-duplicated indices (shared with C12.MERGE)", floor=1, kind="PASS") as r:
        f = facts.fn("globset::GlobSet::matches_candidate_into")
        so = [c for c in f.calls() if c.path.endswith("::sort") or c.path.endswith("::sort_unstable")]
        de = [c for c in f.calls() if c.path.endswith("::dedup")]
        mi = f.calls_to("globset::GlobSetMatchStrategy::matches_into")
        if mi and so and de and not C.all_paths_pass(f, [mi[0].bb], {so[0].bb}, f.return_blocks()):
            r.ok("sorted", "sort + dedup after the strategy loop", fn=f)
        else:
            r.bad("sorted", "indices are not sorted before gitignore picks the last one", fn=f, construct="sort")

    with ctx.rule("C04.LINE", "gitignore file/line parsing: BOM, undecodable lines, glob options, flags, implicit **/ prefix, skipped lines, pairing", floor=14,
                  kind="WIRE/GUARD") as r:
        f = facts.fn(GIB + "::add_line")
        eb = ExprBuilder(f)
        # trailing whitespace: "ignored unless quoted with a backslash". Which space is quoted can only be told from the text
        # in front of the cut — i.e. from what trimming left — not from the last two bytes of the raw line (`foo\  ` ends
        # in two spaces yet keeps one; `bar\\ ` ends in backslash-space yet keeps none)
        TRIM = ("str::trim_right", "str::trim_end", "core::str::<impl str>::trim_right", "core::str::<impl str>::trim_end")
        trims = [c for c in f.calls() if c.path.endswith(("::trim_right", "::trim_end", "::trim_end_matches", "::trim_right_matches"))]
        if not trims:
            r.bad("trailing-space", "anchor-missing: add_line no longer trims trailing whitespace", fn=f)
        else:
            def on_trimmed(e):
                return any(x.k == "call" and x[1].endswith(("::trim_right", "::trim_end", "::trim_end_matches", "::trim_right_matches"))
                           for x in walk(e))

            def is_bs(c):
                return c is not None and (c.get("val") == 92 or "\\" in str(c.get("str", "")))

            def about_backslash(e):
                for x in walk(e):
                    if x.k == "const" and ((x[1] == 92) or (x[2] and "\\" in str(x[2]))):
                        return True
                    if x.k == "closure" and x[1] in facts.fns:
                        g = facts.fns[x[1]]
                        for _, _, st in g.stmts():
                            if st["k"] == "assign" and any(is_bs(op_const(o)) for o in [st["rv"].get("a", {}), st["rv"].get("b", {})] if isinstance(o, dict)):
                                return True
                return False
            # flow-sensitive: the test runs after the trim (the φ of `line` alone would not tell)
            quoted = [sw_ for sw_ in cond_switches(f, lambda e: on_trimmed(e) and about_backslash(e) and
                                                   not any(x.k == "call" and x[1].endswith("::starts_with") and
                                                           any(y.k == "const" and y[2] and "\\" in str(y[2]) for y in walk(x)) for x in walk(e)), eb)
                      if any(C.dominates(f, t.bb, sw_[0]) and t.bb != sw_[0] for t in trims)]
            if quoted:
                r.ok("trailing-space", "the quoted-space test reads the text that trimming left", fn=f)
            else:
                r.bad("trailing-space", "add_line decides from the raw end of the line whether a trailing space is quoted: `foo\\  ` "
                      "(quoted space, then a plain one) loses both and is rejected as a dangling escape, `bar\\\\ ` (quoted backslash, "
                      "then a plain space) keeps the space; git ignores `foo ` and `bar\\` for them", fn=f, loc=trims[0].loc,
                      construct="trailing-space")
        # what is trimmed is the space character only: git keeps a trailing tab (form feed, NBSP …) as part of the pattern
        ws = [c for c in trims if c.path.endswith(("::trim_right", "::trim_end"))]
        sp = [c for c in trims if c.path.endswith(("::trim_end_matches", "::trim_right_matches")) and
              any(x.k == "const" and (x[1] == 32 or str(x[2]).strip() in ("' '", '" "')) for x in walk(eb.operand(c.args[1])))]
        if trims and not ws and len(sp) == len(trims):
            r.ok("trailing-space|spaces-only", "only ' ' is trimmed from the end of a line", fn=f)
        elif trims:
            r.bad("trailing-space|spaces-only", "add_line trims every kind of Unicode whitespace from the end of a line: `foo<TAB>` "
                  "ignores `foo`, where git ignores the file named `foo<TAB>` and not `foo`", fn=f, loc=(ws or trims)[0].loc,
                  construct="trailing-space")
        # the escape in front of a trailing slash: `a\\/` (quoted backslash, then the directory slash) must keep both
        # backslashes. Whether the last backslash quotes the slash is a matter of how many there are, so the decision
        # after `is_only_dir = true` has to count them; a look at the last byte alone is the defect
        od = [bb for bb, j, st in f.stmts() if st["k"] == "assign" and any(isinstance(q, dict) and q.get("f") == "is_only_dir" for q in st["place"]["p"])]
        if not od:
            r.bad("escaped-slash", "anchor-missing: add_line no longer records is_only_dir", fn=f)
        else:
            after = [sw_ for sw_ in cond_switches(f, lambda e: True, eb) if C.dominates(f, od[0], sw_[0]) and sw_[0] != od[0]]

            def bs_const(e):
                return any(x.k == "const" and ((x[1] == 92) or (x[2] and ("\\" in str(x[2]) or "92_u8" in str(x[2])))) for x in walk(e))
            single = [sw_ for sw_ in after if bs_const(sw_[3]) and any(is_call(x, "[T]::last", "core::slice::<impl [T]>::last") for x in walk(sw_[3]))]
            counted = [sw_ for sw_ in after if any(x.k == "bin" and x[1] == "Rem" for x in walk(sw_[3])) and
                       any(x.k == "closure" for x in walk(sw_[3]))]
            if single:
                r.bad("escaped-slash", "add_line removes a backslash in front of the trailing slash whenever the last byte is one: "
                      "for `a\\\\/` (a quoted backslash, then the slash) it leaves `a\\`, a dangling escape, and the directory "
                      "`a\\` that git ignores is searched", fn=f, construct="escaped-slash")
            elif counted:
                r.ok("escaped-slash", "escape removed only for an odd number of trailing backslashes", fn=f)
            else:
                r.ok("escaped-slash", "no escape removal in front of the trailing slash", fn=f, nontrivial=False)
        # nothing left after the `!` / `/` prefixes and the trailing `/` were stripped ⇒ the line is skipped. Otherwise the
        # empty glob gets its `**/` prefix and matches (or, for `!`, re-includes) every path below the ignore file.
        empties = cond_switches(f, lambda e: is_call(e, "str::is_empty"), eb)
        build = [c for c in f.calls() if c.path == GB + "::new"]
        stripped = [sw_ for sw_ in empties if any(is_call(x, "core::ops::index::Index::index", "core::str::traits::<impl core::ops::index::Index<I> for str>::index")
                                                   or (x.k == "call" and x[1].endswith("::index")) for x in walk(sw_[3]))]
        bang = [c for c in f.calls() if c.path.endswith("str::starts_with") and
                any(x.k == "const" and x[2] and str(x[2]).strip() == '"!"' for x in walk(eb.operand(c.args[1])))]
        # a test that lies after the `!` strip (reachable from it, not the other way round) and guards the glob construction
        ok_empty = [sw_ for sw_ in stripped if bang and build and
                    all(sw_[0] in C.reach(f, [b_.bb]) and b_.bb not in C.reach(f, [sw_[0]]) for b_ in bang) and
                    not guarded(f, [build[0].bb], [sw_], False)]
        if ok_empty:
            r.ok("empty-after-prefix", "pattern empty after stripping `!`, `/` and the trailing `/` ⇒ line skipped", fn=f)
        else:
            r.bad("empty-after-prefix", "add_line tests for an empty line only before the `!` / `/` prefixes are stripped: a line "
                  "consisting of `!` (or `/`) becomes the glob `**/` and re-includes (ignores) everything below the ignore file; "
                  "git gives such a line no effect", fn=f, construct="empty-pattern")
        # reading an ignore file: a leading UTF-8 byte order mark is not part of the first pattern, and one undecodable
        # line does not end the reading (git works on bytes; both cases made rules silently disappear)
        ad = facts.fn(GIB + "::add")
        eba = ExprBuilder(ad)
        al = ad.calls_to(GIB + "::add_line")
        bom = al and any(is_call(x, "str::trim_start_matches") for x in walk(eba.operand(al[0].args[2]))) and \
            any(x.k == "const" and (x[1] == 0xFEFF or "feff" in str(x[2]).lower()) for x in walk(eba.operand(al[0].args[2])))
        if bom:
            r.ok("file|bom", "the first line is handed to add_line without a leading U+FEFF", fn=ad)
        else:
            r.bad("file|bom", "GitignoreBuilder::add hands the first line to add_line with a byte order mark still on it: the first "
                  "pattern of such a file never matches (git skips the mark)", fn=ad, construct="bom")
        KIND_ = "std::io::error::Error::kind"
        inv = cond_switches(ad, lambda e: is_call(e, "core::cmp::PartialEq::eq") and mentions_call(e, KIND_) and
                            any(x.k == "const" and x[2] and "InvalidData" in str(x[2]) for x in walk(e)), eba)
        hdrs_a = {h for _, h in C.back_edges(ad)}
        cont = [sw_ for sw_ in inv if C.reach(ad, [sw_[1][1]], stop_blocks=hdrs_a) & hdrs_a and
                not [b_ for b_ in C.reach(ad, [sw_[1][1]], stop_blocks=hdrs_a) if ad.blocks[b_]["term"]["k"] == "return"]]
        if cont:
            r.ok("file|undecodable", "a line that is not valid UTF-8 is reported and the next line is read", fn=ad)
        else:
            r.bad("file|undecodable", "GitignoreBuilder::add stops reading at the first line that is not valid UTF-8: every later "
                  "pattern of the file is lost", fn=ad, construct="undecodable")
        for m, pred, desc in (("literal_separator", lambda e: W.const_val(e) == 1, "true"),
                              ("backslash_escape", lambda e: W.const_val(e) == 1, "true"),
                              ("case_insensitive", lambda e: W.field_of(e, GIB, "case_insensitive"), "self.case_insensitive")):
            cs = f.calls_to(GB + "::" + m)
            if len(cs) == 1 and pred(eb.operand(cs[0].args[1])):
                r.ok("opt|" + m, "GlobBuilder::%s(%s)" % (m, desc), fn=f)
            else:
                r.bad("opt|" + m, "gitignore globs are built with %s = %s, specified %s" % (
                    m, show(eb.operand(cs[0].args[1])) if cs else "(unset)", desc), fn=f, construct=m)
        gnew = f.calls_to(GB + "::new")
        if gnew and mentions_field(eb.operand(gnew[0].args[0]), GLOB, "actual"):
            r.ok("opt|source", "the compiled glob is glob.actual (after rewriting)", fn=f)
        else:
            r.bad("opt|source", "the compiled glob text is not glob.actual", fn=f)

        def str_test(fn_name, lit):
            return lambda e: is_call(e, "str::" + fn_name) and any(x.k == "const" and x[2] == '"%s"' % lit for x in walk(e))

        def last_byte_test(byte):
            return lambda e: is_call(e, "core::cmp::PartialEq::eq") and mentions_call(e, "[T]::last") and \
                any(x.k == "const" and x[2] and ("%d_u8" % byte) in str(x[2]) for x in walk(e))

        def writes(field):
            return [bb for bb, j, st in f.stmts() if st["k"] == "assign" and (GLOB, field) in fields_of_place(st["place"])
                    and (op_const(st["rv"].get("a", {})) or {}).get("val") == 1]
        w = writes("is_whitelist")
        sw = cond_switches(f, str_test("starts_with", "!"), eb)
        if w and sw and not guarded(f, w, sw, True):
            r.ok("flag|whitelist", "is_whitelist = true only after a leading `!`", fn=f)
        else:
            r.bad("flag|whitelist", "the whitelist flag is set without a leading `!` (or never)", fn=f, construct="whitelist")
        # an escaped \! must not set it
        esc = cond_switches(f, str_test("starts_with", "\\\\!"), eb)
        if w and esc and not guarded(f, w, esc, False):
            r.ok("flag|escaped", "an escaped `\\!` does not negate", fn=f)
        else:
            r.bad("flag|escaped", "a line starting with `\\!` can be treated as a negation", fn=f, construct="escape")
        w = writes("is_only_dir")
        sw = cond_switches(f, last_byte_test(47), eb)
        if w and sw and not guarded(f, w, sw, True):
            r.ok("flag|only_dir", "is_only_dir = true only for a trailing `/`", fn=f)
        else:
            r.bad("flag|only_dir", "the directory-only flag is set without a trailing `/` (or never)", fn=f, construct="only_dir")
        # implicit **/ prefix
        any_slash = cond_switches(f, lambda e: is_call(e, "core::iter::traits::iterator::Iterator::any") and mentions_call(e, "str::chars"), eb)
        abs_sw = cond_switches(f, lambda e: e.k in ("phi", "local") and f.local_ty(e[1]) == "bool" and
                               any(y.k == "const" for y in (e[2] if e.k == "phi" else [])) and
                               any(is_call(y, "core::cmp::PartialEq::eq") for y in (e[2] if e.k == "phi" else [])), eb)
        dbl = cond_switches(f, lambda e: is_call(e, GLOB + "::has_doublestar_prefix"), eb)
        # the rewriting site: the write of glob.actual that sits on the !has_doublestar_prefix edge
        wa = [bb for bb, j, st in f.stmts() if st["k"] == "assign" and (GLOB, "actual") in fields_of_place(st["place"])]
        pre = [bb for bb in wa if dbl and not guarded(f, [bb], dbl, False)]
        if not pre:
            r.bad("prefix", "anchor-missing: no `**/` rewriting guarded by !has_doublestar_prefix in add_line", fn=f)
        elif any_slash and abs_sw and not guarded(f, pre, any_slash, False) and not guarded(f, pre, abs_sw, False):
            r.ok("prefix", "`**/` prepended only when not anchored ∧ no `/` in the line ∧ no `**/` already", fn=f)
        else:
            r.bad("prefix", "the implicit `**/` prefix is added to an anchored pattern or one containing `/`", fn=f, construct="prefix")
        # the helper deciding "already starts with a `**/` component": `**/x` or exactly `**`, nothing looser
        hd = facts.fn(GLOB + "::has_doublestar_prefix")
        tail = H.tail_expr(hd.hir)
        atoms_ = ['self.actual.starts_with("**/")', '(self.actual Eq "**")']
        ok, detail = H.equivalent(tail, atoms_, lambda v: v[atoms_[0]] or v[atoms_[1]])
        if ok:
            r.ok("prefix|helper", 'has_doublestar_prefix ≡ starts_with("**/") ∨ == "**"', fn=hd)
        else:
            r.bad("prefix|helper", "has_doublestar_prefix is no longer `starts_with(\"**/\") || == \"**\"` (%s): a slash-free "
                  "pattern such as `**.tmp` would lose its implicit `**/` prefix and stop matching below the ignore file's "
                  "directory" % detail, fn=hd, construct="prefix")
        # comments / empty lines
        add = f.calls_to("globset::GlobSetBuilder::add")
        push = [c for c in f.calls_to("alloc::vec::Vec::push") if mentions_field(eb.operand(c.args[0]), GIB, "globs")]
        for label, pred in (("comment", str_test("starts_with", "#")), ("empty", lambda e: is_call(e, "str::is_empty"))):
            sw = cond_switches(f, pred, eb)
            if not sw:
                r.bad("skip|" + label, "%s lines are no longer skipped" % label, fn=f, construct=label)
                continue
            s = Sccp(f).run([(sw[0][1][1], {})])
            reg = [c for c in add + push if c.bb in s.exec_blocks]
            vals = {x for v in s.ret_values.values() for x in value_set(v)}
            if not reg and vals and all(v is not None and v[1] == "Ok" for v in vals):
                r.ok("skip|" + label, "%s line ⇒ Ok(self), nothing registered" % label, fn=f)
            else:
                r.bad("skip|" + label, "a %s line registers a glob" % label, fn=f, construct=label)
        # pairing
        if len(add) == 1 and len(push) == 1 and C.dominates(f, add[0].bb, push[0].bb) and \
                not C.all_paths_pass(f, [add[0].bb], {push[0].bb}, f.return_blocks()):
            r.ok("pairing", "builder.add and globs.push on the same paths (set index == glob list index)", fn=f)
        else:
            r.bad("pairing", "a glob can be added to the set without its record (or vice versa): indices would shift", fn=f,
                  construct="pairing")
        # a glob error is propagated, not dropped
        bld = f.calls_to(GB + "::build")
        if bld:
            v, d = classify_result(f, bld[0])
            if v in ("try", "returned"):
                r.ok("error", "an invalid glob is reported", fn=f)
            else:
                r.bad("error", "an invalid glob line is %s" % v, fn=f, construct="error")

    with ctx.rule("C04.NEAREST", "a deeper ignore file overrides a shallower one (shared with C05.NEAREST)", floor=9, kind="GUARD") as r:
        c05.nearest_rule(ctx, r)
    with ctx.rule("C04.PRUNE", "nothing beneath an ignored directory is visited (shared with C06.PRUNE / C06.SKIP)", floor=4, kind="PASS/A3") as r:
        c06.prune_rule(ctx, r)
        par = facts.fn(c06.W + "::Worker::generate_work")
        pc = c06.pred_calls(par, c06.W + "::Worker")
        for i, (c, val) in enumerate(pc["ignore"]):
            s = seed_after_call(par, c, val)
            sent = [b for b in s.exec_blocks if par.blocks[b]["term"]["k"] == "call" and
                    par.blocks[b]["term"]["func"]["path"] == c06.W + "::Worker::send"]
            if sent:
                r.bad("parallel|%d" % i, "an ignored entry is still queued by the parallel walker", fn=par, loc=c.loc)
            else:
                r.ok("parallel|%d" % i, "ignored ⇒ not queued (so never descended)", fn=par)
        sse = facts.fn(c06.W + "::should_skip_entry")
        tail_calls = sse.calls_to("ignore::dir::Ignore::matched_dir_entry")
        if tail_calls:
            # value table over the verdict (None / Ignore / Whitelist; Match's methods evaluated in place): is_ignore() chains and
            # a match on the enum read the same
            from ..flow import table, ret_set
            wrong = []
            for row, sx in table(facts, sse, calls={"dir::Ignore::matched_dir_entry": [V("None", None), V("Ignore", None), V("Whitelist", None)]},
                                 callees=lambda p_: p_.startswith("ignore::Match::")):
                v_ = row[("call", "dir::Ignore::matched_dir_entry")][1]
                if ret_set(sx) != {I(1 if v_ == "Ignore" else 0)}:
                    wrong.append("%s ⇒ %s" % (v_, sorted(map(str, ret_set(sx)))))
            if wrong:
                r.bad("should_skip_entry", "should_skip_entry is not `is_ignore()` of the directory-entry verdict (%s)" % "; ".join(wrong), fn=sse)
            else:
                r.ok("should_skip_entry", "skip ⇔ matched_dir_entry(..).is_ignore()", fn=sse)
        else:
            r.bad("should_skip_entry", "anchor-missing: should_skip_entry shape", fn=sse)

    with ctx.rule("C04.ANYPARENT", "matched_path_or_any_parents never asks whether the root itself (the empty path) is an ignored "
                  "directory", floor=1, kind="GUARD") as r:
        f = facts.fn(GI + "::matched_path_or_any_parents")
        eb = ExprBuilder(f)
        ms = [c for c in f.calls_to(GI + "::matched_stripped") if W.const_val(eb.operand(c.args[2])) == 1]
        emp = cond_switches(f, lambda e: e.k == "call" and e[1].endswith("::is_empty") and
                            any(is_call(x, "std::path::Path::parent") for x in walk(e)), eb)
        if not ms:
            r.bad("root", "anchor-missing: the walk up the parents in matched_path_or_any_parents", fn=f)
        elif emp and not guarded(f, [c.bb for c in ms], emp, False):
            r.ok("root", "the parent of a single component (\"\") ends the walk before it is matched", fn=f)
        else:
            r.bad("root", "matched_path_or_any_parents matches the empty path — the parent of a top-level name, i.e. the directory the "
                  "ignore file lives in — as a directory: with a rule like `*/` (or `**/`) every top-level file comes back as "
                  "ignored, although matched() and git say it is not", fn=f, loc=ms[0].loc, construct="any-parents")
    with ctx.rule("C04.STRIP", "paths are made relative to the ignore file's directory before matching", floor=2, kind="FLOW") as r:
        f = facts.fn(GI + "::matched")
        eb = ExprBuilder(f)
        ms = f.calls_to(GI + "::matched_stripped")
        if ms and mentions_call(eb.operand(ms[0].args[1]), GI + "::strip"):
            r.ok("matched", "matched → matched_stripped(strip(path))", fn=f)
        else:
            r.bad("matched", "Gitignore::matched no longer strips the ignore file's directory from the path", fn=f, construct="strip")
        g = facts.fn(GI + "::strip")
        ebg = ExprBuilder(g)
        sp = [c for c in g.calls() if c.path.endswith("strip_prefix")]
        roots = [c for c in sp if mentions_call(ebg.operand(c.args[0]), GI + "::path") or mentions_field(ebg.operand(c.args[0]), GI, "root")]
        if roots:
            r.ok("strip|root", "strip removes the gitignore's root prefix", fn=g)
        else:
            r.bad("strip|root", "Gitignore::strip no longer removes the ignore file's directory prefix", fn=g, construct="strip")
        # whenever the root IS a prefix of the candidate, the candidate is replaced by the remainder: what is left of it may or
        # may not begin with a slash (the root of the top-level matcher is spelled as the user typed it, `sub/` included)
        for c in roots[:1]:
            # by value: the root strip answers Some(REST); stripping a slash off REST answers None or Some(REST'); whatever is
            # returned from there on is REST or REST' — not the candidate as it came in (a mutable `path` reassigned step by
            # step, shadowing, early returns or unwrap_or spell the same)
            REST, REST2, OTHER = I(777), I(778), I(900)
            root_keys = {(x.bb, x.loc) for x in roots}

            def model(call, argv):
                if call.path.endswith("strip_prefix") and (call.bb, call.loc) not in root_keys:
                    cand = argv[1] if len(argv) > 1 else None
                    return ("s", frozenset([V("None", None), V("Some", REST2 if cand == REST else OTHER)]))
                return None
            from ..flow import combinator_model as _cm, value_set as _vs
            sx = seed_after_call(g, c, V("Some", REST), call_model=_cm(facts, model))
            rv = set()
            for v_ in sx.ret_values.values():
                rv |= set(_vs(v_))
            if not rv:
                r.bad("strip|applied", "anchor-missing: candidate operand of the root strip_prefix", fn=g)
            elif rv <= {REST, REST2}:
                r.ok("strip|applied", "root is a prefix ⇒ the candidate is replaced by the remainder (a leading slash is optional)", fn=g)
            else:
                r.bad("strip|applied", "Gitignore::strip can return the candidate unstripped although the ignore file's directory is a "
                      "prefix of it: a root spelled with a trailing slash (`rg pat sub/`) leaves no slash to find, and every anchored "
                      "pattern of that directory's ignore file stops matching", fn=g, loc=c.loc, construct="strip")
