"""C17 — transcoded input is searched as its UTF-8 equivalent (routing and configuration)."""
import itertools
from .. import cfg as C
from .. import hirx as H
from ..flow import ExprBuilder, mentions_field, mentions_call, is_call, is_field, walk, show, cond_switches, \
    guarded, seed_after_call, Sccp, I, V, X, strip, value_set
from ..graph import field_rw
from ..facts import op_const, op_place, fields_of_place
from .. import wire as W

TITLE = "transcoding routing"
EXPLANATION = (
    "Decided on the MIR/HIR of grep_searcher::searcher and rg: (PATHS) every strategy constructor reachable from the "
    "public search entry points is fed bytes that derive from a DecodeReaderBytesBuilder::build_with_buffer result "
    "(reader strategy and both multi-line fill routines) or sits on the false edge of slice_needs_transcoding for the "
    "same slice, whose true edge detours through search_reader; (NEEDS) slice_needs_transcoding ≡ encoding.is_some() ∨ "
    "(bom_sniffing ∧ slice_has_bom) and slice_has_bom accepts exactly UTF-16LE, UTF-16BE, UTF-8; (CONFIG) the decoder "
    "is built with encoding = config encoding, utf8_passthru(true), strip_bom(bom_sniffing), bom_override(true), "
    "bom_sniffing(bom_sniffing); (CLI) --encoding auto/label/none wiring and setters. encoding_rs's transcoding itself "
    "and fragmentation across the 8 KiB buffer are not decided. The decoded stream is read to its end: no Read::take bound may cut it.")
NOT_DECIDED = ["encoding_rs / encoding_rs_io transcoding itself", "fragmentation across the 8 KiB transcoding buffer"]

S = "grep_searcher::searcher::Searcher"
SB = "grep_searcher::searcher::SearcherBuilder"
SCFG = "grep_searcher::searcher::Config"
GLUE = "grep_searcher::searcher::glue"
DEC = "encoding_rs_io::DecodeReaderBytesBuilder"
BWB = DEC + "::build_with_buffer"
HI = "rg::flags::hiargs::HiArgs"


def unbounded_rule(ctx, r):
    """The multi-line buffer is filled with the whole decoded input: nothing derived from the encoded size cuts it."""
    facts = ctx.facts
    h = facts.fn(S + "::fill_multi_line_buffer_from_file")
    # the buffer lives in the Searcher and is reused for the next input: every fill starts by emptying it
    for fn_ in (h, facts.fn(S + "::fill_multi_line_buffer_from_reader")):
        ebc = ExprBuilder(fn_)
        clears = [c for c in fn_.calls() if c.path.endswith("Vec::clear") and mentions_field(ebc.operand(c.args[0]), S, "multi_line_buffer")]
        reads_ = [c for c in fn_.calls() if c.path in ("std::io::Read::read", "std::io::Read::read_to_end")]
        if reads_ and clears and all(any(C.dominates(fn_, cl.bb, rd.bb) for cl in clears) for rd in reads_):
            r.ok("%s|clear" % fn_.name, "multi_line_buffer.clear() dominates every read into it", fn=fn_)
        elif reads_:
            r.bad("%s|clear" % fn_.name, "%s reads into the searcher's multi-line buffer without emptying it first: the previous "
                  "input's bytes stay in front of this one and are searched again" % fn_.name, fn=fn_, construct="clear")
    # the decoded stream is read to its end: no byte bound derived from the *encoded* size may cut it
    for fn_ in (h, facts.fn(S + "::fill_multi_line_buffer_from_reader")):
        bounded = [c for c in fn_.calls() if c.path in ("std::io::Read::take",) or c.path.endswith("::Take::new")]
        if bounded:
            r.bad("%s|unbounded" % fn_.name, "%s bounds the transcoded stream with Read::take at %s: the decoded text is longer or "
                  "shorter than the encoded file, so a size taken from the file cuts it" % (fn_.name, bounded[0].loc), fn=fn_,
                  loc=bounded[0].loc, construct="take")
        else:
            # the file's size may only be a capacity hint (Vec::reserve): it may neither size/cut the buffer nor end the loop
            ebf = ExprBuilder(fn_)
            ML = "std::fs::File::metadata"
            sized = [c for c in fn_.calls() if c.path.split("::")[-1] in ("resize", "truncate", "set_len", "resize_with", "split_off")
                     and any(mentions_call(ebf.operand(a), ML) for a in c.args[1:])]
            reads = [c for c in fn_.calls() if c.path == "std::io::Read::read"]
            loopsw = []
            for bb_, te_, fe_, e_ in cond_switches(fn_, lambda e: mentions_call(e, ML), ebf):
                if any(bb_ in C.reach(fn_, [rd.target]) and rd.bb in C.reach(fn_, [bb_]) for rd in reads if rd.target is not None):
                    loopsw.append(bb_)
            if sized or loopsw:
                r.bad("%s|unbounded" % fn_.name, "%s lets the on-disk size of the file %s: through the transcoder the decoded text can be "
                      "longer than the file, and its tail is then never searched" % (
                          fn_.name, "size or cut the buffer" if sized else "end the read loop"), fn=fn_,
                      loc=(sized[0].loc if sized else None), construct="file-size-bound")
            else:
                r.ok("%s|unbounded" % fn_.name, "the decoded stream is read until EOF (no Read::take bound, the file size is only a "
                     "capacity hint)", fn=fn_)


def run(ctx):
    facts = ctx.facts
    with ctx.rule("C17.PATHS", "every strategy is fed decoded bytes or sits behind the needs-no-transcoding guard", floor=8,
                  kind="PASS/FLOW") as r:
        # search_reader
        f = facts.fn(S + "::search_reader")
        eb = ExprBuilder(f)
        rbl = f.calls_to(GLUE + "::ReadByLine::new")
        if len(rbl) == 1 and mentions_call(eb.operand(rbl[0].args[2]), BWB) and \
                mentions_call(eb.operand(rbl[0].args[2]), "grep_searcher::line_buffer::LineBufferReader::new"):
            r.ok("search_reader|ReadByLine", "reader strategy reads through the decoder", fn=f)
        else:
            r.bad("search_reader|ReadByLine", "ReadByLine is built on a reader that does not pass through the transcoder",
                  fn=f, construct="ReadByLine")
        lbr = f.calls_to("grep_searcher::line_buffer::LineBufferReader::new")
        if lbr and mentions_call(eb.operand(lbr[0].args[0]), BWB) and \
                any(x.k == "arg" and x[2] == "read_from" for x in walk(eb.operand(lbr[0].args[0]))):
            r.ok("search_reader|decoder-src", "the decoder wraps the caller's reader", fn=f)
        else:
            r.bad("search_reader|decoder-src", "the decoder does not wrap the caller's reader", fn=f)
        fm = f.calls_to(S + "::fill_multi_line_buffer_from_reader")
        ml = f.calls_to(GLUE + "::MultiLine::new")
        if fm and ml and mentions_call(eb.operand(fm[0].args[1]), BWB) and C.dominates(f, fm[0].bb, ml[0].bb) and \
                mentions_field(eb.operand(ml[0].args[2]), S, "multi_line_buffer"):
            r.ok("search_reader|MultiLine", "multi-line buffer filled from the decoder, then searched", fn=f)
        else:
            r.bad("search_reader|MultiLine", "search_reader's multi-line path does not search the decoded buffer", fn=f,
                  construct="MultiLine")
        # the decoder uses self.decode_builder
        bw = f.calls_to(BWB)
        if bw and mentions_field(eb.operand(bw[0].args[0]), S, "decode_builder"):
            r.ok("search_reader|builder", "decoder built from self.decode_builder", fn=f)
        else:
            r.bad("search_reader|builder", "search_reader does not use the configured decode_builder", fn=f)
        # search_file_maybe_path
        g = facts.fn(S + "::search_file_maybe_path")
        ebg = ExprBuilder(g)
        ff = g.calls_to(S + "::fill_multi_line_buffer_from_file")
        ml = g.calls_to(GLUE + "::MultiLine::new")
        if ff and ml and C.dominates(g, ff[0].bb, ml[0].bb) and mentions_field(ebg.operand(ml[0].args[2]), S, "multi_line_buffer"):
            r.ok("search_file|MultiLine", "file multi-line path fills through fill_multi_line_buffer_from_file", fn=g)
        else:
            r.bad("search_file|MultiLine", "the file multi-line path searches a buffer not filled by the transcoding fill", fn=g,
                  construct="MultiLine")
        h = facts.fn(S + "::fill_multi_line_buffer_from_file")
        ebh = ExprBuilder(h)
        rte = h.calls_to("std::io::Read::read_to_end")
        fr = h.calls_to(S + "::fill_multi_line_buffer_from_reader")
        # every way the file's bytes are read — read_to_end, the reader-filling routine, a read loop of a shared helper — reads
        # through the decoder
        rd = [c for c in h.calls() if c.path in ("std::io::Read::read_to_end", "std::io::Read::read")]
        ok1 = all(mentions_call(ebh.operand(c.args[0]), BWB) for c in rd)
        ok2 = all(mentions_call(ebh.operand(c.args[1]), BWB) for c in fr)
        if (rd or fr) and ok1 and ok2:
            r.ok("fill_from_file|decoder", "both read paths of fill_multi_line_buffer_from_file go through the decoder", fn=h)
        else:
            r.bad("fill_from_file|decoder", "fill_multi_line_buffer_from_file reads the raw file (bypassing the transcoder)", fn=h,
                  construct="decoder")
        unbounded_rule(ctx, r)
        raw = [c for c in h.calls() if c.path in ("std::io::Read::read_to_end", "std::io::Read::read") and
               not mentions_call(ebh.operand(c.args[0]), BWB)]
        if raw:
            r.bad("fill_from_file|raw", "a raw read of the file at %s bypasses the transcoder" % raw[0].loc, fn=h, loc=raw[0].loc)
        # mmap path goes through search_slice
        mm = g.calls_to("grep_searcher::searcher::mmap::MmapChoice::open")
        ss = g.calls_to(S + "::search_slice")
        direct = [c for c in g.calls() if c.path in (GLUE + "::SliceByLine::new",)]
        if mm and ss and not direct:
            r.ok("search_file|mmap", "memory maps are searched via search_slice (which applies the transcoding guard)", fn=g)
        else:
            r.bad("search_file|mmap", "a memory map is searched without the transcoding guard of search_slice", fn=g)
        # search_slice
        k = facts.fn(S + "::search_slice")
        ebk = ExprBuilder(k)
        asked = k.calls_to(S + "::slice_needs_transcoding")
        cons = [c for c in k.calls() if c.path in (GLUE + "::SliceByLine::new", GLUE + "::MultiLine::new")]
        sr = k.calls_to(S + "::search_reader")
        if not asked or len(cons) != 2 or not sr:
            r.bad("search_slice|shape", "anchor-missing: search_slice (guard %d, constructors %d, detour %d)" % (len(asked), len(cons), len(sr)), fn=k)
        else:
            from ..flow import table
            execd = {}
            for row, sx in table(facts, k, calls={"Searcher::slice_needs_transcoding": [I(0), I(1)]}):
                execd[row[("call", "Searcher::slice_needs_transcoding")][1]] = sx.exec_blocks
            same = all(any(x.k == "arg" and x[2] == "slice" for x in walk(ebk.operand(c.args[1]))) for c in asked)
            if any(c.bb in execd[1] for c in cons) or not same:
                r.bad("search_slice|guard", "a slice strategy is reachable without slice_needs_transcoding(slice) == false", fn=k,
                      construct="guard")
            else:
                r.ok("search_slice|guard", "both slice strategies only when slice_needs_transcoding(slice) is false", fn=k)
            if not any(c.bb in execd[1] for c in sr) or any(c.bb in execd[0] for c in sr) or \
                    not any(x.k == "arg" and x[2] == "slice" for x in walk(ebk.operand(sr[0].args[2]))):
                r.bad("search_slice|detour", "the needs-transcoding edge does not detour the same slice through search_reader", fn=k)
            else:
                r.ok("search_slice|detour", "needs transcoding ⇒ search_reader(slice), and no slice strategy", fn=k)
        for name in ("search_path", "search_file"):
            p = facts.fn(S + "::" + name)
            if p.calls_to(S + "::search_file_maybe_path") and not [c for c in p.calls() if c.path.startswith(GLUE)]:
                r.ok(name, "%s delegates to search_file_maybe_path" % name, fn=p, nontrivial=False)
            else:
                r.bad(name, "%s no longer delegates to search_file_maybe_path" % name, fn=p)

    with ctx.rule("C17.NEEDS", "slice_needs_transcoding truth table; BOM set = {UTF-16LE, UTF-16BE, UTF-8}", floor=2,
                  exhaustive=True, kind="TRUTH/TABLE") as r:
        needs_rule(ctx, r)
    with ctx.rule("C17.CONFIG", "decoder configuration table", floor=5, kind="WIRE") as r:
        f = facts.fn(SB + "::build")
        eb = ExprBuilder(f)
        calls = {c.path[len(DEC) + 2:]: c for c in f.calls() if c.path.startswith(DEC + "::")}
        spec = {
            "utf8_passthru": lambda e: W.const_val(e) == 1,
            "bom_override": lambda e: W.const_val(e) == 1,
            "strip_bom": lambda e: W.field_of(e, SCFG, "bom_sniffing"),
            "bom_sniffing": lambda e: W.field_of(e, SCFG, "bom_sniffing"),
            "encoding": lambda e: mentions_field(e, SCFG, "encoding"),
        }
        desc = {"utf8_passthru": "true", "bom_override": "true (a mark overrides a label)", "strip_bom": "config.bom_sniffing",
                "bom_sniffing": "config.bom_sniffing", "encoding": "config.encoding"}
        for m, pred in spec.items():
            c = calls.get(m)
            if c is not None and pred(eb.operand(c.args[1])):
                r.ok(m, "%s(%s)" % (m, desc[m]), fn=f)
            else:
                r.bad(m, "decoder option %s is %s, specified %s" % (
                    m, "not set" if c is None else "`%s`" % show(eb.operand(c.args[1]))[:60], desc[m]), fn=f, construct=m)
        # the configured builder is what the Searcher stores
        agg = [st for bb, j, st in f.stmts() if st["k"] == "assign" and st["rv"]["k"] == "agg" and st["rv"].get("adt") == S]
        if agg:
            rv = agg[0]["rv"]
            e = eb.operand(rv["ops"][rv["fields"].index("decode_builder")])
            if mentions_call(e, DEC + "::new") or e.k in ("phi", "local"):
                r.ok("stored", "Searcher.decode_builder = the configured builder", fn=f, nontrivial=False)
            else:
                r.bad("stored", "Searcher.decode_builder is `%s`" % show(e)[:60], fn=f)

    with ctx.rule("C17.CLI", "--encoding auto / label / none wiring", floor=5, kind="ARMS/WIRE") as r:
        f = facts.fn(HI + "::searcher")
        eb = ExprBuilder(f)
        enc = f.calls_to(SB + "::encoding")
        bs = f.calls_to(SB + "::bom_sniffing")
        # value table: self.encoding ∈ {Auto, Some(label), Disabled}; the outcome is which of the two builder calls run and with
        # what. A match, an if-let chain or a helper read the same.
        from ..flow import Sccp as _Sccp, combinator_model as _cm
        res = {}
        for mode in ("Auto", "Some", "Disabled"):
            seen = {"encoding": [], "bom_sniffing": []}

            def fm(owner, name, mode=mode):
                if owner == HI and name == "encoding":
                    return V(mode, ("i", 77) if mode == "Some" else None)
                return None

            def inner(call, argv, seen=seen):
                if call.path == SB + "::encoding":
                    seen["encoding"].append(argv[1] if len(argv) > 1 else None)
                if call.path == SB + "::bom_sniffing":
                    seen["bom_sniffing"].append(argv[1] if len(argv) > 1 else None)
                if call.path.endswith("Clone::clone") and argv and argv[0] is not None:
                    return argv[0]
                return None
            _Sccp(f, call_model=_cm(facts, inner, field_model=fm), field_model=fm).run([(0, {})])
            res[mode] = seen
        # what the searcher ends up with: the last value handed to the setter, or Config::default()'s when it is not called
        d_enc, d_bom = W.struct_default(facts, SCFG, "encoding"), W.struct_default(facts, SCFG, "bom_sniffing")

        def eff(mode, what):
            vals = res[mode][what]
            return vals[-1] if vals else (d_enc if what == "encoding" else d_bom)

        def is_none(v):
            return v is not None and v[0] == "v" and v[1] == "None"

        def is_some(v):
            return v is not None and v[0] == "v" and v[1] == "Some"
        if d_enc is None or d_bom is None:
            r.bad("auto", "anchor-missing: the defaults of searcher::Config (encoding, bom_sniffing) are not constants", fn=f)
        if is_some(eff("Some", "encoding")) and is_none(eff("Auto", "encoding")) and is_none(eff("Disabled", "encoding")):
            r.ok("label", "EncodingMode::Some(enc) ⇒ encoding(Some(enc)), and only then", fn=f)
        elif res["Some"]["encoding"] and is_none(eff("Auto", "encoding")) and is_none(eff("Disabled", "encoding")):
            r.bad("label", "an explicit --encoding label is passed as `%s`" % (res["Some"]["encoding"],), fn=f, construct="label")
        else:
            r.bad("label", "SearcherBuilder::encoding is not called exactly under EncodingMode::Some", fn=f, construct="label")
        if eff("Disabled", "bom_sniffing") == I(0) and eff("Auto", "bom_sniffing") == I(1) and eff("Some", "bom_sniffing") == I(1):
            r.ok("none", "EncodingMode::Disabled ⇒ bom_sniffing(false), and only then", fn=f)
        else:
            r.bad("none", "--encoding none does not disable BOM sniffing (exactly under EncodingMode::Disabled)", fn=f, construct="none")
        if not (is_none(eff("Auto", "encoding")) and eff("Auto", "bom_sniffing") == I(1)):
            r.bad("auto", "EncodingMode::Auto changes the searcher's encoding settings", fn=f)
        elif not (enc and bs):
            r.bad("auto", "anchor-missing: SearcherBuilder::encoding / bom_sniffing calls in HiArgs::searcher", fn=f)
        else:
            r.ok("auto", "EncodingMode::Auto ⇒ searcher defaults (BOM sniffing on, no label)", fn=f)
        for m, fld in (("encoding", "encoding"), ("bom_sniffing", "bom_sniffing")):
            g = facts.fn(SB + "::" + m)
            _, w, _ = field_rw(g)
            ebg = ExprBuilder(g)
            val_ok = all(ebg.rvalue(st["rv"]).k == "arg" for bb, j, st in g.stmts()
                         if st["k"] == "assign" and (SCFG, fld) in fields_of_place(st["place"]))
            if {fl for o, fl in w if o == SCFG} == {fld} and val_ok:
                r.ok("setter|" + m, "SearcherBuilder::%s writes config.%s" % (m, fld), fn=g)
            else:
                r.bad("setter|" + m, "SearcherBuilder::%s does not store its argument in config.%s" % (m, fld), fn=g, construct=m)
        d = facts.fn("<%s as core::default::Default>::default" % SCFG)
        ebd = ExprBuilder(d)
        agg = [st for bb, j, st in d.stmts() if st["k"] == "assign" and st["rv"]["k"] == "agg" and st["rv"].get("adt") == SCFG]
        if agg:
            rv = agg[0]["rv"]
            bsv = W.const_val(ebd.operand(rv["ops"][rv["fields"].index("bom_sniffing")]))
            ev = ebd.operand(rv["ops"][rv["fields"].index("encoding")])
            if bsv == 1 and W.is_none_agg(ev):
                r.ok("defaults", "default: bom_sniffing = true, encoding = None", fn=d)
            else:
                r.bad("defaults", "searcher defaults changed: bom_sniffing=%s encoding=%s" % (bsv, show(ev)), fn=d, construct="defaults")
        else:
            r.bad("defaults", "anchor-missing: Config::default literal", fn=d)


def needs_rule(ctx, r):
    facts = ctx.facts
    f = facts.fn(S + "::slice_needs_transcoding")
    from ..flow import table, ret_set
    CFGADT = "grep_searcher::searcher::Config"
    wrong = []
    for row, sx in table(facts, f, fields={(CFGADT, "encoding"): [V("None", None), V("Some", None)], (CFGADT, "bom_sniffing"): [I(0), I(1)]},
                         calls={"searcher::slice_has_bom": [I(0), I(1)]}):
        enc = row[("field", (CFGADT, "encoding"))][1] == "Some"
        sniff, bom = row[("field", (CFGADT, "bom_sniffing"))][1], row[("call", "searcher::slice_has_bom")][1]
        want = I(int(enc or (sniff and bom)))
        if ret_set(sx) != {want}:
            wrong.append("encoding=%s bom_sniffing=%d has_bom=%d ⇒ %s" % ("Some" if enc else "None", sniff, bom, sorted(map(str, ret_set(sx)))))
    if not wrong:
        r.ok("truth", "≡ encoding.is_some() ∨ (bom_sniffing ∧ slice_has_bom(slice)) (8 rows)", fn=f)
    else:
        r.bad("truth", "slice_needs_transcoding: %s" % "; ".join(wrong)[:200], fn=f, construct="needs")
    g = facts.fn("grep_searcher::searcher::slice_has_bom")
    arrs = [x for u in facts.with_closures(g.path) for x in H.find(u.hir, lambda x: x.get("k") == "array" and "exp" not in x and
                                                                   all(H.strip(y).get("k") == "path" for y in x.get("xs", [])))]
    names = set()
    for a in arrs:
        for x in a["xs"]:
            names.add(H.canon(x).split("::")[-1])
    # ... or compared one by one (`enc == UTF_16LE || enc == UTF_16BE || enc == UTF_8`): the encodings named in the function
    if not names:
        import re as _re, json as _json
        for u in facts.with_closures(g.path):
            names |= set(_re.findall(r"encoding_rs::(UTF_[0-9A-Z_]+?)(?:_INIT)?\b", _json.dumps(u.mir)))
    fb = [c for u in facts.with_closures(g.path) for c in u.calls_to("encoding_rs::Encoding::for_bom")]
    if names == {"UTF_16LE", "UTF_16BE", "UTF_8"} and fb:
        r.ok("bom-set", "BOM encodings = %s via Encoding::for_bom" % sorted(names), fn=g)
    else:
        r.bad("bom-set", "slice_has_bom accepts %s" % sorted(names), fn=g, construct="bom-set")

