"""C02 — results do not depend on how the bytes reach the searcher (structural half)."""
from .. import cfg as C
from ..flow import ExprBuilder, mentions_field, mentions_call, is_call, is_field, walk, show, cond_switches, \
    guarded, seed_after_call, Sccp, I, V, X, strip, value_set
from ..graph import field_rw, field_rw_deep, classify_result
from ..facts import op_const, op_place, fields_of_place
from . import c13

TITLE = "strategy independence (structure)"
EXPLANATION = (
    "Structural necessary conditions of C02 on the MIR of grep-searcher: (GATE) the three entry points choose the "
    "strategy by the same predicate and every strategy `run` site in Searcher is enumerated; (ROLL) Core::roll "
    "rebases every buffer-relative cursor, counts lines before resetting the counted mark, and the amount it returns "
    "(derived from max(context start, last visited line) when context is on) is exactly what ReadByLine::fill "
    "consumes; (REFILL) LineBuffer::fill rolls before reading, ensures capacity before every read (a read into an "
    "empty window would be mistaken for EOF), marks everything as complete lines at EOF, and a new reader clears "
    "state; (NOPROGRESS) the forced quit is guarded by 'nothing consumed and nothing read'. All arithmetic of "
    "rolling/growing and every fragmentation history are runtime quantities and are not decided. (INPUT) the CLI hands standard input to the incremental reader and files to Searcher::search_path in every printer arm.")
NOT_DECIDED = ["all arithmetic of rolling / growing / line counting", "mmap equivalence", "every read fragmentation history"]

CORE = "grep_searcher::searcher::core::Core"
GLUE = "grep_searcher::searcher::glue"
SEARCHER = "grep_searcher::searcher::Searcher"
LB = "grep_searcher::line_buffer::LineBuffer"
LBR = "grep_searcher::line_buffer::LineBufferReader"
SCFG = "grep_searcher::searcher::Config"



def clear_rule(ctx, r):
    """A reused line buffer starts every search from zero (shared by C02.REFILL and C03.CLEAR)."""
    facts = ctx.facts
    LB = "grep_searcher::line_buffer::LineBuffer"
    LBR = "grep_searcher::line_buffer::LineBufferReader"
    g = facts.fn(LBR + "::new")
    if g.calls_to(LB + "::clear"):
        r.ok("reader|clear", "LineBufferReader::new clears the shared buffer", fn=g)
    else:
        r.bad("reader|clear", "LineBufferReader::new does not clear the buffer: state of a previous search leaks", fn=g,
              construct="clear")
    h = facts.fn(LB + "::clear")
    _, w, _ = field_rw(h)
    need = {"pos", "last_lineterm", "end", "absolute_byte_offset", "binary_byte_offset"}
    got = {fl for o, fl in w if o == LB}
    if need <= got:
        r.ok("clear|fields", "clear resets %s" % sorted(need), fn=h)
    else:
        r.bad("clear|fields", "LineBuffer::clear does not reset %s" % sorted(need - got), fn=h, construct="clear")
    # ... and the size of the read window: a buffer grown for one reader's long line would otherwise make the next
    # reader's first read larger, and how far ahead binary data is noticed (before or after the first match is
    # delivered) depends on that size — the result for a file would depend on what was searched before it
    ebh = ExprBuilder(h)
    shr = [c for c in h.calls() if c.path in ("alloc::vec::Vec::truncate", "alloc::vec::Vec::resize") and
           mentions_field(ebh.operand(c.args[0]), LB, "buf")]
    if shr and mentions_field(ebh.operand(shr[0].args[1]), "grep_searcher::line_buffer::Config", "capacity"):
        r.ok("clear|window", "clear brings the buffer back to the configured capacity", fn=h)
    else:
        r.bad("clear|window", "LineBuffer::clear keeps the buffer at whatever size an earlier reader grew it to: the next reader "
              "reads more at once, notices binary data further ahead, and a file is dropped (or not) depending on which file "
              "the same searcher handled before it", fn=h, construct="clear")

def run(ctx):
    facts = ctx.facts
    with ctx.rule("C02.GATE", "one strategy predicate; every strategy run site enumerated; line strategies behind check_config", floor=12, kind="GUARD/PARITY") as r:
        c13.strategy_rule(ctx, r)
        from . import c11
        c11.anchors_tables(ctx, r)
        runs = []
        for f in facts.fns_in(SEARCHER + "::"):
            for c in f.calls():
                if c.path in (GLUE + "::MultiLine::run", GLUE + "::SliceByLine::run", GLUE + "::ReadByLine::run"):
                    runs.append((f, c))
        ALLOWED = {SEARCHER + "::search_file_maybe_path", SEARCHER + "::search_reader", SEARCHER + "::search_slice"}
        for f, c in sorted(runs, key=lambda t: (t[0].path, t[1].path)):
            key = "run|%s|%s" % (f.path.split("::")[-1], c.path.split("::")[-2])
            if f.path in ALLOWED:
                v, d = classify_result(f, c)
                if v in ("returned", "try"):
                    r.ok(key, "strategy result returned", fn=f)
                else:
                    r.bad(key, "result of %s is %s" % (c.path, v), fn=f, loc=c.loc)
            else:
                r.bad(key, "a strategy is run from %s, outside the three entry points" % f.path, fn=f, loc=c.loc)
        # a line strategy is only built after the configuration check (matcher and searcher agree on the line terminator):
        # a mismatch would make the line splitter and the matcher disagree about what a line is
        for f_ in facts.fns_in(SEARCHER + "::"):
            news = [c for c in f_.calls() if c.path in (GLUE + "::SliceByLine::new", GLUE + "::ReadByLine::new")]
            if not news:
                continue
            cc = f_.calls_to(SEARCHER + "::check_config")
            key = "config|" + f_.path.split("::")[-1]
            if cc and all(C.dominates(f_, cc[0].bb, n.bb) for n in news) and classify_result(f_, cc[0])[0] in ("try", "returned"):
                r.ok(key, "check_config()? dominates the line strategy", fn=f_)
            elif cc and all(C.dominates(f_, cc[0].bb, n.bb) for n in news):
                # the result goes through map_err first: accept when that result is propagated
                me = [c for c in f_.calls_to("core::result::Result::map_err") if C.dominates(f_, cc[0].bb, c.bb)]
                if me and classify_result(f_, me[0])[0] in ("try", "returned"):
                    r.ok(key, "check_config().map_err(..)? dominates the line strategy", fn=f_)
                else:
                    r.bad(key, "the result of check_config is not propagated in %s" % f_.path, fn=f_, loc=cc[0].loc, construct="check_config")
            else:
                r.bad(key, "%s builds a line strategy without checking that matcher and searcher agree on the line terminator "
                      "(check_config)" % f_.path, fn=f_, loc=news[0].loc, construct="check_config")
        # search_file_maybe_path: mmap → search_slice; else multiline fill → MultiLine; else search_reader
        f = facts.fn(SEARCHER + "::search_file_maybe_path")
        want = [SEARCHER + "::search_slice", SEARCHER + "::fill_multi_line_buffer_from_file", SEARCHER + "::search_reader"]
        for w in want:
            if f.calls_to(w):
                r.ok("file|" + w.split("::")[-1], "search_file_maybe_path uses %s" % w.split("::")[-1], fn=f, nontrivial=False)
            else:
                r.bad("file|" + w.split("::")[-1], "search_file_maybe_path no longer routes through %s" % w, fn=f)
        direct = [c for c in f.calls() if c.path in (GLUE + "::SliceByLine::new", GLUE + "::ReadByLine::new")]
        if direct:
            r.bad("file|direct", "search_file_maybe_path builds a line strategy directly (bypassing search_slice / search_reader)",
                  fn=f, loc=direct[0].loc)
        else:
            r.ok("file|direct", "line strategies only via search_slice / search_reader", fn=f)

    with ctx.rule("C02.INPUT", "the CLI hands inputs to the searcher through the documented entry points (stdin → reader, files → search_path)",
                  floor=8, kind="TABLE/ARMS") as r:
        import itertools
        from .. import hirx as H
        SWK = "rg::search::SearchWorker"
        f = facts.fn(SWK + "::search")
        from . import c18
        f, targets, rows = c18.worker_select_rows(facts)
        if not all(targets.values()):
            r.bad("select|atoms", "anchor-missing: SearchWorker::search no longer calls %s" % sorted(n for n, c in targets.items() if not c), fn=f)
        for bits, ran in rows:
            want = "search_reader" if bits[0] else ("search_preprocessor" if bits[1] else ("search_decompress" if bits[2] else "search_path"))
            key = "select|stdin=%d,pre=%d,zip=%d" % bits
            if ran == [want]:
                r.ok(key, "→ %s" % want, fn=f)
            else:
                r.bad(key, "for stdin=%s pre=%s zip=%s the worker runs `%s` (specified %s): standard input must go through the "
                      "incremental reader — it may be a pipe or a descriptor with a non-zero offset"
                      % (bool(bits[0]), bool(bits[1]), bool(bits[2]), "/".join(ran) or "nothing", want), fn=f, construct="select")
        S_ = "grep_searcher::searcher::Searcher"
        for free, entry in (("rg::search::search_path", S_ + "::search_path"), ("rg::search::search_reader", S_ + "::search_reader")):
            g = facts.fn(free)
            cs = [c for c in g.calls() if c.path.startswith(S_ + "::search_")]
            wrong = [c for c in cs if c.path != entry]
            if len(cs) >= 3 and not wrong:
                r.ok("entry|" + free.split("::")[-1], "%d printer arms all call %s" % (len(cs), entry.split("::")[-1]), fn=g)
            else:
                r.bad("entry|" + free.split("::")[-1], "%s reaches the searcher through %s (expected %s in every printer arm)"
                      % (free, sorted({c.path.split("::")[-1] for c in cs}), entry.split("::")[-1]), fn=g, construct="entry")
        for m, free in (("search_path", "rg::search::search_path"), ("search_reader", "rg::search::search_reader")):
            g = facts.fn(SWK + "::" + m)
            if g.calls_to(free):
                r.ok("method|" + m, "SearchWorker::%s delegates to %s" % (m, free), fn=g, nontrivial=False)
            else:
                r.bad("method|" + m, "SearchWorker::%s no longer delegates to %s" % (m, free), fn=g, construct="entry")

    from . import c17
    with ctx.rule("C02.TRANSCODE", "a slice/mmap is detoured through the reader exactly when the reader would transcode (shared with C17.NEEDS)",
                  floor=2, exhaustive=True, kind="TRUTH/TABLE") as r:
        c17.needs_rule(ctx, r)
    with ctx.rule("C02.PRED", "the strategy predicate multi_line_with_matcher (shared with C13.PRED)", floor=5, exhaustive=True,
                  kind="A3/TABLE") as r:
        c13.mlpred_rule(ctx, r)
    with ctx.rule("C02.ROLL", "Core::roll rebases every cursor; consume uses roll's result", floor=8, kind="RW/ORDER/FLOW") as r:
        f = facts.fn(CORE + "::roll")
        eb = ExprBuilder(f)
        _, w, mb = field_rw_deep(facts, f, depth=1)
        for fld in ("pos", "last_line_counted", "last_line_visited", "absolute_byte_offset"):
            if (CORE, fld) in w:
                r.ok("writes|" + fld, "roll rebases Core.%s" % fld, fn=f)
            else:
                r.bad("writes|" + fld, "Core::roll does not rebase Core.%s after the buffer moves" % fld, fn=f, construct=fld)
        # discovered: every usize field of Core used as a buffer index anywhere must be rebased
        cl = f.calls_to(CORE + "::count_lines")
        resets = [(bb, j) for bb, j, st in f.stmts() if st["k"] == "assign" and (CORE, "last_line_counted") in fields_of_place(st["place"])]
        if cl and resets and all(C.site_dominates(f, (cl[0].bb, "T"), s) for s in resets):
            r.ok("order|count_lines", "count_lines before last_line_counted is reset", fn=f)
        else:
            r.bad("order|count_lines", "Core::roll resets last_line_counted before (or without) counting the rolled-out lines", fn=f,
                  construct="count_lines")
        if cl:
            upto = eb.operand(cl[0].args[2])
            ret = eb.local(0)
            same = any(x.k in ("phi", "local") for x in walk(upto))
        # returned value: derives from max(preceding(..), last_line_visited) under context, buf.len() otherwise
        ret = eb.local(0)
        ok_ctx = mentions_call(ret, "core::cmp::max") and mentions_call(ret, "grep_searcher::lines::preceding") and \
            mentions_field(ret, CORE, "last_line_visited")
        if ok_ctx:
            r.ok("consumed", "consumed = max(context start, last_line_visited) | buf.len()", fn=f)
        else:
            r.bad("consumed", "roll's result is `%s`: context lines still needed may be discarded (expected "
                  "max(preceding(..), last_line_visited))" % show(ret)[:160], fn=f, construct="consumed")
        # how many trailing lines are retained: preceding(buf, term, config.max_context()), with
        # max_context = max(before_context, after_context) — the line *before* the window is needed for the separator decision
        pc = f.calls_to("grep_searcher::lines::preceding")
        if pc and is_call(strip(eb.operand(pc[0].args[2])), SCFG + "::max_context") and \
                any(x.k == "arg" and x[2] == "buf" for x in walk(eb.operand(pc[0].args[0]))):
            r.ok("retain", "retained lines = preceding(buf, term, config.max_context())", fn=f)
        else:
            r.bad("retain", "roll retains `%s` trailing lines instead of config.max_context(): context or a separator can be lost at "
                  "a buffer refill" % (show(eb.operand(pc[0].args[2]))[:60] if pc else "?"), fn=f, construct="retain")
        mcx = facts.fn(SCFG + "::max_context")
        em = ExprBuilder(mcx).local(0)
        if is_call(strip(em), "core::cmp::max") and mentions_field(em, SCFG, "before_context") and mentions_field(em, SCFG, "after_context"):
            r.ok("max_context", "max_context = max(before_context, after_context)", fn=mcx)
        else:
            r.bad("max_context", "Config::max_context is `%s`" % show(em)[:60], fn=mcx, construct="max_context")
        mc = cond_switches(f, lambda e: e.k == "bin" and e[1] == "Eq" and mentions_call(e, SCFG + "::max_context"), eb)
        if mc:
            r.ok("consumed|gate", "whole buffer consumed only when no context is configured", fn=f)
        else:
            r.bad("consumed|gate", "roll no longer distinguishes 'no context' from 'context'", fn=f)
        # the pos written derives from buf.len() - consumed
        sp = f.calls_to(CORE + "::set_pos")
        if sp:
            e = eb.operand(sp[0].args[1])
            if any(x.k == "bin" and x[1] in ("Sub", "SubWithOverflow") for x in walk(e)):
                r.ok("pos", "pos = buf.len() - consumed", fn=f)
            else:
                r.bad("pos", "roll sets pos to `%s`" % show(e), fn=f)
        else:
            r.bad("pos", "anchor-missing: roll does not call set_pos", fn=f)
        g = facts.fn(GLUE + "::ReadByLine::fill")
        ebg = ExprBuilder(g)
        cons = g.calls_to(LBR + "::consume")
        rollc = g.calls_to(CORE + "::roll")
        if not cons or not rollc:
            r.bad("fill|consume", "anchor-missing: ReadByLine::fill must call Core::roll and LineBufferReader::consume", fn=g)
        else:
            first = [c for c in cons if C.dominates(g, rollc[0].bb, c.bb) and is_call(strip(ebg.operand(c.args[1])), CORE + "::roll")]
            if first and C.dominates(g, first[0].bb, g.calls_to(LBR + "::fill")[0].bb):
                r.ok("fill|consume", "consume(roll(buffer)) before the refill", fn=g)
            else:
                r.bad("fill|consume", "ReadByLine::fill does not consume exactly what Core::roll returned before refilling", fn=g,
                      construct="consume")

    with ctx.rule("C02.REFILL", "LineBuffer::fill: roll, ensure capacity before every read, EOF marks the tail complete; roll/consume write sets",
                  floor=9, kind="DOM/RW") as r:
        f = facts.fn(LB + "::fill")
        eb = ExprBuilder(f)
        reads = f.calls_to("std::io::Read::read")
        roll = f.calls_to(LB + "::roll")
        ens = f.calls_to(LB + "::ensure_capacity")
        if not reads or not roll or not ens:
            r.bad("shape", "anchor-missing: LineBuffer::fill (read %d, roll %d, ensure_capacity %d)" % (len(reads), len(roll), len(ens)), fn=f)
        else:
            if all(C.dominates(f, roll[0].bb, c.bb) for c in reads):
                r.ok("roll", "roll() dominates the read loop", fn=f)
            else:
                r.bad("roll", "LineBuffer::fill reads before rolling the buffer", fn=f)
            # every path from one read to the next (and from entry) passes ensure_capacity
            bad = []
            for c in reads:
                esc = C.all_paths_pass(f, [0], {e.bb for e in ens}, [c.bb])
                if esc:
                    bad.append(c)
                # around the loop, after a read that transferred something (a failed read — the Interrupted retry — leaves
                # the window as ensure_capacity() made it)
                s_ok = seed_after_call(f, c, V("Ok", None), stop_blocks={e.bb for e in ens})
                if c.bb in s_ok.exec_blocks:
                    bad.append(c)
            v, d = classify_result(f, ens[0])
            if bad:
                r.bad("ensure_capacity", "Read::read at %s can be reached without ensure_capacity(): a read into an empty "
                      "window returns 0 and is mistaken for end of input" % bad[0].loc, fn=f, loc=bad[0].loc, construct="ensure_capacity")
            elif v != "try":
                r.bad("ensure_capacity", "the result of ensure_capacity() is %s" % v, fn=f)
            else:
                r.ok("ensure_capacity", "ensure_capacity()? before every read, including loop iterations", fn=f)
            # the read window is free_buffer()
            e = eb.operand(reads[0].args[1])
            if mentions_call(e, LB + "::free_buffer"):
                r.ok("window", "reads into free_buffer()", fn=f)
            else:
                r.bad("window", "Read::read writes into `%s`" % show(e), fn=f)
            # EOF arm: readlen == 0 ⇒ last_lineterm = end before return
            z = cond_switches(f, lambda x: x.k == "bin" and x[1] == "Eq" and mentions_call(x, "std::io::Read::read")
                              and any(y.k == "const" and y[1] == 0 for y in (x[2], x[3])), eb)
            if not z:
                r.bad("eof", "anchor-missing: no `readlen == 0` test", fn=f)
            else:
                s = Sccp(f).run([(z[0][1][1], {})])
                wrote = False
                for bb, j, st in f.stmts():
                    if bb in s.exec_blocks and st["k"] == "assign" and (LB, "last_lineterm") in fields_of_place(st["place"]):
                        wrote = mentions_field(eb.rvalue(st["rv"]), LB, "end")
                rets = [b for b in s.exec_blocks if f.blocks[b]["term"]["k"] == "return"]
                again = [c for c in reads if c.bb in s.exec_blocks]
                if wrote and rets and not again:
                    r.ok("eof", "EOF ⇒ last_lineterm = end, return", fn=f)
                else:
                    r.bad("eof", "at end of input the unterminated tail is not exposed as a final line", fn=f, construct="eof")
        # roll: on every path the three window cursors are repositioned (pos = 0; last_lineterm = end = what was left, i.e.
        # 0 or end - pos) and the bytes that were left are moved to the front — skipping the move only on an edge that says
        # nothing was left. (Decided on the paths, not on how the function spells its two cases.)
        rl = facts.fn(LB + "::roll")
        ebr = ExprBuilder(rl)
        rets_ = rl.return_blocks()
        det = []
        for fld in ("pos", "last_lineterm", "end"):
            ws = [(bb, ebr.rvalue(st["rv"])) for bb, j_, st in rl.stmts() if st["k"] == "assign" and (LB, fld) in fields_of_place(st["place"])]
            if not ws or C.all_paths_pass(rl, [0], [bb for bb, _ in ws], rets_):
                det.append("%s is not rewritten on every path" % fld)
                continue
            for bb, e in ws:
                zero = e.k == "const" and e[1] == 0
                left = any(x.k == "bin" and x[1] in ("Sub", "SubWithOverflow") and mentions_field(x[2], LB, "end") and mentions_field(x[3], LB, "pos")
                           for x in walk(e))
                if not (zero or (fld != "pos" and left)):
                    det.append("%s = `%s`" % (fld, show(e)[:50]))
        cw = [c for c in rl.calls() if c.path.endswith("copy_within")]
        empty_edges = set()
        for bb, te, fe, e in cond_switches(rl, lambda e: e.k == "bin" and e[1] in ("Eq", "Ne", "Gt", "Lt") and
                                           (mentions_field(e, LB, "pos") or mentions_field(e, LB, "end")), ebr):
            # the edge on which nothing is left: pos == end / !(end - pos > 0) / !(pos < end) …
            if e[1] == "Eq":
                empty_edges.add(te)
            elif e[1] == "Ne":
                empty_edges.add(fe)
            else:
                empty_edges.add(fe)
        if not cw:
            det.append("no copy_within")
        elif C.all_paths_pass(rl, [0], [c.bb for c in cw], rets_, removed_edges=empty_edges):
            det.append("the bytes that are left are not moved on every path that has some")
        if det:
            r.bad("lb-roll", "LineBuffer::roll: %s" % "; ".join(det), fn=rl, construct="roll")
        else:
            r.ok("lb-roll", "every path: pos = 0, last_lineterm = end = bytes left; those bytes moved with copy_within", fn=rl)
        cs_ = facts.fn(LB + "::consume")
        ebc = ExprBuilder(cs_)
        wv = {}
        for bb, j, st in cs_.stmts():
            if st["k"] == "assign":
                for o, fl in fields_of_place(st["place"]):
                    if o == LB:
                        wv[fl] = ebc.rvalue(st["rv"])
        okc = all(fl in wv and any(x.k == "arg" and x[2] == "amt" for x in walk(wv[fl])) and
                  any(x.k == "bin" and x[1] in ("Add", "AddWithOverflow") for x in walk(wv[fl])) for fl in ("pos", "absolute_byte_offset"))
        if okc:
            r.ok("lb-consume", "consume advances pos and absolute_byte_offset by the same amount", fn=cs_)
        else:
            r.bad("lb-consume", "LineBuffer::consume no longer advances both pos and absolute_byte_offset by amt", fn=cs_, construct="consume")
        rc = facts.fn(LBR + "::consume")
        if rc.calls_to(LB + "::consume"):
            r.ok("lbr-consume", "LineBufferReader::consume forwards", fn=rc, nontrivial=False)
        else:
            r.bad("lbr-consume", "LineBufferReader::consume does not consume from the buffer", fn=rc, construct="consume")
        fl_ = facts.fn(LB + "::fill")
        ebf = ExprBuilder(fl_)
        # after a read: end += readlen; a found terminator sets last_lineterm = oldend + i + 1 and returns true
        we = [ebf.rvalue(st["rv"]) for bb, j, st in fl_.stmts() if st["k"] == "assign" and (LB, "end") in fields_of_place(st["place"])]
        grow = [e for e in we if mentions_call(e, "std::io::Read::read") and any(x.k == "bin" and x[1] in ("Add", "AddWithOverflow") for x in walk(e))]
        rf = [c for c in fl_.calls() if c.path.endswith("ByteSlice::rfind_byte")]
        wl = [ebf.rvalue(st["rv"]) for bb, j, st in fl_.stmts() if st["k"] == "assign" and (LB, "last_lineterm") in fields_of_place(st["place"])]
        lt_ok = any(mentions_call(e, "bstr::ext_slice::ByteSlice::rfind_byte") and
                    any(x.k == "bin" and x[1] in ("Add", "AddWithOverflow") and any(y.k == "const" and y[1] == 1 for y in (x[2], x[3])) for x in walk(e))
                    for e in wl)
        if grow and rf and lt_ok and mentions_field(ebf.operand(rf[0].args[1]), "grep_searcher::line_buffer::Config", "lineterm"):
            s1 = seed_after_call(fl_, rf[0], V("Some", None))
            vals = {x for v in s1.ret_values.values() for x in value_set(v)}
            if vals == {V("Ok", I(1))}:
                r.ok("lb-fill-window", "end grows by the bytes read; last complete line = last terminator + 1; then Ok(true)", fn=fl_)
            else:
                r.bad("lb-fill-window", "after finding a terminator fill returns %s" % vals, fn=fl_, construct="fill")
        else:
            r.bad("lb-fill-window", "LineBuffer::fill no longer maintains end / last_lineterm from the bytes read and the last terminator", fn=fl_,
                  construct="fill")
        clear_rule(ctx, r)

    with ctx.rule("C02.STOPNM", "the fast inverted scanner cannot step over the stopping line (buffer-boundary dependent otherwise; shared with C03.STOPNM)",
                  floor=1, kind="GUARD") as r:
        from . import c03
        c03.stopnm_invert_rule(ctx, r)
    with ctx.rule("C02.BYTECOUNT", "every strategy reports the cursor position in its current buffer as part of the final byte count",
                  floor=3, kind="FLOW/PARITY") as r:
        GL = "grep_searcher::searcher::glue::"
        POS = CORE + "::pos"
        for strat in ("SliceByLine", "MultiLine"):
            f = facts.fn(GL + strat + "::run")
            fin = f.calls_to(CORE + "::finish")
            from .c03 import byte_count_fn
            bc = byte_count_fn(facts, strat)
            if bc is None:
                r.bad("count|" + strat, "%s::run no longer reports its cursor as the byte count" % strat, fn=f, construct="byte_count")
                continue
            ebc = ExprBuilder(bc)
            rets = [ebc.local(0)]
            fr_ = facts.raw.fns.get(f.path, f)
            fin_r = fr_.calls_to(CORE + "::finish")
            if fin and fin_r and mentions_call(ExprBuilder(fr_).operand(fin_r[0].args[1]), bc.path) and rets and \
                    any(mentions_call(e, POS) or mentions_field(e, CORE, "pos") for e in rets):
                r.ok("count|" + strat, "finish(byte_count()) with byte_count() = pos (or the binary offset before it)", fn=f)
            else:
                r.bad("count|" + strat, "%s::run no longer reports its cursor as the byte count" % strat, fn=f, construct="byte_count")
        f = facts.fn(GL + "ReadByLine::run")
        eb = ExprBuilder(f)
        fin = f.calls_to(CORE + "::finish")
        mb = f.calls_to(CORE + "::match_by_line")
        if not fin or not mb:
            r.bad("count|ReadByLine", "anchor-missing: ReadByLine::run shape", fn=f)
        else:
            e = eb.operand(fin[0].args[1])
            if not mentions_call(e, "grep_searcher::line_buffer::LineBufferReader::absolute_byte_offset"):
                r.bad("count|ReadByLine", "ReadByLine::run reports `%s` as the byte count" % show(e)[:60], fn=f, construct="byte_count")
            elif mentions_call(e, POS):
                r.ok("count|ReadByLine", "finish(absolute_byte_offset() + pos)", fn=f)
            else:
                # on the path where match_by_line said stop, the searched part of the buffer is consumed before finish
                s_ = seed_after_call(f, mb[0], V("Ok", I(0)))
                cons = {c.bb for c in f.calls() if c.path.endswith("LineBufferReader::consume") and
                        mentions_call(eb.operand(c.args[1]), POS)}
                reached_fin = fin[0].bb in s_.exec_blocks
                if reached_fin and cons and not C.all_paths_pass(
                        f, [mb[0].target], cons, [fin[0].bb],
                        removed_edges={(a, b) for a in s_.exec_blocks for b in f.succ(a) if (a, b) not in s_.exec_edges}):
                    r.ok("count|ReadByLine", "stop requested ⇒ consume(pos) before finish(absolute_byte_offset())", fn=f)
                else:
                    r.bad("count|ReadByLine", "after a stop request ReadByLine::run reports only the bytes consumed before the current "
                          "buffer: the byte count of an early-stopped search depends on how the reader fragmented its reads and "
                          "differs from the slice strategies (which report their cursor)", fn=f, loc=fin[0].loc, construct="byte_count")
    with ctx.rule("C02.INTR", "an Interrupted read is retried in both fill loops: it cannot change the results (shared with C16.INTR)",
                  floor=4, kind="GUARD/FLOW") as r:
        from . import c16
        c16.interrupted_rule(ctx, r)
    with ctx.rule("C02.NOPROGRESS", "the forced quit of ReadByLine::fill is guarded by consumed == 0 ∧ no growth", floor=1,
                  kind="GUARD") as r:
        g = facts.fn(GLUE + "::ReadByLine::fill")
        ebg = ExprBuilder(g)
        cons = g.calls_to(LBR + "::consume")
        second = [c for c in cons if not is_call(strip(ebg.operand(c.args[1])), CORE + "::roll")]
        # the two comparisons, wherever their answers go (two nested ifs, an `&&`, a named flag): with either of them saying
        # "no" the leftover is not discarded
        from ..flow import cmp_stmts, excluded_by_test
        z1 = [(bb_, j_, 0) for bb_, j_, op_, a_, b_ in cmp_stmts(g, ebg) if op_ == "Eq" and (mentions_call(a_, CORE + "::roll") or mentions_call(b_, CORE + "::roll"))
              and any(y.k == "const" and y[1] == 0 for y in (a_, b_))]
        z2 = [(bb_, j_, 0) for bb_, j_, op_, a_, b_ in cmp_stmts(g, ebg) if op_ == "Eq" and
              any(mentions_call(y, "[T]::len") and mentions_call(y, LBR + "::buffer") for y in (a_, b_))]
        sites_ = [c_.bb for c_ in second]
        if second and z1 and z2 and excluded_by_test(g, z1, sites_) and \
                all(s_ not in Sccp(g, stmt_values={(bb_, j_): I(0)}).run([(bb_, {})]).exec_blocks for bb_, j_, _ in z2 for s_ in sites_):
            r.ok("guard", "leftover context discarded only when nothing was consumed and nothing was read", fn=g)
        else:
            r.bad("guard", "the forced quit is not guarded by consumed == 0 ∧ old length == new length", fn=g)
