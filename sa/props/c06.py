"""C06 — serial and parallel traversal report the same entries."""
from .. import cfg as C
from ..flow import ExprBuilder, mentions_field, mentions_call, is_call, walk, show, seed_after_call, I, V, Sccp, cond_switches, guarded, is_field, strip, value_set, X
from ..graph import field_rw, field_rw_deep, CallGraph
from ..facts import op_place, op_const

TITLE = "serial/parallel walker parity"
EXPLANATION = (
    "Sibling parity of the two skip decisions (ignore::walk::Walk::skip_entry and Worker::generate_work), decided "
    "on their MIR: (KEEP) every path to a 'keep this entry' outcome passes through the gate of each of the four "
    "skip predicates (ignore rules, stdout handle, size limit, caller filter); (SKIP) assuming a predicate said "
    "'skip', seeded constant propagation shows the entry is not kept; both walkers consult the same predicate set; "
    "(ROOTS) depth-0 entries bypass the predicates in both; (OPTIONS) builder fields are consumed by both walkers "
    "with two documented exceptions and none is dead; (PRUNE) a skipped directory is not descended. Equality of the "
    "reported sets for all trees is not decided. (ARGS) both walkers feed each skip predicate from the same sources (entry path, the resolved entry's metadata, the configured limits).")
NOT_DECIDED = [
    "that walkdir's depth/device/loop handling equals the hand-written parallel one",
    "exact-once delivery under concurrency (C07)",
]

W = "ignore::walk"
PRED_FNS = {
    "ignore": W + "::should_skip_entry",
    "stdout": W + "::path_equals",
    "filesize": W + "::skip_filesize",
}
FNCALL = ("core::ops::function::Fn::call", "core::ops::function::FnMut::call_mut",
          "core::ops::function::FnOnce::call_once")


def switch_exprs(f):
    eb = ExprBuilder(f)
    out = []
    for i, b in enumerate(f.blocks):
        if b["cleanup"] or b["term"]["k"] != "switch":
            continue
        out.append((i, eb.operand(b["term"]["op"])))
    return eb, out


def gates(f, owner):
    """predicate name -> set of gate blocks in f (owner = ADT holding the option fields)."""
    eb, sw = switch_exprs(f)
    g = {"ignore": set(), "stdout": set(), "filesize": set(), "filter": set()}
    for bb, e in sw:
        if mentions_call(e, PRED_FNS["ignore"]):
            g["ignore"].add(bb)
        if mentions_field(e, owner, "skip"):
            g["stdout"].add(bb)
        if mentions_field(e, owner, "max_filesize"):
            g["filesize"].add(bb)
        if mentions_field(e, owner, "filter"):
            g["filter"].add(bb)
    return g


def pred_calls(f, owner):
    """predicate name -> list of (Call, skip_value) sites."""
    eb = ExprBuilder(f)
    out = {"ignore": [], "stdout": [], "filesize": [], "filter": []}
    for c in f.calls():
        if c.is_(PRED_FNS["ignore"]):
            out["ignore"].append((c, I(1)))
        elif c.is_(PRED_FNS["stdout"]):
            out["stdout"].append((c, V("Ok", I(1))))
        elif c.is_(PRED_FNS["filesize"]):
            out["filesize"].append((c, I(1)))
        elif c.is_(*FNCALL) and c.args and mentions_field(eb.operand(c.args[0]), owner, "filter"):
            out["filter"].append((c, I(0)))
        elif c.path.endswith(("Option::map_or", "Option::is_some_and", "Option::is_none_or", "Option::map")) and c.args and \
                mentions_field(eb.operand(c.args[0]), owner, "filter") and FACTS[0] is not None:
            # the combinator spelling: `self.filter.as_ref().map_or(false, |Filter(p)| !p(&dent))` — the predicate is called
            # in the closure; the site is the combinator, and what it yields when the predicate says no is what the
            # closure yields then
            for a_ in c.args[1:]:
                for x in walk(eb.operand(a_)):
                    g_ = FACTS[0].fns.get(x[1]) if x.k == "closure" else None
                    if g_ is not None and any(c2.is_(*FNCALL) for c2 in g_.calls()):
                        sx = Sccp(g_, call_model=lambda c2, argv: I(0) if c2.is_(*FNCALL) else None).run([(0, {})])
                        vals = {y for v in sx.ret_values.values() for y in value_set(v)}
                        if len(vals) == 1 and None not in vals:
                            v_ = next(iter(vals))
                            out["filter"].append((c, V("Some", v_) if c.path.endswith("Option::map") else v_))
                            INNER_SITE[(f.path, c.bb)] = (g_, [c2 for c2 in g_.calls() if c2.is_(*FNCALL)][0])
    return out


FACTS = [None]
INNER_SITE = {}


def keep_sites_serial(f):
    """Blocks that assign `_0 = Ok(x)` with x not the constant true."""
    out = []
    for bb, j, st in f.stmts():
        if st["k"] == "assign" and st["place"]["l"] == 0 and not st["place"]["p"]:
            rv = st["rv"]
            if rv["k"] == "agg" and rv.get("variant") == "Ok":
                c = op_const(rv["ops"][0])
                if c is not None and c.get("val") == 1:
                    continue
                out.append(bb)
            elif rv["k"] == "agg" and rv.get("variant") == "Err":
                continue
            else:
                out.append(bb)
    return out


def root_switch(f):
    """The switch testing DirEntry::depth() == 0: (bb, true_target)."""
    eb, sw = switch_exprs(f)
    for bb, e in sw:
        for x in walk(e):
            if x.k == "bin" and x[1] == "Eq" and mentions_call(x, W + "::DirEntry::depth") and \
                    any(y.k == "const" and y[1] == 0 for y in (x[2], x[3])):
                bs = C.bool_switch(f, bb)
                if bs:
                    return bb, bs[1], bs[2]
    return None



def follow_first_rule(ctx, r):
    """Shared by C06.HELPERS and C08.WALK."""
    from .. import cfg as C
    facts = ctx.facts
    gwf = facts.fn(W + "::Worker::generate_work")
    ebw = ExprBuilder(gwf)
    fp = gwf.calls_to(W + "::DirEntryRaw::from_path")
    fl_sw = cond_switches(gwf, lambda e: any(x.k == "field" and x[3] == "follow_links" for x in walk(e)), ebw)
    # ... and every decision about the entry is taken on the followed entry, as the serial walker's are (walkdir has
    # followed the link before Walk::next sees it): ignore rules / type filter / size limit / caller's filter of a
    # symlink to a directory are those of a directory
    sym = cond_switches(gwf, lambda e: any(is_call(x, "std::fs::FileType::is_symlink", "core::result::Result::map_or") or
                                           (x.k == "closure") for x in walk(e)) and
                        not any(x.k == "field" and x[3] == "follow_links" for x in walk(e)), ebw)
    deciders = [c for c in gwf.calls() if c.path in (W + "::should_skip_entry", W + "::path_equals", W + "::skip_filesize",
                                                      W + "::Worker::send") or
                (c.path.startswith("core::ops::function::Fn") and any(x.k == "field" and x[3] == "filter" for x in walk(ebw.operand(c.args[0]))))]
    # decided by constant propagation under (follow_links = true, the entry is a symlink): what is reached with the re-read
    # cut out did not wait for it. (A helper that builds the entry and hands back a Result is seen through: its error
    # return does not continue into the caller's Ok arm.)
    from ..flow import combinator_model as _cm

    def fm(owner, name):
        return I(1) if name == "follow_links" and owner == W + "::Worker" else None

    def inner(call, argv):
        if call.path == W + "::DirEntry::file_type":
            return V("Some", I(0))
        if call.path == "std::fs::FileType::is_symlink":
            return I(1)
        return None
    symtest = any(c.path == "std::fs::FileType::is_symlink" for u_ in facts.with_closures(gwf.path) for c in u_.calls())
    if fp and fl_sw and symtest and len(deciders) >= 4:
        full = Sccp(gwf, call_model=_cm(facts, inner, field_model=fm), field_model=fm).run([(0, {})])
        cut = Sccp(gwf, call_model=_cm(facts, inner, field_model=fm), field_model=fm, stop_blocks=[c.bb for c in fp]).run([(0, {})])
        left = [c.bb for c in deciders if c.bb in cut.exec_blocks] if any(c.bb in full.exec_blocks for c in fp) else [c.bb for c in deciders]
        if left:
            late = [c for c in deciders if c.bb in left]
            r.bad("follow|first", "under follow_links the parallel walker calls %s on a symlink entry before it has been re-read "
                  "through the link: the decision is taken for a non-directory, while the serial walker decides on the "
                  "link's target" % late[0].path.split("::")[-1], fn=gwf, loc=late[0].loc, construct="follow_links")
        else:
            r.ok("follow|first", "follow_links ∧ symlink ⇒ re-read before %s" % ", ".join(sorted({c.path.split("::")[-1] for c in deciders})),
                 fn=gwf)
    else:
        r.bad("follow|first", "anchor-missing: follow_links / is_symlink tests or the %d decision calls of generate_work" % len(deciders),
              fn=gwf)

def run(ctx):
    facts = ctx.facts
    FACTS[0] = facts
    ser = facts.fn(W + "::Walk::skip_entry")
    par = facts.fn(W + "::Worker::generate_work")
    consulted = {}

    with ctx.rule("C06.KEEP", "every path to a keep outcome passes the gate of each skip predicate (both walkers)",
                  floor=8, kind="PASS/PARITY") as r:
        # serial
        g = gates(ser, W + "::Walk")
        rs = root_switch(ser)
        keeps = keep_sites_serial(ser)
        if rs is not None:
            bb, tt, ft = rs
            # exclude keep sites only reachable through the depth()==0 edge
            nonroot = C.reach(ser, [0], removed_edges={(bb, tt)})
            keeps_nr = [k for k in keeps if k in nonroot]
        else:
            keeps_nr = keeps
        if not keeps_nr:
            r.bad("serial|keeps", "anchor-missing: no keep outcome found in Walk::skip_entry", fn=ser)
        consulted["serial"] = {p for p, bl in g.items() if bl}
        for p in ("ignore", "stdout", "filesize", "filter"):
            key = "serial|%s" % p
            if not g[p]:
                r.bad(key, "Walk::skip_entry never consults the %s predicate" % p, fn=ser)
                continue
            esc = C.all_paths_pass(ser, [0], g[p], keeps_nr,
                                   removed_edges={(rs[0], rs[1])} if rs else ())
            if esc:
                loc = ser.blocks[esc[0]]["stmts"][-1]["loc"] if ser.blocks[esc[0]]["stmts"] else ser.blocks[esc[0]]["term"]["loc"]
                r.bad(key, "serial walker: the return at %s may keep an entry without consulting the %s predicate "
                      "(the parallel walker consults it)" % (loc, p), fn=ser, loc=loc, construct=p)
            else:
                r.ok(key, "%d keep outcome(s) all pass gate block(s) %s" % (len(keeps_nr), sorted(g[p])), fn=ser)
        # parallel
        g = gates(par, W + "::Worker")
        sends = [c.bb for c in par.calls_to(W + "::Worker::send")]
        if not sends:
            r.bad("parallel|send", "anchor-missing: Worker::generate_work never calls Worker::send", fn=par)
        consulted["parallel"] = {p for p, bl in g.items() if bl}
        for p in ("ignore", "stdout", "filesize", "filter"):
            key = "parallel|%s" % p
            if not g[p]:
                r.bad(key, "Worker::generate_work never consults the %s predicate" % p, fn=par)
                continue
            # (decided by constant propagation: an error return of a helper that builds the entry does not continue into the
            # caller's `Ok(Some(entry))` arm)
            from ..flow import always_after as _aa
            esc = [] if _aa(par, g[p], sends) else C.all_paths_pass(par, [0], g[p], sends)
            if esc:
                r.bad(key, "parallel walker: send at %s reachable without consulting the %s predicate"
                      % (par.blocks[esc[0]]["term"]["loc"], p), fn=par, loc=par.blocks[esc[0]]["term"]["loc"],
                      construct=p)
            else:
                r.ok(key, "send passes gate block(s) %s" % sorted(g[p]), fn=par)
        if consulted.get("serial") != consulted.get("parallel"):
            r.bad("sets", "predicate sets differ: serial %s vs parallel %s" % (
                sorted(consulted.get("serial", [])), sorted(consulted.get("parallel", []))))
        else:
            r.ok("sets", "both walkers consult %s" % sorted(consulted["serial"]))

    with ctx.rule("C06.SKIP", "a predicate answering 'skip' makes the walker skip (seeded propagation)",
                  floor=8, kind="A3") as r:
        pc = pred_calls(ser, W + "::Walk")
        for p in ("ignore", "stdout", "filesize", "filter"):
            if not pc[p]:
                r.bad("serial|%s" % p, "anchor-missing: no call of the %s predicate in Walk::skip_entry" % p, fn=ser)
            for i, (c, val) in enumerate(pc[p]):
                s = seed_after_call(ser, c, val)
                rets = s.ret_values
                bad = [v for v in rets.values() if v != V("Ok", I(1))]
                key = "serial|%s|%d" % (p, i)
                if not rets or bad:
                    r.bad(key, "serial walker: after the %s predicate said skip at %s the entry is not "
                          "reported as skipped (returns %s)" % (p, c.loc, bad[:1]), fn=ser, loc=c.loc, construct=p)
                else:
                    r.ok(key, "skip ⇒ returns Ok(true)", fn=ser)
        pc = pred_calls(par, W + "::Worker")
        for p in ("ignore", "stdout", "filesize", "filter"):
            if not pc[p]:
                r.bad("parallel|%s" % p, "anchor-missing: no call of the %s predicate in generate_work" % p, fn=par)
            for i, (c, val) in enumerate(pc[p]):
                s = seed_after_call(par, c, val)
                sent = [b for b in s.exec_blocks if par.blocks[b]["term"]["k"] == "call" and
                        par.blocks[b]["term"]["func"]["path"] == W + "::Worker::send"]
                key = "parallel|%s|%d" % (p, i)
                if sent:
                    r.bad(key, "parallel walker: after the %s predicate said skip at %s the entry is still sent"
                          % (p, c.loc), fn=par, loc=c.loc, construct=p)
                else:
                    r.ok(key, "skip ⇒ send unreachable", fn=par)

    with ctx.rule("C06.ARGS", "both walkers feed each skip predicate the same things (entry path, entry metadata, limits)",
                  floor=4, kind="PARITY/FLOW") as r:
        def sig(f, owner, c):
            """argument signature: per argument, the set of ignore-crate / std::fs calls and option fields it derives from"""
            eb = ExprBuilder(f)
            out = []
            for a in c.args:
                e = eb.operand(a)
                s_ = set()
                for x in walk(e):
                    if x.k == "call" and (x[1].startswith("ignore::") or x[1].startswith("std::fs::") or x[1].startswith("std::path::")):
                        s_.add(x[1])
                    if x.k == "field" and x[2] == owner:
                        s_.add("self." + x[3])
                    if x.k == "arg":
                        s_.add("arg:" + f.local_ty(x[1]).replace("walk::", ""))
                out.append(frozenset(s_))
            return out
        ps = pred_calls(ser, W + "::Walk")
        pp = pred_calls(par, W + "::Worker")
        for p in ("ignore", "stdout", "filesize", "filter"):
            if not ps[p] or not pp[p]:
                r.bad(p, "anchor-missing: %s predicate call in one of the walkers" % p)
                continue
            def sig_of(f_, owner_, c_):
                inner = INNER_SITE.get((f_.path, c_.bb))
                if inner is None:
                    return sig(f_, owner_, c_)
                # the predicate is called inside the combinator's closure: its own argument list, the callee being the filter
                return [frozenset({"self.filter"})] + sig(inner[0], owner_, inner[1])[1:]
            a = sig_of(ser, W + "::Walk", ps[p][0][0])
            b = sig_of(par, W + "::Worker", pp[p][0][0])
            # the entry itself is an argument in the serial walker and a local in the parallel one; compare the
            # calls/fields each argument is computed from
            na = [frozenset(x for x in s_ if not x.startswith("arg:")) for s_ in a]
            nb = [frozenset(x for x in s_ if not x.startswith("arg:")) for s_ in b]
            # normalise receiver construction noise of the parallel walker (DirEntry built from the raw entry)
            drop = {"self.ig", "ignore::walk::check_symlink_loop", "ignore::walk::DirEntry::new_raw", "ignore::walk::DirEntryRaw::from_entry", "ignore::walk::DirEntryRaw::from_path",
                    "ignore::walk::DirEntry::file_type", "ignore::walk::DirEntry::path", "std::path::Path::to_path_buf"}
            na = [frozenset(x for x in s_ if x not in drop or x == "ignore::walk::DirEntry::path" and False) for s_ in na]
            nb = [frozenset(x for x in s_ if x not in drop) for s_ in nb]
            if na == nb:
                r.ok(p, "same argument sources in both walkers: %s" % [sorted(x) for x in na], fn=par)
            else:
                diff = [(sorted(x), sorted(y)) for x, y in zip(na, nb) if x != y]
                r.bad(p, "the %s predicate is fed differently: serial %s vs parallel %s (e.g. metadata of the link instead of "
                      "its target)" % (p, diff[0][0] if diff else na, diff[0][1] if diff else nb), fn=par, loc=pp[p][0][0].loc, construct=p)

    with ctx.rule("C06.HELPERS", "definitions of the shared skip helpers and of the parallel depth / device limits", floor=6, kind="GUARD/A3") as r:
        from ..flow import value_set
        from .. import wire as Wr
        sf = facts.fn(W + "::skip_filesize")
        ebs = ExprBuilder(sf)
        # value table: max_filesize = 10, the metadata known or not, its len() ∈ {5, 10, 11}
        from ..flow import table as _tbl, ret_set as _rs
        names_ = [l_.get("name") for l_ in sf.locals]
        if "max_filesize" not in names_ or sf.argc < 3:
            r.bad("skip_filesize", "skip_filesize no longer skips exactly when `len > max_filesize` (strictly greater)", fn=sf, construct="skip_filesize")
        else:
            a_max = names_.index("max_filesize")
            a_md = [i for i in range(1, sf.argc + 1) if i != a_max and "Metadata" in sf.local_ty(i)]
            wrongs = []
            for row, sx in _tbl(facts, sf, args={a_max: [I(10)], a_md[0] if a_md else 3: [V("Some", None), V("None", None)]},
                                calls={"Metadata::len": [I(5), I(10), I(11)]}):
                known = row[("arg", a_md[0] if a_md else 3)][1] == "Some"
                ln = row[("call", "Metadata::len")][1]
                want = I(int(known and ln > 10))
                if _rs(sx) != {want}:
                    wrongs.append("metadata %s, len=%d ⇒ %s" % ("known" if known else "unknown", ln, sorted(map(str, _rs(sx)))))
            if not wrongs:
                r.ok("skip_filesize", "skip ⇔ metadata known ∧ len > max_filesize", fn=sf)
            else:
                r.bad("skip_filesize", "skip_filesize no longer skips exactly when `len > max_filesize` (strictly greater): %s" % "; ".join(wrongs[:2]),
                      fn=sf, construct="skip_filesize")
        pe = facts.fn(W + "::path_equals")
        ebp = ExprBuilder(pe)
        hf = pe.calls_to("same_file::Handle::from_path")
        isd = cond_switches(pe, lambda e: is_call(e, W + "::DirEntry::is_stdin"), ebp)
        if hf and isd and mentions_call(ebp.operand(hf[0].args[0]), W + "::DirEntry::path"):
            s1 = Sccp(pe).run([(isd[0][1][1], {})])
            v1 = {x for v in s1.ret_values.values() for x in value_set(v)}
            if v1 == {V("Ok", I(0))}:
                r.ok("path_equals", "stdin never equals; otherwise Handle::from_path(dent.path()) == handle", fn=pe)
            else:
                r.bad("path_equals", "path_equals answers %s for the stdin entry" % v1, fn=pe, construct="path_equals")
        else:
            r.bad("path_equals", "path_equals no longer compares the entry's file handle with the stdout handle", fn=pe, construct="path_equals")
        # the two comparisons inside path_equals: the inode shortcut answers "never equal" on a *different* inode, and the
        # handles are compared for equality
        ne_ = facts.fns.get(W + "::path_equals::never_equal")
        cl_ = [c_ for c_ in facts.closures_of(W + "::path_equals") if [x for x in c_.calls() if x.path.startswith("core::cmp::PartialEq::")]]
        ok_ne = ne_ is not None and [x for x in ne_.calls() if x.path == "core::cmp::PartialEq::ne"] and \
            not [x for x in ne_.calls() if x.path == "core::cmp::PartialEq::eq"] and \
            ne_.calls_to(W + "::DirEntry::ino") and ne_.calls_to("same_file::Handle::ino")
        ok_eq = cl_ and all([x for x in c_.calls() if x.path == "core::cmp::PartialEq::eq"] and
                            not [x for x in c_.calls() if x.path == "core::cmp::PartialEq::ne"] for c_ in cl_)
        if ok_ne and ok_eq:
            r.ok("path_equals|compare", "never_equal ⇔ dent.ino() != handle.ino(); equal ⇔ Handle(path) == handle", fn=pe)
        else:
            r.bad("path_equals|compare", "path_equals compares the inode numbers / the handles with the wrong relation: the file that "
                  "stdout is redirected to is searched, or every other file is skipped", fn=pe, construct="path_equals")
        ro = facts.fn(W + "::Worker::run_one")
        ebr = ExprBuilder(ro)
        # (generate_work may be called from a closure run_one maps over the directory's entries: the site is then the
        # consuming call)
        from ..flow import call_sites, captured_expr
        gw_sites = call_sites(facts, ro, W + "::Worker::generate_work")

        class _Site:
            def __init__(self, bb, unit, call):
                self.bb, self.unit, self.call, self.loc, self.args = bb, unit, call, call.loc, call.args
        gw = [_Site(*t) for t in gw_sites]
        # value table: max_depth ∈ {None, Some(3)}, the entry's depth ∈ {2, 3, 4}; the outcome is whether generate_work (the
        # descent) and the report of a read_dir failure are still executable. However the limit is spelled — map_or with a
        # closure, a match, a helper method — a directory at or beyond the limit is neither read nor descended.
        from ..flow import table
        rd = ro.calls_to(W + "::Work::read_dir")
        errv = [c for c in ro.calls() if (c.func.get("trait") or "").endswith("ParallelVisitor") and c.func.get("name") == "visit" and
                rd and mentions_call(ebr.operand(c.args[1]), W + "::Work::read_dir")]
        wrong_desc, wrong_err = [], []
        if gw:
            for row, sx in table(facts, ro, fields={(W + "::Worker", "max_depth"): [V("None", None), V("Some", I(3))]},
                                 calls={W + "::DirEntry::depth": [I(2), I(3), I(4)]}):
                mx = row[("field", (W + "::Worker", "max_depth"))]
                d_ = row[("call", W + "::DirEntry::depth")][1]
                below = mx[1] == "None" or d_ < 3
                if (gw[0].bb in sx.exec_blocks) != below:
                    wrong_desc.append("max_depth=%s depth=%d: children %sgenerated" % ("None" if mx[1] == "None" else 3, d_,
                                                                                       "" if gw[0].bb in sx.exec_blocks else "not "))
                if errv and not below and any(c.bb in sx.exec_blocks for c in errv):
                    wrong_err.append("max_depth=3 depth=%d" % d_)
            # the depth handed on: an argument of its own, or a component of a struct / tuple of per-directory values
            _ebu = ExprBuilder(gw[0].unit)
            d_e = X(("agg", "(tuple)", "", [_ebu.operand(a_) for a_ in gw[0].args[1:]], []))

            def from_depth(x):
                if mentions_call(x, W + "::DirEntry::depth"):
                    return True
                # a captured `depth`: what the closure was built from
                for y in walk(x):
                    if y.k == "field" and str(y[2]).startswith("{closure}") and gw[0].unit is not ro:
                        ce = captured_expr(facts, gw[0].unit, y[3])
                        if ce is not None and mentions_call(ce, W + "::DirEntry::depth"):
                            return True
                return False
            okd = any(x.k == "bin" and x[1] in ("Add", "AddWithOverflow") and any(y.k == "const" and y[1] == 1 for y in (x[2], x[3]))
                      and from_depth(x) for x in walk(d_e))
            if not wrong_desc and okd:
                r.ok("max_depth", "children are generated at depth + 1 and only while depth < max_depth (6 rows)", fn=ro)
            elif wrong_desc and all("not generated" not in w_ for w_ in wrong_desc) and \
                    not any(x.k == "field" and x[3] == "max_depth" for bb_, j_, st_ in ro.stmts() if st_["k"] == "assign"
                            for x in walk(ebr.rvalue(st_["rv"]))):
                r.bad("max_depth", "the parallel walker descends without consulting max_depth", fn=ro, construct="max_depth")
            else:
                r.bad("max_depth", "the parallel walker's depth limit is no longer `depth >= max ⇒ do not descend` with children at depth + 1"
                      " (%s)" % (wrong_desc[0] if wrong_desc else "children not at depth + 1"), fn=ro, construct="max_depth")
        else:
            r.bad("max_depth", "anchor-missing: run_one no longer calls generate_work", fn=ro, construct="max_depth")
        # ... and a directory at the depth limit is not *read* as far as the visitor can tell: the serial walker (walkdir)
        # never opens it, so the failure of read_dir must not be reported for it either (diagnostic and exit status)
        if errv and wrong_err:
            r.bad("max_depth|read-error", "Worker::run_one reports the failure of read_dir before it consults max_depth: for an unreadable "
                  "directory exactly at the depth limit the parallel walker prints a diagnostic (exit status 2) and the serial "
                  "walker, which never opens it, does not", fn=ro, loc=errv[0].loc, construct="max_depth")
        elif errv:
            r.ok("max_depth|read-error", "the error of read_dir is reported only below the depth limit", fn=ro)
        else:
            r.ok("max_depth|read-error", "read_dir failures are not reported by run_one", fn=ro, nontrivial=False)
        gwf = facts.fn(W + "::Worker::generate_work")
        ebw = ExprBuilder(gwf)
        fp = gwf.calls_to(W + "::DirEntryRaw::from_path")
        fl_sw = cond_switches(gwf, lambda e: any(x.k == "field" and x[3] == "follow_links" for x in walk(e)), ebw)
        if fp and fl_sw and not guarded(gwf, [fp[0].bb], fl_sw, True) and Wr.const_val(ebw.operand(fp[0].args[2])) == 1:
            r.ok("follow|restat", "follow_links ∧ symlink ⇒ the entry is re-read with link following on", fn=gwf)
        else:
            r.bad("follow|restat", "under follow_links the parallel walker no longer re-reads a symlink entry through the link "
                  "(DirEntryRaw::from_path(.., true)): symlinked directories are not descended although the serial walker does",
                  fn=gwf, construct="follow_links")
        follow_first_rule(ctx, r)
        # value table over (work.root_device, is_same_file_system(..)): the check may sit in run_one or in a closure it hands
        # to a combinator (`root_device.map(|dev| is_same_file_system(dev, ..))`)
        sfs = [c for u_ in facts.with_closures(ro.path) for c in u_.calls_to(W + "::is_same_file_system")]
        ok_visits = [c for c in ro.calls() if (c.func.get("trait") or "").endswith("ParallelVisitor") and c.func.get("name") == "visit" and
                     (lambda e_: e_.k == "agg" and e_[2] == "Ok")(strip(ebr.operand(c.args[1])))]
        # (visits that come after the check: the early hand-over of a non-directory is not one of them)
        site_bbs = [c.bb for c in sfs if c.fn is ro]
        for c in ro.calls():
            if any(x.k == "closure" and any(c2.fn.path == x[1] or c2.fn.path.startswith(x[1] + "::") for c2 in sfs)
                   for a_ in c.args for x in walk(ebr.operand(a_))):
                site_bbs.append(c.bb)
        after_check = set()
        for b_ in site_bbs:
            after_check |= C.reach_after(ro, b_)
        ok_visits = [c for c in ok_visits if c.bb in after_check]
        if sfs and gw:
            res = {}
            for row, sx in table(facts, ro, fields={(W + "::Work", "root_device"): [V("None", None), V("Some", I(7))]},
                                 calls={"walk::is_same_file_system": [V("Ok", I(0)), V("Ok", I(1)), V("Err", None)]}):
                dev = row[("field", (W + "::Work", "root_device"))][1]
                ans = row[("call", "walk::is_same_file_system")]
                res[(dev, ans[1], ans[2])] = (gw[0].bb in sx.exec_blocks, [c for c in ok_visits if c.bb in sx.exec_blocks])
            if res[("Some", "Ok", I(0))][0]:
                r.bad("same_fs", "a directory on another file system is still descended by the parallel walker", fn=ro, construct="same_fs")
            elif not res[("Some", "Ok", I(1))][0] or not res[("None", "Ok", I(1))][0]:
                r.bad("same_fs", "the parallel walker no longer descends directories on the root's own file system", fn=ro, construct="same_fs")
            else:
                r.ok("same_fs", "is_same_file_system == false ⇒ visited but not descended", fn=ro)
            # ... and when the device of a directory cannot be determined, walkdir yields the error *in place of* the entry
            late = res[("Some", "Err", None)][1]
            if late or res[("Some", "Err", None)][0]:
                r.bad("same_fs|error", "when is_same_file_system fails, Worker::run_one reports the error and then the entry as well; "
                      "the serial walker (walkdir) yields the error instead of the entry, so the two walkers disagree on the set "
                      "of entries", fn=ro, loc=(late[0].loc if late else gw[0].loc), construct="same_fs")
            else:
                r.ok("same_fs|error", "device unknown ⇒ the error stands in for the entry, as in walkdir", fn=ro)
        else:
            r.bad("same_fs", "anchor-missing: device check in run_one", fn=ro)
        # ... and the device a root's subtree is pinned to is that root's own: looked up in the very loop iteration that hands
        # the root out (walkdir does the same per WalkDir). A device carried over from an earlier root prunes (or follows)
        # the wrong directories as soon as two roots lie on different file systems.
        cands = [f_ for f_ in facts.fns_in(W + "::WalkParallel::") if f_.calls_to(W + "::device_num") and
                 any(st["k"] == "assign" and st["rv"]["k"] == "agg" and st["rv"].get("adt") == W + "::Work" for _, _, st in f_.stmts())]
        if not cands:
            r.bad("same_fs|root-device", "anchor-missing: no WalkParallel function builds a root's Work from device_num", fn=facts.fn(W + "::WalkParallel::visit"))
        for vis in cands[:1]:
            ebv = ExprBuilder(vis)
            nxt = [c for c in vis.calls() if c.path == "core::iter::traits::iterator::Iterator::next" and
                   "vec::into_iter::IntoIter" in (c.func.get("resolved") or "")]
            dn = vis.calls_to(W + "::device_num")
            works = [bb for bb, j_, st in vis.stmts() if st["k"] == "assign" and st["rv"]["k"] == "agg" and st["rv"].get("adt") == W + "::Work"]
            sfsw = cond_switches(vis, lambda e: is_field(strip(e), W + "::WalkParallel", "same_file_system"), ebv)
            if not sfsw:
                r.bad("same_fs|root-device", "anchor-missing: no test of same_file_system where the roots' Work is built", fn=vis)
                continue
            removed = {x[2] for x in sfsw}
            # stdin has no device
            removed |= {x[1] for x in cond_switches(vis, lambda e: is_call(e, "core::cmp::PartialEq::eq") and
                                                   any(y.k == "const" and y[2] and '"-"' in str(y[2]) for y in walk(e)), ebv)}
            if nxt:
                # the loop over the roots is here: the root is what `next` just produced
                start = nxt[0].target
                own = [c for c in dn if C.dominates(vis, nxt[0].bb, c.bb) and
                       any(is_call(y, "core::iter::traits::iterator::Iterator::next") for y in walk(ebv.operand(c.args[0])))]
            else:
                # a per-root helper: the root is a parameter
                start = 0
                own = [c for c in dn if any(y.k == "arg" for y in walk(ebv.operand(c.args[0])))]
            left = C.all_paths_pass(vis, [start], [c.bb for c in own], works, removed_edges=removed)
            if own and not left:
                r.ok("same_fs|root-device", "same_file_system ⇒ each root's Work carries device_num(that root), looked up in its own iteration",
                     fn=vis)
            else:
                r.bad("same_fs|root-device", "%s can hand out a root under same_file_system without looking up that root's "
                      "own device: its subtree is pinned to the device of another root (the serial walker pins each root to its own)"
                      % vis.path.split("::")[-1], fn=vis, loc=dn[0].loc, construct="root_device")
        # ... and the serial walker asks walkdir to skip a filtered directory only where walkdir has entered it: walkdir
        # does not enter a directory on another device, and skip_current_dir() then drops the rest of the *parent*
        wn = facts.fn("<%s::Walk as core::iter::traits::iterator::Iterator>::next" % W)
        wnc = facts.with_closures("<%s::Walk as core::iter::traits::iterator::Iterator>::next" % W)
        ebn = ExprBuilder(wn)
        scd = [c for c in wn.calls() if c.path.endswith("::skip_current_dir")]
        if not scd:
            r.ok("same_fs|serial-skip", "Walk::next never asks walkdir to skip", fn=wn, nontrivial=False)
        else:
            dev_sw = cond_switches(wn, lambda e: any(is_field(x, W + "::Walk", "root_device") or is_call(x, W + "::is_same_file_system")
                                                     for x in walk(e)), ebn)
            asks = any(c.path in (W + "::is_same_file_system", W + "::device_num") for g_ in wnc for c in g_.calls())
            unguarded = guarded(wn, [c.bb for c in scd], dev_sw, True) if dev_sw else [c.bb for c in scd]
            if asks and not unguarded:
                r.ok("same_fs|serial-skip", "skip_current_dir() only behind the test that the directory is on the root's device", fn=wn)
            else:
                r.bad("same_fs|serial-skip", "Walk::next calls walkdir's skip_current_dir() for every filtered directory; under "
                      "same_file_system walkdir has not entered a directory on another device, so the call drops the rest of the "
                      "parent directory: the serial walker loses the later siblings that the parallel walker reports",
                      fn=wn, loc=scd[0].loc, construct="skip_current_dir")
        ih = facts.fn("ignore::pathutil::is_hidden")
        ebi = ExprBuilder(ih)
        e_ = ebi.local(0)
        # (the comparison with '.' may sit in a closure handed to map_or / is_some_and)
        units_ = [e_] + [ExprBuilder(g_).local(0) for g_ in facts.closures_of(ih.path)]
        dots = any(x.k == "const" and x[2] and ("46_u8" in str(x[2]) or "'.'" in str(x[2]) or '"."' in str(x[2])) for u_ in units_ for x in walk(u_))
        if dots and mentions_call(e_, "ignore::pathutil::file_name"):
            r.ok("is_hidden", "hidden ⇔ the file name starts with '.'", fn=ih)
        else:
            r.bad("is_hidden", "is_hidden is no longer 'file name starts with a dot' (`%s`)" % show(e_)[:70], fn=ih, construct="is_hidden")
        wb_ = facts.fn(W + "::WalkBuilder::build")
        wbc = facts.with_closures(W + "::WalkBuilder::build")
        wd = {c.path.split("::")[-1]: (g_, c) for g_ in wbc for c in g_.calls() if c.path.startswith("walkdir::WalkDir::")}
        okw = True
        for m_, fld in (("max_depth", "max_depth"), ("same_file_system", "same_file_system"), ("follow_links", "follow_links")):
            if m_ not in wd:
                okw = False
                continue
            g_, c = wd[m_]
            e2 = ExprBuilder(g_).operand(c.args[1])
            if m_ == "follow_links":
                # `follow_links || p.is_file()`: the option enters through control flow; require the test on it
                swf = cond_switches(g_, lambda e: any(x.k == "field" and x[3] == "follow_links" for x in walk(e)), ExprBuilder(g_))
                if not swf:
                    okw = False
                continue
            if not (mentions_field(e2, W + "::WalkBuilder", fld) or any(x.k == "field" and x[3] == fld for x in walk(e2))):
                okw = False
        if okw:
            r.ok("serial|walkdir", "the serial walker hands max_depth / same_file_system / follow_links to walkdir", fn=wb_)
        else:
            r.bad("serial|walkdir", "WalkBuilder::build no longer forwards max_depth / same_file_system / follow_links to walkdir", fn=wb_,
                  construct="walkdir")

    with ctx.rule("C06.ROOTS", "depth-0 entries bypass every predicate in both walkers; every root is handed out", floor=3, kind="DOM/NOCALL") as r:
        rs = root_switch(ser)
        if rs is None:
            r.bad("serial", "Walk::skip_entry has no `depth() == 0` test", fn=ser)
        else:
            bb, tt, ft = rs
            pcs = [c for p in pred_calls(ser, W + "::Walk").values() for c, _ in p]
            notdom = [c for c in pcs if not C.dominates(ser, bb, c.bb)]
            s = Sccp(ser).run([(tt, {})])
            rets = set(s.ret_values.values())
            called = [c for c in pcs if c.bb in s.exec_blocks]
            if notdom:
                r.bad("serial", "predicate call at %s is not dominated by the depth()==0 test" % notdom[0].loc,
                      fn=ser, loc=notdom[0].loc)
            elif rets != {V("Ok", I(0))} or called:
                r.bad("serial", "the depth()==0 edge does not return Ok(false) directly (returns %s)" % rets, fn=ser)
            else:
                r.ok("serial", "depth()==0 dominates %d predicate calls and returns Ok(false)" % len(pcs), fn=ser)
        vis = facts.with_closures(W + "::WalkParallel::visit")
        direct = []
        for f in vis:
            for c in f.calls():
                if c.is_(*PRED_FNS.values()) or c.is_(W + "::Worker::generate_work"):
                    direct.append(c)
        pushes = [c for f in vis for c in f.calls() if c.path.endswith("Vec::push") or c.path.endswith("Iterator::collect")]
        if direct:
            r.bad("parallel", "WalkParallel::visit filters root paths (%s)" % direct[0].path, fn=vis[0], loc=direct[0].loc)
        elif not pushes:
            r.bad("parallel", "anchor-missing: visit pushes no root work", fn=vis[0])
        else:
            r.ok("parallel", "roots are pushed as Work without consulting a predicate", fn=vis[0])
        # a root that cannot be turned into work is reported and the *next* root is still handed out
        TRUNC = ("map_while", "take_while", "scan", "take", "skip", "skip_while", "step_by", "nth")
        helpers = [facts.fn(n) for f in vis for c in f.calls() for n in c.names
                   if n.startswith(W + "::WalkParallel::") and facts.has_fn(n) and n != vis[0].path]
        trunc = [c for f in vis + helpers for c in f.calls() if c.path.split("::")[-1] in TRUNC and "iter" in c.path.lower()]
        v0 = vis[0]
        eb0 = ExprBuilder(v0)
        hdrs0 = {h for _, h in C.back_edges(v0)}
        qs = cond_switches(v0, lambda e: is_call(e, W + "::WalkState::is_quit"), eb0)
        stops = []
        for bb, te, fe, e in qs:
            after = C.reach(v0, [fe[1]], stop_blocks=hdrs0)
            if not (after & hdrs0) or [b_ for b_ in after if v0.blocks[b_]["term"]["k"] == "return"]:
                stops.append(bb)
        if trunc:
            r.bad("parallel|all-roots", "WalkParallel::visit builds the initial work through %s: the first root that cannot be "
                  "stat'ed ends the hand-out, every later root is silently dropped (the serial walker goes on)" % trunc[0].path.split("::")[-1],
                  fn=v0, loc=trunc[0].loc, construct="roots")
        elif stops:
            r.bad("parallel|all-roots", "after reporting a root error (visitor did not ask to quit) WalkParallel::visit does not go on "
                  "to the next root", fn=v0, construct="roots")
        elif qs:
            r.ok("parallel|all-roots", "root error ∧ ¬quit ⇒ next root (%d report sites)" % len(qs), fn=v0)
        else:
            r.ok("parallel|all-roots", "no truncating adapter over the roots", fn=v0, nontrivial=False)

    with ctx.rule("C06.OPTIONS", "every WalkBuilder option reaches both walkers and is read by the traversal",
                  floor=10, kind="RW") as r:
        b1 = facts.fn(W + "::WalkBuilder::build")
        b2 = facts.fn(W + "::WalkBuilder::build_parallel")
        WB = W + "::WalkBuilder"
        r1, _, _ = field_rw_deep(facts, b1, depth=0)
        r2, _, _ = field_rw_deep(facts, b2, depth=0)
        f1 = {f for o, f in r1 if o == WB}
        f2 = {f for o, f in r2 if o == WB}
        # closure upvars: reads of self.<field> inside build's closure go through the upvar `self`
        allf = set(facts.struct_fields(WB))
        only1 = f1 - f2
        only2 = f2 - f1
        EXC1 = {"sorter": "sorting is documented as unsupported by the parallel walker"}
        EXC2 = {"threads": "thread count is meaningless for the serial walker"}
        for fld in sorted(allf):
            key = "builder|%s" % fld
            if fld in f1 and fld in f2:
                r.ok(key, "read by build and build_parallel", fn=b1)
            elif fld in only1 and fld in EXC1:
                r.ok(key, "serial only: %s" % EXC1[fld], nontrivial=False)
            elif fld in only2 and fld in EXC2:
                r.ok(key, "parallel only: %s" % EXC2[fld], nontrivial=False)
            else:
                r.bad(key, "WalkBuilder.%s is read by %s" % (fld, "build only" if fld in f1 else
                                                            "build_parallel only" if fld in f2 else "neither builder"),
                      fn=b1 if fld in f1 else b2, construct=fld)
        # consumption by traversal code
        nxt = facts.fn("<%s::Walk as core::iter::traits::iterator::Iterator>::next" % W)
        rs_, _, ms_ = field_rw_deep(facts, nxt, depth=2)
        rs_ |= ms_
        for fld in ("max_filesize", "skip", "filter", "ig", "ig_root", "it", "its"):
            if (W + "::Walk", fld) in rs_:
                r.ok("walk|%s" % fld, "Walk.%s read by Walk::next" % fld, fn=nxt)
            else:
                r.bad("walk|%s" % fld, "Walk.%s is never read by the serial traversal (dead option)" % fld, fn=nxt,
                      construct=fld)
        run_ = facts.fn(W + "::Worker::run")
        rw_, _, mw_ = field_rw_deep(facts, run_, depth=3)
        rw_ |= mw_
        for fld in ("max_depth", "max_filesize", "follow_links", "skip", "filter"):
            if (W + "::Worker", fld) in rw_:
                r.ok("worker|%s" % fld, "Worker.%s read by Worker::run" % fld, fn=run_)
            else:
                r.bad("worker|%s" % fld, "Worker.%s is never read by the parallel traversal (dead option)" % fld,
                      fn=run_, construct=fld)
        # WalkParallel fields flow into Worker
        visf = facts.with_closures(W + "::WalkParallel::visit")
        rv_ = set()
        for f in visf:
            a, _, m = field_rw(f)
            rv_ |= a | m
        # ... or by the private helpers of WalkParallel that visit calls (threads(), an extracted root-work builder, …)
        for f in list(visf):
            for c in f.calls():
                for n_ in c.names:
                    if n_.startswith(W + "::WalkParallel::") and facts.has_fn(n_) and n_ != visf[0].path:
                        for g_ in facts.with_closures(n_):
                            a, _, m = field_rw(g_)
                            rv_ |= a | m
        for fld in facts.struct_fields(W + "::WalkParallel"):
            if (W + "::WalkParallel", fld) in rv_:
                r.ok("walkparallel|%s" % fld, "WalkParallel.%s read by visit" % fld, fn=visf[0])
            else:
                r.bad("walkparallel|%s" % fld, "WalkParallel.%s is never read by visit (dead option)" % fld,
                      fn=visf[0], construct=fld)

    with ctx.rule("C06.SEED", "the parallel walker starts from every root the serial one does (shared with C07.SEED)", floor=1,
                  kind="FLOW") as r:
        from . import c07
        c07.seed_rule(ctx, r)
    with ctx.rule("C06.PRUNE", "a skipped directory is not descended and the matcher stack stays aligned",
                  floor=3, kind="PASS") as r:
        prune_rule(ctx, r)

    with ctx.rule("C06.LOOP", "followed directory symlinks are checked for loops by file identity; a loop is reported and not sent",
                  floor=4, kind="GUARD/A3") as r:
        loop_identity_rule(ctx, r)
        csl = par.calls_to(W + "::check_symlink_loop")
        if not csl:
            r.bad("call", "generate_work never calls check_symlink_loop", fn=par)
        for i, c in enumerate(csl):
            s = seed_after_call(par, c, V("Err", None))
            sent = [b for b in s.exec_blocks if par.blocks[b]["term"]["k"] == "call" and
                    par.blocks[b]["term"]["func"]["path"] == W + "::Worker::send"]
            visited = [b for b in s.exec_blocks if par.blocks[b]["term"]["k"] == "call" and
                       par.blocks[b]["term"]["func"]["path"].endswith("ParallelVisitor::visit")]
            if sent or not visited:
                r.bad("loop|%d" % i, "a detected symlink loop is %s" % ("still sent" if sent else "not reported to the visitor"),
                      fn=par, loc=c.loc)
            else:
                r.ok("loop|%d" % i, "Err ⇒ visitor.visit(Err) and no send", fn=par)
            # guarded by follow_links (see below)
            eb, sw = switch_exprs(par)
            gl = {bb for bb, e in sw if mentions_field(e, W + "::Worker", "follow_links")}
            if gl and not C.all_paths_pass(par, [0], gl, [c.bb]):
                r.ok("guard|%d" % i, "loop check guarded by follow_links", fn=par)
            else:
                r.bad("guard|%d" % i, "check_symlink_loop is not guarded by the follow_links option", fn=par, loc=c.loc)


def loop_identity_rule(ctx, r):
    """check_symlink_loop compares file identities (same_file::Handle: device + inode) of the followed link and of every
    ancestor inside the search root — not path spellings, which differ for relative roots."""
    facts = ctx.facts
    f = facts.fn(W + "::check_symlink_loop")
    eb = ExprBuilder(f)
    HF = "same_file::Handle::from_path"
    hs = f.calls_to(HF)
    child = [c for c in hs if any(x.k == "arg" and x[2] == "child_path" for x in walk(eb.operand(c.args[0])))]
    anc = [c for c in hs if mentions_call(eb.operand(c.args[0]), "ignore::dir::Ignore::path")]
    def _cmp(e):
        return is_call(e, "core::cmp::PartialEq::eq", "core::cmp::PartialEq::ne") and (
            any("Handle" in f.local_ty(y[1]) for y in walk(e) if y.k in ("phi", "local")) or mentions_call(e, HF))
    # normalised to "the handles are equal" polarity (== and != spell the same test)
    eqs = [(bb, (fe if e[1].endswith("::ne") else te), (te if e[1].endswith("::ne") else fe), e) for bb, te, fe, e in cond_switches(f, _cmp, eb)]
    if child and anc and eqs:
        inloop = anc[0].bb in C.reach_after(f, anc[0].bb)
        errs = [bb for bb, j, st in f.stmts() if st["k"] == "assign" and st["rv"]["k"] == "agg" and st["rv"].get("variant") == "Loop"]
        if inloop and errs and not guarded(f, errs, eqs, True):
            r.ok("identity", "Handle(child) compared with Handle(ancestor) for every ancestor; equal ⇒ Error::Loop", fn=f)
        else:
            r.bad("identity", "check_symlink_loop does not report Error::Loop exactly when the handles are equal, for every ancestor", fn=f,
                  construct="loop")
    else:
        r.bad("identity", "check_symlink_loop no longer compares same_file handles of the link target and of each ancestor (child %d, "
              "ancestor %d, comparisons %d): path spellings differ for relative roots, so cycles would go undetected"
              % (len(child), len(anc), len(eqs)), fn=f, construct="loop")
    tw = [c for c in f.calls() if c.path.endswith("Iterator::take_while")]
    ps = f.calls_to("ignore::dir::Ignore::parents")
    # ... up to the search root: with is_absolute_parent() answering yes no ancestor handle is opened (take_while's predicate
    # says stop, or the loop body breaks before the comparison)
    IAP = "ignore::dir::Ignore::is_absolute_parent"
    model_ = lambda c_, argv: I(1) if c_.is_(IAP) else None
    stops = False
    if ps and tw:
        for g_ in facts.closures_of(f.path):
            if g_.calls_to(IAP):
                sx_ = Sccp(g_, call_model=model_).run([(0, {})])
                stops = {y for v_ in sx_.ret_values.values() for y in value_set(v_)} == {I(0)}
    elif ps and anc and f.calls_to(IAP):
        sx_ = Sccp(f, call_model=model_).run([(0, {})])
        stops = not any(c.bb in sx_.exec_blocks for c in anc)
    if ps and stops:
        r.ok("ancestors", "ancestors = ig_parent.parents() up to the search root", fn=f)
    else:
        r.bad("ancestors", "check_symlink_loop no longer walks the ancestors inside the search root", fn=f, construct="loop")
    # errors opening a handle are propagated
    for i, c in enumerate(hs):
        from ..graph import classify_result
        v, d = classify_result(f, c)
        if v not in ("try", "returned"):
            r.bad("handle-error|%d" % i, "an error opening a file handle is %s" % v, fn=f, loc=c.loc)


def prune_rule(ctx, r):
    facts = ctx.facts
    nxt = facts.fn("<%s::Walk as core::iter::traits::iterator::Iterator>::next" % W)
    skips = nxt.calls_to(W + "::Walk::skip_entry")
    # every entry walkdir hands over — WalkEvent::Dir and WalkEvent::File — goes through skip_entry: one call per arm, or one
    # call fed from both arms
    ebn = ExprBuilder(nxt)
    kinds = set()
    for c in skips:
        kinds |= {x[2] for x in walk(ebn.operand(c.args[1])) if x.k == "dc" and x[2] in ("Dir", "File")}
    if not skips or kinds != {"Dir", "File"}:
        r.bad("serial|sites", "anchor-missing: expected skip_entry calls for both the Dir and File events (found %d call(s) covering %s)"
              % (len(skips), sorted(kinds)), fn=nxt)
        return
    if len(skips) == 1:
        r.ok("serial|skip|shared", "one skip_entry call decides for Dir and File events alike", fn=nxt)
    scd = nxt.calls_to("walkdir::IntoIter::skip_current_dir")
    if not scd:
        r.bad("serial|skip_current_dir", "Walk::next never calls skip_current_dir", fn=nxt)
        return
    # For each skip_entry site: under Ok(true) either skip_current_dir is called (Dir arm) and add_child
    # still pushes, or (File arm) no return of Some(Ok(ent)) happens before the next loop iteration.
    n_dir = 0
    for i, c in enumerate(skips):
        # first-iteration region: blocks executable before looping back to the event fetch; the
        # skipped entry must not be returned before the loop header is re-entered
        hdrs = {h for (_, h) in C.back_edges(nxt)}
        s = seed_after_call(nxt, c, V("Ok", I(1)), stop_blocks=hdrs)
        region = s.exec_blocks
        returned = [b for b in region if nxt.blocks[b]["term"]["k"] == "return"]
        key = "serial|skip|%d" % i
        if returned:
            r.bad(key, "a skipped entry can still be returned from Walk::next (site %s)" % c.loc, fn=nxt, loc=c.loc)
            continue
        region_calls = {nxt.blocks[b]["term"]["func"]["path"] for b in region if nxt.blocks[b]["term"]["k"] == "call"}
        if "walkdir::IntoIter::skip_current_dir" in region_calls:
            n_dir += 1
            if "ignore::dir::Ignore::add_child" not in region_calls:
                r.bad(key, "skipped directory: matcher stack not pushed (the Exit event would pop the wrong level)",
                      fn=nxt, loc=c.loc)
                continue
            r.ok(key, "skipped dir ⇒ skip_current_dir + add_child, not returned", fn=nxt)
        else:
            r.ok(key, "skipped file ⇒ not returned", fn=nxt)
    if n_dir == 0:
        r.bad("serial|dir", "no skip_entry site prunes the directory with skip_current_dir", fn=nxt)
    # Exit pops
    par_calls = nxt.calls_to("ignore::dir::Ignore::parent")
    if par_calls:
        r.ok("serial|exit", "WalkEvent::Exit pops the matcher via Ignore::parent", fn=nxt)
    else:
        r.bad("serial|exit", "Walk::next never pops the matcher stack", fn=nxt)
