"""C13 — multi-line search reports exactly the lines covered by matches."""
import itertools
from .. import cfg as C
from ..flow import ExprBuilder, mentions_field, mentions_call, is_call, walk, walk_until, show, \
    cond_switches, guarded, X, Sccp
from ..flow import strip as strip_
from . import c16

TITLE = "multi-line search plumbing"
EXPLANATION = (
    "Structural necessary conditions of C13 on the MIR of grep_searcher::searcher::glue::MultiLine and "
    "Searcher: (WHOLEBUF) every Matcher search call in MultiLine receives the whole buffer (the `slice` field, "
    "not a sub-slice produced by indexing) and, if it takes an offset, one derived from Core::pos — the "
    "structural content of 'look-around is evaluated against the whole input, not the resumption point'; "
    "(STRATEGY) MultiLine is constructed only on the true edge of multi_line_with_matcher and the line "
    "strategies only on its false edge; (INVERT) both delivery routines obtain matches only through "
    "MultiLine::find and advance through MultiLine::advance; plus the stop/finish discipline of C16 restricted "
    "to the MultiLine functions. Leftmost/non-overlapping enumeration, merging arithmetic is "
    "value-level and not decided. (LOCATE) every routine that maps a match to its lines by a forward terminator scan first tests whether the match already ends with the terminator. (ADVANCE) after a match the scan resumes exactly at its end, one byte further only after an empty match that is not at the end of the buffer, and both delivery routines advance with the match they found — the match itself, never its line range; the cursor may jump to the end of the matched lines only below a further find().")
NOT_DECIDED = [
    "leftmost / non-overlapping enumeration, the +1 after an empty match",
    "the merge condition last_match.end() >= line.start() and lines::locate arithmetic",
]

ML = "grep_searcher::searcher::glue::MultiLine"
SEARCHER = "grep_searcher::searcher::Searcher"
MATCHER = "grep_matcher::Matcher"
SEARCH_METHODS = {
    # method -> (haystack arg index, offset arg index or None)
    "find": (1, None), "find_at": (1, 2), "find_iter": (1, None), "find_iter_at": (1, 2),
    "try_find_iter": (1, None), "try_find_iter_at": (1, 2), "shortest_match": (1, None),
    "shortest_match_at": (1, 2), "is_match": (1, None), "is_match_at": (1, 2),
    "captures": (1, None), "captures_at": (1, 2), "captures_iter": (1, None), "captures_iter_at": (1, 2),
    "try_captures_iter": (1, None), "try_captures_iter_at": (1, 2), "find_candidate_line": (1, None),
}
SUBSLICE = ("core::ops::index::Index::index", "core::ops::index::IndexMut::index_mut", "[T]::get",
            "core::slice::<impl [T]>::get", "[T]::split_at", "[T]::get_unchecked")


def is_subslice(e):
    return isinstance(e, X) and ((e.k == "call" and (e[1] in SUBSLICE or (e[2] or "").endswith("::index")
                                                     or e[1].endswith("::get") or "split" in e[1])) or e.k == "idx")


def run(ctx):
    facts = ctx.facts
    with ctx.rule("C13.WHOLEBUF", "Matcher search calls in MultiLine get the whole buffer (+ an offset from Core::pos)",
                  floor=1, kind="NOFLOW/FLOW") as r:
        n = 0
        for f in sorted(facts.fns_in(ML + "::"), key=lambda f: f.path):
            eb = ExprBuilder(f)
            ordn = {}
            for c in f.calls():
                tr = c.func.get("trait")
                if tr != MATCHER or c.func["name"] not in SEARCH_METHODS:
                    continue
                hi, oi = SEARCH_METHODS[c.func["name"]]
                k = ordn.get(c.func["name"], 0)
                ordn[c.func["name"]] = k + 1
                key = "%s|Matcher::%s|%d" % (f.path, c.func["name"], k)
                n += 1
                hay = eb.operand(c.args[hi])
                whole = mentions_field(hay, ML, "slice", stop=is_subslice)
                sliced = any(is_subslice(e) for e in walk(hay))
                if not whole or sliced:
                    r.bad(key, "haystack of Matcher::%s at %s is `%s`: a sub-slice of the buffer, so look-behind, "
                          "^ and \\b at a resumption point see a fake start of input (expected the whole `slice` "
                          "plus an offset)" % (c.func["name"], c.loc, show(hay)), fn=f, loc=c.loc,
                          construct="Matcher::" + c.func["name"])
                    continue
                if oi is not None:
                    off = eb.operand(c.args[oi])
                    if not (mentions_call(off, "grep_searcher::searcher::core::Core::pos")
                            or mentions_field(off, "grep_searcher::searcher::core::Core", "pos")):
                        r.bad(key, "offset of Matcher::%s at %s is `%s`, not derived from Core::pos"
                              % (c.func["name"], c.loc, show(off)), fn=f, loc=c.loc)
                        continue
                r.ok(key, "haystack = %s%s" % (show(hay), ", offset = %s" % show(eb.operand(c.args[oi])) if oi else ""), fn=f)
        r.note_sites(n)

    with ctx.rule("C13.STRATEGY", "MultiLine::new only under multi_line_with_matcher, line strategies only under its negation",
                  floor=5, kind="GUARD") as r:
        strategy_rule(ctx, r)

    with ctx.rule("C13.PRED", "the multi-line capability predicate (5 rows, seeded propagation with call models)", floor=5,
                  exhaustive=True, kind="A3/TABLE") as r:
        mlpred_rule(ctx, r)
    with ctx.rule("C13.INVERT", "both delivery routines take matches from MultiLine::find and advance via MultiLine::advance",
                  floor=2, kind="PARITY") as r:
        for name in ("sink", "sink_matched_inverted"):
            f = facts.fn(ML + "::" + name)
            finds = f.calls_to(ML + "::find")
            adv = f.calls_to(ML + "::advance")
            direct = [c for c in f.calls() if c.func.get("trait") == MATCHER and c.func["name"] in SEARCH_METHODS]
            if len(finds) < 1 or not adv or direct:
                r.bad(name, "MultiLine::%s: find sites %d, advance sites %d, direct matcher calls %d"
                      % (name, len(finds), len(adv), len(direct)), fn=f)
            else:
                # advance must be on every path from a Some(match) to the next delivery/return Ok(true)
                r.ok(name, "%d find site(s), %d advance site(s), no direct matcher call" % (len(finds), len(adv)), fn=f)

    with ctx.rule("C13.ADVANCE", "after a match the scan resumes at its end, one byte further only after an empty match", floor=6,
                  kind="FLOW/GUARD") as r:
        f = facts.fn(ML + "::advance")
        eb = ExprBuilder(f)
        CORE_ = "grep_searcher::searcher::core::Core"
        # value table: the match ends at 5; is_empty ∈ {0,1}; the slice is 5 (the match ends the input) or 9 bytes long.
        # Core::pos() answers what the last set_pos() stored. The outcome is the position the cursor is left at: the end of
        # the match, one byte further exactly after an empty match that is not at the end of the input.
        from ..flow import Sccp as _Sccp, combinator_model as _cm, I, V
        sp = f.calls_to(CORE_ + "::set_pos")
        others = [c for c in f.calls() if c.path.startswith("grep_searcher::lines::")]
        wrong_end, wrong_empty = [], []
        for emp_, ln in itertools.product((0, 1), (5, 9)):
            state = {"pos": None}

            def fm(owner, name, ln=ln):
                if owner == ML and name == "slice":
                    return I(ln)
                return None

            def inner(call, argv, emp_=emp_, state=state):
                if call.path == "grep_matcher::Match::end":
                    return I(5)
                if call.path == "grep_matcher::Match::is_empty":
                    return I(emp_)
                if call.path == CORE_ + "::set_pos":
                    state["pos"] = argv[1] if len(argv) > 1 else None
                    return None
                if call.path == CORE_ + "::pos":
                    return state["pos"]
                if call.path in ("[T]::len", "core::slice::<impl [T]>::len"):
                    return argv[0] if argv and argv[0] is not None and argv[0][0] == "i" else None
                return None
            _Sccp(f, call_model=_cm(facts, inner, field_model=fm), field_model=fm).run([(0, {})])
            want = I(6) if (emp_ and ln > 5) else I(5)
            if state["pos"] != want:
                (wrong_empty if emp_ else wrong_end).append("is_empty=%d len=%d ⇒ cursor at %s, specified %s" % (emp_, ln, state["pos"], want[1]))
        if not sp or others or wrong_end:
            r.bad("end", "MultiLine::advance does not resume exactly at the end of the match (a later match on the same line "
                  "could be skipped)%s" % (" [%s]" % wrong_end[0] if wrong_end else ""), fn=f, construct="advance")
        else:
            r.ok("end", "pos ← range.end() after a non-empty match", fn=f)
        if wrong_empty or not sp:
            r.bad("empty", "after an empty match the scan does not advance by exactly one byte (only when not at the end)%s"
                  % (" [%s]" % wrong_empty[0] if wrong_empty else ""), fn=f, construct="advance")
        else:
            r.ok("empty", "empty match ∧ end < len ⇒ end + 1 (and only then)", fn=f)
        # both delivery routines advance with the match they just found
        for name in ("sink", "sink_matched_inverted"):
            g = facts.fn(ML + "::" + name)
            ebg = ExprBuilder(g)
            adv = g.calls_to(ML + "::advance")
            src_ok = adv and all(mentions_call(ebg.operand(c.args[1]), ML + "::find") for c in adv)
            if src_ok:
                r.ok("caller|" + name, "advance(<the range found by find()>)", fn=g)
            else:
                r.bad("caller|" + name, "%s advances past something other than the match it found" % name, fn=g, construct="advance")
            # ... with the match itself, not with the lines it lies on: resuming at the end of the *line* skips every match
            # that starts on the rest of that line (and may reach into following lines, which inversion then reports)
            LOC = "grep_searcher::lines::locate"
            # field writes into *self are not part of the value passed; neither is what a predicate closure captured
            # (`find()?.filter(|next| next.start() < line.end())` yields find()'s match or nothing)
            nopart = lambda e: e.k in ("partial", "closure")
            widened = [c for c in adv if mentions_call(ebg.operand(c.args[1]), LOC, stop=nopart)]
            if adv and not widened:
                r.ok("exact|" + name, "advance() receives the match, not its line range", fn=g)
            elif adv:
                r.bad("exact|" + name, "%s resumes the scan at the end of the matched *lines* (advance(locate(match))): a later match "
                      "that starts on the last of those lines is never found, so with inversion the lines it reaches are reported "
                      "as non-matching" % name, fn=g, loc=widened[0].loc, construct="advance-line")
            # a jump of the cursor to a line end is allowed only after a further find() showed nothing starts before it
            finds = g.calls_to(ML + "::find")
            for c in g.calls_to(CORE_ + "::set_pos"):
                a_ = ebg.operand(c.args[1])
                if not mentions_call(a_, LOC, stop=nopart):
                    continue
                first = [fc for fc in finds if all(C.dominates(g, fc.bb, o.bb) for o in finds)]
                later = [fc for fc in finds if fc not in first and C.dominates(g, fc.bb, c.bb)]
                if later:
                    r.ok("skip|" + name, "cursor jumps to the line end only below a second find() (nothing starts before it)", fn=g)
                else:
                    r.bad("skip|" + name, "%s moves the cursor to the end of the matched lines without a further find(): matches starting "
                          "on the rest of the last line are skipped" % name, fn=g, loc=c.loc, construct="advance-line")

    with ctx.rule("C13.WHOLEINPUT", "the multi-line buffer holds exactly the whole decoded input: emptied first, read to EOF (shared with C17.PATHS)", floor=4,
                  kind="FLOW") as r:
        from . import c17
        c17.unbounded_rule(ctx, r)
    with ctx.rule("C13.PHANTOM", "no context for the empty range after the final terminator", floor=1, kind="GUARD") as r:
        phantom_rule(ctx, r)
    with ctx.rule("C13.LOCATE", "a line locator never extends a range that already ends with the terminator", floor=1, kind="GUARD") as r:
        # Any searcher routine that turns a Match into the Match of its lines by scanning forward from range.end() for the
        # terminator must first ask whether the byte before range.end() is the terminator: otherwise a match ending with
        # its line's terminator drags the following line into the reported range.
        FIND = ("bstr::ext_slice::ByteSlice::find_byte", "memchr::memchr::memchr", "memchr::memchr")
        n = 0
        # (definitions are enumerated, so a helper that was spliced into its callers is looked at on its own as well)
        for f in facts.fns_in("grep_searcher::") + [g_ for p_, g_ in facts.spliced_fns.items() if g_ is not None and p_.startswith("grep_searcher::")]:
            if f.kind == "closure" or "::tests::" in f.path or f.d.get("output") != "grep_matcher::Match":
                continue
            eb = ExprBuilder(f)
            fwd = [c for c in f.calls() if c.path in FIND and
                   any(is_call(x, "core::ops::index::Index::index") and any(y.k == "agg" and "RangeFrom" in y[1] and
                       mentions_call(y, "grep_matcher::Match::end") for y in walk(x)) for x in walk(eb.operand(c.args[0])))]
            if not fwd:
                continue
            n += 1

            def ends_with_term(e):
                if not (e.k == "bin" and e[1] == "Eq"):
                    return False
                for a_ in (e[2], e[3]):
                    if any(x.k == "bin" and x[1] in ("Sub", "SubWithOverflow") and mentions_call(x, "grep_matcher::Match::end")
                           for x in walk(a_)) or any(x.k == "idx" and mentions_call(x, "grep_matcher::Match::end") for x in walk(a_)):
                        return True
                return False
            key = "locator|" + f.path.split("grep_searcher::", 1)[1]
            # the comparison itself, wherever its answer goes (a switch, a named flag, the tail of an `&&`)
            tests = [(bb, j) for bb, j, s_ in f.stmts() if s_["k"] == "assign" and ends_with_term(eb.rvalue(s_["rv"]))]
            # the same question asked of the slice: `bytes[..range.end()].last() == Some(&line_term)` / ends_with(&[line_term])
            ctests = [c for c in f.calls() if (c.is_("core::cmp::PartialEq::eq") and
                                              any(is_call(x, "[T]::last", "core::slice::<impl [T]>::last") and mentions_call(x, "grep_matcher::Match::end")
                                                  for a_ in c.args for x in walk(eb.operand(a_)))) or
                      (c.path.endswith("::ends_with") and any(mentions_call(eb.operand(a_), "grep_matcher::Match::end") for a_ in c.args))]
            sw = tests or ctests

            def decided(c):
                # once the comparison said "ends with the terminator" the scan is not reached, and the scan sits below
                # the comparison (or below the head of the `&&` chain the comparison belongs to)
                for bb, j in tests:
                    sx = Sccp(f, stmt_values={(bb, j): I(1)}).run([(bb, {})])
                    if c.bb in sx.exec_blocks:
                        return False
                from ..flow import with_default
                for ct in ctests:
                    sx = Sccp(f, call_model=with_default(lambda c_, argv, ct=ct: I(1) if (c_.bb, c_.loc) == (ct.bb, ct.loc) else None)).run([(ct.bb, {})])
                    if c.bb in sx.exec_blocks:
                        return False
                heads = {bb for bb, j in tests} | {ct.bb for ct in ctests}
                for bb, j in list(tests) + [(ct.bb, 0) for ct in ctests]:
                    for i, b in enumerate(f.blocks):
                        if C.bool_switch(f, i) and C.dominates(f, i, bb):
                            heads.add(i)
                return any(C.dominates(f, h, c.bb) for h in heads)
            if sw and all(decided(c) for c in fwd):
                r.ok(key, "forward scan for the terminator only when bytes[range.end()-1] != terminator", fn=f)
            else:
                r.bad(key, "%s scans forward from range.end() for the next terminator without first checking that the range "
                      "does not already end with one: a match ending in its line's terminator is reported together with the "
                      "following line" % f.path, fn=f, loc=fwd[0].loc, construct="locate")
        if not n:
            r.bad("locator", "anchor-missing: no line locator (Match → Match via forward terminator scan) found in grep_searcher")
    with ctx.rule("C13.STOP", "C16 stop discipline restricted to MultiLine (shared rule)", floor=12, kind="STOP/A3") as r:
        c16.stop_rule(ctx, r, only=lambda p: p.startswith(ML + "::"))
    with ctx.rule("C13.FINISH", "Core::finish exactly once in MultiLine::run (shared rule)", floor=1, kind="ONCE") as r:
        c16.once_rule(r, facts.fn(ML + "::run"), c16.CORE + "::finish", "Core::finish")


def phantom_rule(ctx, r):
    """The empty range after the final terminator (a pattern that matches the empty string matches there) is not a line:
    MultiLine::run must not deliver context for it. sink_matched refuses the range itself; the context call that precedes
    it has to sit on the !is_empty() edge as well, or lines far from any match are delivered as before-context."""
    facts = ctx.facts
    f = facts.fn(ML + "::run")
    eb = ExprBuilder(f)
    sc = f.calls_to(ML + "::sink_context")
    # by value: a pending match that is_empty() ⇒ sink_context is not reached (the test may be a guard, an if, or the
    # predicate of Option::filter)
    from ..flow import combinator_model as _cm, I, V

    def inner(call, argv):
        if call.path == "grep_matcher::Match::is_empty":
            return I(1)
        if call.path.endswith("Option::take"):
            return V("Some", None)
        return None
    asks = any(c.path == "grep_matcher::Match::is_empty" for u_ in facts.with_closures(f.path) for c in u_.calls())
    sx = Sccp(f, call_model=_cm(facts, inner)).run([(0, {})])
    emp = asks and not any(c.bb in sx.exec_blocks for c in sc)
    if not sc:
        r.bad("run|phantom", "anchor-missing: MultiLine::run no longer delivers the context of the pending match", fn=f)
    elif emp:
        r.ok("run|phantom", "context of the pending range only when the range is not empty", fn=f)
    else:
        r.bad("run|phantom", "MultiLine::run delivers context for the pending range without asking whether it is empty: for a "
              "pattern that matches the empty string after the final terminator, the lines before EOF are delivered as "
              "before-context of a match that is never reported", fn=f, loc=sc[0].loc, construct="phantom")


def mlpred_rule(ctx, r):
    """Searcher::multi_line_with_matcher decided by seeded propagation with call models (4 rows)."""
    facts = ctx.facts
    f = facts.fn(SEARCHER + "::multi_line_with_matcher")
    from ..flow import Sccp, I, V, value_set
    ML_ = SEARCHER + "::multi_line"
    LT = MATCHER + "::line_terminator"
    NM = MATCHER + "::non_matching_bytes"
    EQ = "core::cmp::PartialEq::eq"
    CONTAINS = "grep_matcher::ByteSet::contains"

    def run(models):
        def model(call, argv):
            for names, val in models:
                if call.is_(*names):
                    return val
            return None
        from ..flow import combinator_model
        sx = Sccp(f, call_model=combinator_model(facts, model)).run([(0, {})])
        return {x for v in sx.ret_values.values() for x in value_set(v)}
    rows = [
        ("multi_line off", [((ML_,), I(0))], {I(0)}),
        ("matcher terminator == searcher terminator", [((ML_,), I(1)), ((LT,), V("Some", None)), ((EQ,), I(1))], {I(0)}),
        ("terminator byte ∈ non_matching_bytes", [((ML_,), I(1)), ((LT,), V("None", None)), ((NM,), V("Some", None)), ((CONTAINS,), I(1))], {I(0)}),
        ("no promise from the matcher", [((ML_,), I(1)), ((LT,), V("None", None)), ((NM,), V("None", None))], {I(1)}),
        ("promises do not cover the terminator", [((ML_,), I(1)), ((LT,), V("Some", None)), ((EQ,), I(0)), ((NM,), V("Some", None)), ((CONTAINS,), I(0))], {I(1)}),
    ]
    for label, models, want in rows:
        got = run(models)
        if got == want:
            r.ok("pred|" + label, "%s ⇒ %s" % (label, bool(next(iter(want))[1])), fn=f)
        else:
            r.bad("pred|" + label, "multi_line_with_matcher: %s yields %s, specified %s" % (label, got, bool(next(iter(want))[1])), fn=f,
                  construct="mlpred")


STRATS = {
    "grep_searcher::searcher::glue::MultiLine::new": True,
    "grep_searcher::searcher::glue::SliceByLine::new": False,
    "grep_searcher::searcher::glue::ReadByLine::new": False,
}


def strategy_rule(ctx, r, pfx="C13"):
    facts = ctx.facts
    MLWM = SEARCHER + "::multi_line_with_matcher"
    seen = 0
    for f in sorted(facts.fns_in(SEARCHER + "::"), key=lambda f: f.path):
        sites = [(c, STRATS[n]) for c in f.calls() for n in c.names if n in STRATS]
        if not sites:
            continue
        # value table: which constructors run when the predicate says yes / no (wherever its answer travels: a branch,
        # a strategy enum computed first, a flag)
        from ..flow import table, I
        execd = {}
        for row, sx in table(facts, f, calls={"Searcher::multi_line_with_matcher": [I(0), I(1)]}):
            execd[row[("call", "Searcher::multi_line_with_matcher")][1]] = sx.exec_blocks
        asked = f.calls_to(MLWM)
        for c, want in sites:
            seen += 1
            key = "%s|%s" % (f.path, c.path.split("::")[-2])
            if not asked:
                r.bad(key, "%s constructs %s without testing multi_line_with_matcher" % (f.path, c.path), fn=f, loc=c.loc)
                continue
            if c.bb in execd[0 if want else 1]:
                r.bad(key, "%s at %s is reachable without multi_line_with_matcher(..) == %s"
                      % (c.path, c.loc, str(want).lower()), fn=f, loc=c.loc)
            else:
                r.ok(key, "on the %s edge of multi_line_with_matcher" % str(want).lower(), fn=f)
    return seen
