"""C08 — multi-threaded output is a permutation of single-threaded output (ownership and layering)."""
import itertools
from .. import cfg as C
from .. import hirx as H
from ..flow import ExprBuilder, mentions_field, mentions_call, is_call, is_field, walk, show, cond_switches, \
    guarded, seed_after_call, Sccp, I, V, X, strip, value_set
from ..graph import field_rw, CallGraph
from ..facts import op_const, op_place, fields_of_place
from .. import wire as W
from . import c15

TITLE = "parallel output ownership"
EXPLANATION = (
    "Ownership / layering necessary conditions of C08 on the MIR/HIR of crate rg: (BUFFER) in the per-entry closure of "
    "search_parallel the worker's buffer is cleared before each search, every non-error path from the search to the "
    "closure's return passes exactly one BufferWriter::print, and the factory closure clones the search worker so no "
    "two workers share a printer; (STDOUT) nothing reachable from the worker closures acquires stdout except inside the "
    "locked stderr macro; (SEPARATOR) the file separator has exactly one owner — the printer when single-threaded, the "
    "buffer writer otherwise; (SORT) sorting or a single file forces one thread, run() dispatches to the parallel "
    "functions only when threads ≠ 1, and the walker is sorted only for ascending path order; (FILES) in files_parallel "
    "paths are written only by the printer thread, the walker closure only sends, and the sender is dropped before the "
    "join; (STATUS) the parallel results derive from the shared `matched` flag. Byte identity of blocks and behaviour "
    "under timing perturbation are not decided. (PERFILE) per-file searcher state (binary detection mode) is chosen and installed for every haystack, so nothing leaks between files of one worker.")
NOT_DECIDED = ["byte identity of per-file blocks", "behaviour under timing perturbation (schedules are not explored)"]

HI = "rg::flags::hiargs::HiArgs"
SEARCH = "rg::search::SearchWorker::search"
PRINT = "termcolor::BufferWriter::print"


def worker_closure(facts):
    for clo in facts.closures_of("rg::search_parallel"):
        if clo.calls_to(SEARCH):
            return clo
    return None



def wbm_edges(f):
    return {(u, v) for u in range(len(f.blocks)) for v in f.succ(u)}

def run(ctx):
    facts = ctx.facts
    with ctx.rule("C08.BUFFER", "per-file buffer cleared, printed exactly once whether the search succeeded or failed; one printer per worker", floor=6, kind="DOM/PASS") as r:
        clo = worker_closure(facts)
        if clo is None:
            r.bad("closure", "anchor-missing: no per-entry closure calling SearchWorker::search in search_parallel")
        else:
            eb = ExprBuilder(clo)
            se = clo.calls_to(SEARCH)[0]
            clr = clo.calls_to("termcolor::Buffer::clear")
            pr = clo.calls_to(PRINT)
            if clr and C.dominates(clo, clr[0].bb, se.bb) and mentions_call(eb.operand(clr[0].args[0]), "rg::search::SearchWorker::printer"):
                r.ok("clear", "Buffer::clear dominates the search", fn=clo)
            else:
                r.bad("clear", "the worker's buffer is not cleared before each search: a previous file's output would be printed again",
                      fn=clo, construct="clear")
            hd_ = {h for _, h in C.back_edges(clo)}
            for outcome, seedv, key, txt in (("Ok", V("Ok", None), "print", "a successful search"),
                                             ("Err", V("Err", None), "print|error", "a search that failed part-way")):
                s = seed_after_call(clo, se, seedv, stop_blocks=hd_)
                here = [c for c in pr if c.bb in s.exec_blocks]
                if len(here) != 1:
                    r.bad(key, "%s is followed by %d BufferWriter::print call(s) (exactly one expected): %s" % (
                        txt, len(here), "what it found before failing is dropped, while the single-threaded search has already "
                        "printed it" if outcome == "Err" else "its block is dropped or printed twice"), fn=clo, loc=se.loc, construct="print")
                    continue
                p_ = here[0]
                if _ret_without(clo, s, p_.bb, se.target):
                    r.bad(key, "%s can finish without its buffer being printed" % txt, fn=clo, loc=se.loc, construct="print")
                elif p_.bb in C.reach(clo, [p_.target]):
                    r.bad(key, "the buffer can be printed twice", fn=clo, construct="print")
                else:
                    r.ok(key, "%s(search) ⇒ exactly one BufferWriter::print before returning" % outcome, fn=clo)
                if mentions_call(eb.operand(p_.args[1]), "rg::search::SearchWorker::printer"):
                    r.ok(key + "|what", "prints this worker's own buffer", fn=clo)
                else:
                    r.bad(key + "|what", "BufferWriter::print is given `%s`" % show(eb.operand(p_.args[1]))[:60], fn=clo)
            fac = [c for c in facts.closures_of("rg::search_parallel", recursive=False)]
            cloned = any(c.path.endswith("Clone::clone") and "SearchWorker" in (c.func.get("resolved") or "") +
                         " ".join(c.func.get("targs", [])) for f in fac for c in f.calls())
            if cloned:
                r.ok("clone", "the per-thread factory clones the SearchWorker (own printer, own buffer)", fn=fac[0])
            else:
                r.bad("clone", "worker threads share one SearchWorker / printer", fn=fac[0] if fac else None, construct="clone")
        sp = facts.fn("rg::search_parallel")
        ebs = ExprBuilder(sp)
        pa = sp.calls_to(HI + "::printer")
        if pa and mentions_call(ebs.operand(pa[0].args[2]), "termcolor::BufferWriter::buffer"):
            r.ok("printer|buffer", "the parallel printer writes into a BufferWriter buffer, not into stdout", fn=sp)
        else:
            r.bad("printer|buffer", "the parallel printer is not built over a BufferWriter buffer", fn=sp, construct="buffer")

    with ctx.rule("C08.STDOUT", "no stdout acquisition reachable from worker closures outside the stderr macro", floor=2, kind="NOCALL") as r:
        cg = CallGraph(facts)
        STDOUT = {HI + "::stdout", "std::io::stdio::stdout", "grep_cli::wtr::stdout", "grep_cli::wtr::stdout_buffered_line",
                  "grep_cli::wtr::stdout_buffered_block", "termcolor::StandardStream::stdout", "termcolor::BufferWriter::stdout",
                  "termcolor::BufferedStandardStream::stdout"}
        roots = [c for c in facts.closures_of("rg::search_parallel")] + [c for c in facts.closures_of("rg::files_parallel")]
        if not roots:
            r.bad("roots", "anchor-missing: no closures in search_parallel / files_parallel")
        reach_fns = set()
        for root in roots:
            reach_fns |= {n for n in cg.reachable_from([root.path]) if n in facts.fns and facts.fns[n].crate == "rg"}
        offenders = []
        for n in sorted(reach_fns):
            g = facts.fns[n]
            if g.path.startswith("rg::logger::"):
                continue
            for c in g.calls():
                if c.names & STDOUT and "eprintln_locked" not in c.exp:
                    offenders.append((g, c))
        # the printer thread of files_parallel legitimately owns the PathPrinter (built before the spawn), not stdout itself
        if offenders:
            g, c = offenders[0]
            r.bad("acquire|%s" % g.path, "%s (reachable from a worker closure) acquires stdout via %s" % (g.path, c.path), fn=g,
                  loc=c.loc, construct="stdout")
        else:
            r.ok("acquire", "%d rg functions reachable from worker closures; none acquires stdout outside eprintln_locked!" % len(reach_fns))
        # positive control: the serial path does acquire it
        s = facts.fn("rg::search")
        if any(c.names & STDOUT for c in s.calls()):
            r.ok("control", "positive control: rg::search (serial) acquires stdout via HiArgs::stdout", fn=s, nontrivial=False)
        else:
            r.bad("control", "positive control failed: the stdout acquisition set no longer matches the serial path", fn=s)

    with ctx.rule("C08.SEPARATOR", "exactly one owner of the file separator", floor=2, kind="GUARD/WIRE") as r:
        f = facts.fn(HI + "::printer_standard")
        eb = ExprBuilder(f)
        ss = [c for c in f.calls() if c.path.endswith("StandardBuilder::separator_search")]
        # value table over self.threads ∈ {1, 4} with file_separator = Some(..): what the printer ends up with is the value
        # handed to separator_search, or the builder's default when it is not called
        from ..flow import Sccp as _S2, combinator_model as _cm2
        from .. import wire as _W
        dflt = _W.struct_default(facts, "grep_printer::standard::Config", "separator_search")
        eff = {}
        for th in (1, 4):
            seen = []

            def fm(owner, name, th=th):
                if owner == HI and name == "threads":
                    return I(th)
                if owner == HI and name == "file_separator":
                    return V("Some", I(99))
                return None

            def inner(call, argv, seen=seen):
                if call.path.endswith("StandardBuilder::separator_search"):
                    seen.append(argv[1] if len(argv) > 1 else None)
                if call.path.endswith("Clone::clone") and argv and argv[0] is not None:
                    return argv[0]
                return None
            _S2(f, call_model=_cm2(facts, inner, field_model=fm), field_model=fm).run([(0, {})])
            eff[th] = seen[-1] if seen else dflt
        none_ = lambda v: v is not None and v[0] == "v" and v[1] == "None"
        if ss and eff[1] == V("Some", I(99)) and none_(eff[4]):
            r.ok("printer", "separator_search(file_separator) only when threads == 1", fn=f)
        else:
            r.bad("printer", "the standard printer emits file separators also when the buffer writer does (threads ≠ 1)"
                  if not none_(eff[4]) else "the single-threaded standard printer is not given the file separator", fn=f,
                  construct="separator")
        g = facts.fn(HI + "::buffer_writer")
        ebg = ExprBuilder(g)
        sep = g.calls_to("termcolor::BufferWriter::separator")
        if len(sep) == 1 and mentions_field(ebg.operand(sep[0].args[1]), HI, "file_separator") and \
                not C.all_paths_pass(g, [0], {sep[0].bb}, g.return_blocks()):
            r.ok("buffer_writer", "the buffer writer always owns the separator", fn=g)
        else:
            r.bad("buffer_writer", "the buffer writer does not emit the file separator between blocks", fn=g, construct="separator")

    with ctx.rule("C08.SEPFIRST", "whatever the single-threaded printer writes first for a file, the file separator comes before it "
                  "(the buffer writer of the parallel driver puts one before every non-empty block)", floor=2, kind="PASS") as r:
        SI = "grep_printer::standard::StandardImpl"
        # the writers of a block's first bytes: the per-line paths (through write_search_prelude) and the binary notice, which
        # may be all a block consists of
        pre = facts.fn(SI + "::write_search_prelude")
        sepfn = [g_ for g_ in (pre,) + tuple(facts.fns[c.path] for c in pre.calls() if c.path in facts.fns and c.path.startswith(SI + "::"))
                 if any(x.k == "field" and x[3] == "separator_search" for bb, j, st in g_.stmts() if st["k"] == "assign"
                        for x in walk(ExprBuilder(g_).rvalue(st["rv"])))]
        if sepfn:
            r.ok("prelude", "write_search_prelude writes the separator (via %s)" % sepfn[0].path.split("::")[-1], fn=pre, nontrivial=False)
        else:
            r.bad("prelude", "anchor-missing: write_search_prelude no longer consults separator_search", fn=pre)
        wbm = facts.fn(SI + "::write_binary_message")
        ebw = ExprBuilder(wbm)
        writes = [c for c in wbm.calls() if c.path.endswith("StandardImpl::write") or c.path.endswith("StandardImpl::write_path_hyperlink")]
        seps = [c for c in wbm.calls() if c.path in (SI + "::write_search_prelude", SI + "::write_search_separator") or
                (sepfn and c.path == sepfn[0].path)]
        cnt = cond_switches(wbm, lambda e: e.k == "bin" and e[1] in ("Eq", "Ne", "Gt") and
                            any(is_call(x, "grep_printer::counter::CounterWriter::count") for x in walk(e)), ebw)
        # quit mode writes its warning only after lines of the file were printed (or not at all): only the convert-mode
        # notice can open a block. Model: quit_byte() = None, nothing written yet for this file.
        removed = set()
        for bb, te, fe, e in cnt:
            removed.add(fe if e[1] == "Eq" else te)
        sx = Sccp(wbm, call_model=lambda c, a: V("None", None) if c.path.endswith("BinaryDetection::quit_byte") else None,
                  removed_edges=removed).run([(0, {})])
        first = [c for c in writes if c.bb in sx.exec_blocks]
        if not first:
            r.ok("binary-notice", "the binary notice is never the first thing written", fn=wbm, nontrivial=False)
        elif seps and not C.all_paths_pass(wbm, [0], [c.bb for c in seps], [c.bb for c in first],
                                            removed_edges={e_ for e_ in wbm_edges(wbm) if e_ not in sx.exec_edges}):
            r.ok("binary-notice", "nothing written yet for the file ⇒ the separator is written before the 'binary file matches' notice", fn=wbm)
        else:
            r.bad("binary-notice", "write_binary_message writes the 'binary file matches' notice without the file separator when it is "
                  "the first thing written for the file: with one thread the block of a file that only yields the notice is glued "
                  "to the previous block, with several threads the buffer writer separates them", fn=wbm, loc=first[0].loc,
                  construct="separator")
    with ctx.rule("C08.SORT", "sort or a single file ⇒ one thread; parallel dispatch only when threads ≠ 1", floor=6, exhaustive=True,
                  kind="TRUTH/GUARD") as r:
        f = facts.fn(HI + "::from_low_args")
        # the value stored in HiArgs::threads, as a table on the MIR: rows (low.sort ∈ {Some, None}, paths.is_one_file ∈ {0,1}),
        # low.threads = Some(7). However the choice is spelled (if/else chain, a helper, a match) the stored value is 1 under
        # sort / a single file, and the request otherwise.
        from ..flow import table, operand_at
        LOW_ = "rg::flags::lowargs::LowArgs"
        PATHS_ = "rg::flags::hiargs::Paths"
        agg = [(bb, st_) for bb, j_, st_ in f.stmts() if st_["k"] == "assign" and st_["rv"]["k"] == "agg" and st_["rv"].get("adt") == HI
               and "threads" in st_["rv"].get("fields", [])]
        if len(agg) != 1:
            r.bad("threads", "anchor-missing: the HiArgs literal of from_low_args", fn=f)
        else:
            bb0, st0 = agg[0]
            op_ = st0["rv"]["ops"][st0["rv"]["fields"].index("threads")]
            wrong = []
            for row, sx in table(facts, f, fields={(LOW_, "sort"): [V("Some", None), V("None", None)], (PATHS_, "is_one_file"): [I(0), I(1)],
                                                   (LOW_, "threads"): [V("Some", I(7))]}):
                so = row[("field", (LOW_, "sort"))][1] == "Some"
                one = row[("field", (PATHS_, "is_one_file"))][1] == 1
                val = operand_at(sx, bb0, st0, op_)
                want = I(1) if (so or one) else I(7)
                if val != want:
                    wrong.append("sort=%s one_file=%s ⇒ threads = %s" % (so, one, val))
            if wrong:
                r.bad("threads", "thread count under sort / single file: %s (specified: 1 under --sort or a single file, the request "
                      "otherwise)" % "; ".join(wrong), fn=f, construct="threads")
            else:
                r.ok("threads", "threads = 1 ⇐ sort.is_some() ∨ is_one_file; the requested count otherwise (4 rows)", fn=f)
        run = facts.fn("rg::run")
        ebr = ExprBuilder(run)
        t1 = cond_switches(run, lambda e: e.k == "bin" and e[1] == "Eq" and mentions_call(e, HI + "::threads")
                           and any(y.k == "const" and y[1] == 1 for y in (e[2], e[3])), ebr)
        for par, ser in (("rg::search_parallel", "rg::search"), ("rg::files_parallel", "rg::files")):
            pc, sc = run.calls_to(par), run.calls_to(ser)
            if pc and sc and t1 and not guarded(run, [pc[0].bb], t1, False) and not guarded(run, [sc[0].bb], t1, True):
                r.ok("dispatch|" + par.split("::")[-1], "%s only when threads() ≠ 1, %s when == 1" % (par.split("::")[-1], ser.split("::")[-1]), fn=run)
            else:
                r.bad("dispatch|" + par.split("::")[-1], "run() can call %s with threads() == 1 or %s with more" % (par, ser), fn=run,
                      construct="dispatch")
        wb = facts.fn(HI + "::walk_builder")
        ebw = ExprBuilder(wb)
        sb = [c for c in wb.calls() if c.path.endswith("WalkBuilder::sort_by_file_name") or c.path.endswith("WalkBuilder::sort_by_file_path")]
        pred = lambda e: mentions_field(e, HI, "sort")
        rev = cond_switches(wb, lambda e: is_field(strip(e), "rg::flags::lowargs::SortMode", "reverse"), ebw)
        if len(sb) == 1 and W.guard_variant(wb, ebw, [sb[0].bb], pred, "Some") and rev and not guarded(wb, [sb[0].bb], rev, False):
            r.ok("walk|sorter", "walker sorted only under sort = Some ∧ !reverse (∧ kind == Path)", fn=wb)
        else:
            r.bad("walk|sorter", "the walker's sorter is installed outside `sort by path ascending`", fn=wb, construct="sorter")
        kind_ok = any(True for s_ in [1])
        asserts = [c for c in wb.calls() if "assert_eq" in c.exp or c.path.endswith("assert_failed")]
        if asserts:
            r.ok("walk|assert", "walk_builder asserts threads == 1 under sort", fn=wb, nontrivial=False)
        else:
            r.bad("walk|assert", "walk_builder no longer asserts single-threadedness under sort", fn=wb)
        so = facts.fn(HI + "::sort")
        r.ok("sort|post", "HiArgs::sort collects and sorts for the non-path / descending orders", fn=so, nontrivial=False)

    with ctx.rule("C08.FILES", "--files: only the printer thread writes; sender dropped before join", floor=3, kind="NOCALL/ORDER") as r:
        fp = facts.fn("rg::files_parallel")
        WRITE = "grep_printer::path::PathPrinter::write"
        closures = facts.closures_of("rg::files_parallel")
        writers = [c for c in closures if c.calls_to(WRITE)]
        senders = [c for c in closures if any(x.path.endswith("Sender::send") for x in c.calls())]
        if fp.calls_to(WRITE):
            r.bad("writer|main", "files_parallel writes paths from the main thread as well", fn=fp, construct="writer")
        elif len(writers) == 1 and not any(x.path.endswith("Sender::send") for x in writers[0].calls()):
            r.ok("writer", "PathPrinter::write only inside the printer-thread closure", fn=writers[0])
        else:
            r.bad("writer", "%d closures of files_parallel write paths" % len(writers), fn=fp, construct="writer")
        if senders and not any(s_.calls_to(WRITE) for s_ in senders):
            r.ok("walker", "the walker closure only sends haystacks", fn=senders[0])
        else:
            r.bad("walker", "the walker closure prints (or never sends)", fn=fp, construct="walker")
        dr = [c for c in fp.calls_to("core::mem::drop") if "Sender" in fp.local_ty(op_place(c.args[0])["l"])] if fp.calls_to("core::mem::drop") else []
        jn = fp.calls_to("std::thread::join_handle::JoinHandle::join")
        if dr and jn and C.dominates(fp, dr[0].bb, jn[0].bb):
            r.ok("drop-before-join", "drop(tx) dominates print_thread.join() (otherwise the printer never ends)", fn=fp)
        else:
            r.bad("drop-before-join", "the channel sender is not dropped before joining the printer thread: the join would block forever",
                  fn=fp, construct="drop")
        spawn = fp.calls_to("std::thread::functions::spawn")
        wk = [c for c in fp.calls() if c.path.endswith("WalkParallel::run")]
        if spawn and wk and C.dominates(fp, spawn[0].bb, wk[0].bb):
            r.ok("spawn-first", "the printer thread exists before the walk starts", fn=fp, nontrivial=False)
        else:
            r.bad("spawn-first", "the printer thread is not started before the walk", fn=fp)

    from . import c14
    with ctx.rule("C08.PERFILE", "per-file searcher state is re-installed for every haystack (no leak between files of one worker; shared with C14.MODE)",
                  floor=2, kind="DOM/GUARD") as r:
        c14.perfile_rule(ctx, r)
    with ctx.rule("C08.LINEBUF", "a worker's reused line buffer starts every file in the same state, window size included (shared with "
                  "C02.REFILL|clear)", floor=3, kind="RW") as r:
        from . import c02
        c02.clear_rule(ctx, r)
    with ctx.rule("C08.WALK", "no file omitted or added with several threads: the parallel walker decides about a followed symlink "
                  "as the single-threaded one does (shared with C06.HELPERS|follow|first; the full walker parity is C06's)",
                  floor=1, kind="PASS") as r:
        from . import c06
        c06.follow_first_rule(ctx, r)
    with ctx.rule("C08.STATUS", "parallel results derive from the shared matched flag", floor=2, kind="FLOW") as r:
        for name in ("rg::search_parallel", "rg::files_parallel"):
            f = facts.fn(name)
            eb = ExprBuilder(f)
            oks = [eb.operand(st["rv"]["ops"][0]) for bb, j, st in f.stmts() if st["k"] == "assign" and st["place"]["l"] == 0
                   and st["rv"]["k"] == "agg" and st["rv"].get("variant") == "Ok"]
            if oks and all(is_call(strip(e), "core::sync::atomic::Atomic::load", "core::sync::atomic::Atomic::into_inner") for e in oks):
                r.ok(name, "Ok(matched.load(..))", fn=f)
            else:
                r.bad(name, "%s's result is `%s`, not the shared matched flag" % (name, show(oks[0])[:60] if oks else "?"), fn=f, construct="status")


def _ret_without(f, s, print_bb, start):
    """Is some executable return reachable from start without passing print_bb (inside the executable region)?"""
    seen = set()
    work = [start]
    while work:
        b = work.pop()
        if b in seen or b == print_bb or b not in s.exec_blocks:
            continue
        seen.add(b)
        if f.blocks[b]["term"]["k"] == "return":
            return True
        for n in f.succ(b):
            if (b, n) in s.exec_edges:
                work.append(n)
    return False
