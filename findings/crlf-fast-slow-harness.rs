use grep_regex::RegexMatcherBuilder;
use grep_matcher::LineTerminator;
use grep_searcher::{SearcherBuilder, Sink, SinkMatch, SinkContext, Searcher};
struct Log(Vec<u64>);
impl Sink for Log {
    type Error = std::io::Error;
    fn matched(&mut self, _: &Searcher, m: &SinkMatch<'_>) -> Result<bool, Self::Error> { self.0.push(m.line_number().unwrap()); Ok(true) }
    fn context(&mut self, _: &Searcher, _: &SinkContext<'_>) -> Result<bool, Self::Error> { Ok(true) }
}
fn main() {
    let pats = ["a", "a$", "^a", "^$", "$", "^", "a?", "x*", "\\B", "a\\B", "\\Ba", "a\\r?$", "\\s$", "a\\s", "[^a]$", "a.", ".$", "\\b", "a\\b", "(?:)", "(?:b)?", "a\\s*$", "\\W", "\\W$", "[^b]"];
    let alphabet: [&[u8]; 7] = [b"a\r\n", b"a\n", b"\r\n", b"\n", b"a\r", b"b\r\n", b"a b\r\n"];
    let (mut bad, mut n) = (0, 0);
    for len in 0..=4u32 { for code in 0..(7u32.pow(len)) {
        let mut hay = Vec::new(); let mut c = code;
        for _ in 0..len { hay.extend_from_slice(alphabet[(c % 7) as usize]); c /= 7; }
        for pat in pats { for word in [false, true] { for invert in [false, true] {
            let m = match RegexMatcherBuilder::new().crlf(true).word(word).build(pat) { Ok(m) => m, Err(_) => continue };
            let run = |passthru: bool, reader: bool| {
                let mut sb = SearcherBuilder::new();
                sb.line_terminator(LineTerminator::crlf()).invert_match(invert).line_number(true).passthru(passthru).binary_detection(grep_searcher::BinaryDetection::none());
                let mut s = sb.build(); let mut log = Log(vec![]);
                if reader { s.search_reader(&m, &hay[..], &mut log).unwrap(); } else { s.search_slice(&m, &hay, &mut log).unwrap(); }
                log.0
            };
            let (fast, slow, fastr) = (run(false, false), run(true, false), run(false, true));
            n += 1;
            if fast != slow || fastr != slow { bad += 1; if bad < 10 { println!("DIFF pat={:?} word={} hay={:?} invert={} fast={:?} fast-reader={:?} slow={:?}", pat, word, String::from_utf8_lossy(&hay), invert, fast, fastr, slow); } }
        }}}
    }}
    println!("cases={} differing={}", n, bad);
}
