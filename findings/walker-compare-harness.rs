// Differential driver: prints the entries of the serial and of the parallel
// walker for one configuration.
//
// usage: hunt [opts] root...
//   --max-depth N  --max-filesize N  --follow  --same-fs  --threads N
//   --filter-name NAME   (entry filter: reject entries whose file name is NAME)
//   --filter-depth N     (entry filter: reject entries at depth N)
//   --no-std             (standard_filters(false))
//   --hidden-off         (hidden(false))
//   --no-require-git
//   --skip-stdout
// Output lines:  S|P <TAB> E|ERR <TAB> depth <TAB> type <TAB> path
use std::sync::{Arc, Mutex};

use ignore::{DirEntry, WalkBuilder, WalkState};

fn ty(e: &DirEntry) -> &'static str {
    match e.file_type() {
        None => "stdin",
        Some(ft) if ft.is_dir() => "d",
        Some(ft) if ft.is_symlink() => "l",
        Some(ft) if ft.is_file() => "f",
        Some(_) => "o",
    }
}

fn line(tag: &str, r: Result<DirEntry, ignore::Error>) -> String {
    match r {
        Ok(e) => format!(
            "{}\tE\t{}\t{}\t{}{}",
            tag,
            e.depth(),
            ty(&e),
            e.path().display(),
            if e.path_is_symlink() { "\t@" } else { "" }
        ) + &(if std::env::var_os("HUNT_META").is_some() {
            match e.metadata() {
                Ok(md) => format!(
                    "\tmeta:len={},symlink={}",
                    md.len(),
                    md.file_type().is_symlink()
                ),
                Err(_) => "\tmeta:err".to_string(),
            }
        } else {
            String::new()
        }),
        Err(err) => {
            format!("{}\tERR\t{:?}\t-\t{}", tag, err.depth(), err)
                .replace('\n', " ")
        }
    }
}

fn main() {
    let mut args = std::env::args().skip(1).peekable();
    let mut roots: Vec<String> = vec![];
    let mut max_depth = None;
    let mut max_filesize = None;
    let mut follow = false;
    let mut same_fs = false;
    let mut threads = 2usize;
    let mut filter_name: Option<String> = None;
    let mut filter_depth: Option<usize> = None;
    let mut no_std = false;
    let mut hidden_off = false;
    let mut no_require_git = false;
    let mut skip_stdout = false;
    let mut only: Option<String> = None;
    while let Some(a) = args.next() {
        match a.as_str() {
            "--max-depth" => {
                max_depth = Some(args.next().unwrap().parse().unwrap())
            }
            "--max-filesize" => {
                max_filesize = Some(args.next().unwrap().parse().unwrap())
            }
            "--follow" => follow = true,
            "--same-fs" => same_fs = true,
            "--threads" => threads = args.next().unwrap().parse().unwrap(),
            "--filter-name" => filter_name = Some(args.next().unwrap()),
            "--filter-depth" => {
                filter_depth = Some(args.next().unwrap().parse().unwrap())
            }
            "--no-std" => no_std = true,
            "--hidden-off" => hidden_off = true,
            "--no-require-git" => no_require_git = true,
            "--skip-stdout" => skip_stdout = true,
            "--only" => only = Some(args.next().unwrap()),
            _ => roots.push(a),
        }
    }
    let mut b = WalkBuilder::new(&roots[0]);
    for r in &roots[1..] {
        b.add(r);
    }
    b.max_depth(max_depth)
        .max_filesize(max_filesize)
        .follow_links(follow)
        .same_file_system(same_fs)
        .threads(threads);
    if no_std {
        b.standard_filters(false);
    }
    if hidden_off {
        b.hidden(false);
    }
    if no_require_git {
        b.require_git(false);
    }
    if skip_stdout {
        b.skip_stdout(true);
    }
    if filter_name.is_some() || filter_depth.is_some() {
        let fname = filter_name.clone();
        let fdepth = filter_depth;
        b.filter_entry(move |e| {
            if let Some(ref n) = fname {
                if e.file_name().to_str() == Some(n.as_str()) {
                    return false;
                }
            }
            if let Some(d) = fdepth {
                if e.depth() == d {
                    return false;
                }
            }
            true
        });
    }
    let mut out = vec![];
    if only.as_deref() != Some("P") {
        for r in b.build() {
            out.push(line("S", r));
        }
    }
    if only.as_deref() != Some("S") {
        let acc = Arc::new(Mutex::new(vec![]));
        b.build_parallel().run(|| {
            let acc = acc.clone();
            Box::new(move |r| {
                acc.lock().unwrap().push(line("P", r));
                WalkState::Continue
            })
        });
        out.extend(acc.lock().unwrap().drain(..));
    }
    for l in out {
        println!("{}", l);
    }
}
