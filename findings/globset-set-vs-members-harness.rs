use globset::{GlobBuilder, GlobSetBuilder};
fn paths() -> Vec<String> {
    let alphabet = ['a', 'b', '.', '/', 'A'];
    let mut out = vec![String::new()];
    let mut frontier = vec![String::new()];
    for _ in 0..7 { let mut next = vec![]; for p in &frontier { for &c in &alphabet { let mut q = p.clone(); q.push(c); next.push(q); } } out.extend(next.iter().cloned()); frontier = next; }
    out
}
fn main() {
    let globs = ["*.a", "**/*.a", "*.a/b", "*.", "**/*.", "a.", "**/a.", "a..", "**/..", "**/.", ".", "..", "*..", "a/*", "**/a", "**/a/b", "*/a/b", "a/**", "a?.b", "*a", "*.a.b", "**/a.*", "a*.", "{a,b}.", "**/[ab].", "**/.a", ".a", "*/.", "a/.", "**/a/.", "a/..", "*.A", "A*", "**/A", "b.a", "**/b.a", "a/b", "/a", "**//a", "a/", "**/a/"];
    let ps = paths();
    let mut total = 0usize; let mut bad = 0usize;
    for &litsep in &[false, true] { for &ci in &[false, true] {
        let built: Vec<_> = globs.iter().map(|g| GlobBuilder::new(g).literal_separator(litsep).case_insensitive(ci).build().unwrap()).collect();
        let mut sb = GlobSetBuilder::new(); for g in &built { sb.add(g.clone()); }
        let set = sb.build().unwrap();
        let singles: Vec<_> = built.iter().map(|g| g.compile_matcher()).collect();
        let mut per_glob = vec![0usize; globs.len()];
        for p in &ps {
            let want: Vec<usize> = singles.iter().enumerate().filter(|(_, m)| m.is_match(p)).map(|(i, _)| i).collect();
            let got = set.matches(p);
            total += 1;
            if got != want || set.is_match(p) != !want.is_empty() {
                bad += 1;
                for i in 0..globs.len() { if got.contains(&i) != want.contains(&i) { per_glob[i] += 1; } }
                if bad <= 6 { println!("litsep={} ci={} path={:?} set={:?} members={:?}", litsep, ci, p, got.iter().map(|&i| globs[i]).collect::<Vec<_>>(), want.iter().map(|&i| globs[i]).collect::<Vec<_>>()); }
            }
        }
        let offenders: Vec<_> = per_glob.iter().enumerate().filter(|(_, &n)| n > 0).map(|(i, &n)| (globs[i], n)).collect();
        println!("litsep={} ci={} offenders={:?}", litsep, ci, offenders);
    }}
    println!("cases={} differing={}", total, bad);
}
