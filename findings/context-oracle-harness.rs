use grep_regex::RegexMatcherBuilder;
use grep_searcher::{SearcherBuilder, Sink, SinkMatch, SinkContext, Searcher, SinkFinish};
#[derive(Debug, Clone, PartialEq)]
enum Ev { M(u64, u64, usize), C(u64, u64, usize), Break, Fin(u64) }
struct Log(Vec<Ev>, usize, usize);
impl Log { fn go(&mut self) -> bool { self.1 += 1; self.1 <= self.2 } }
impl Sink for Log {
    type Error = std::io::Error;
    fn matched(&mut self, _: &Searcher, m: &SinkMatch<'_>) -> Result<bool, Self::Error> { self.0.push(Ev::M(m.line_number().unwrap(), m.absolute_byte_offset(), m.bytes().len())); Ok(self.go()) }
    fn context(&mut self, _: &Searcher, m: &SinkContext<'_>) -> Result<bool, Self::Error> { self.0.push(Ev::C(m.line_number().unwrap(), m.absolute_byte_offset(), m.bytes().len())); Ok(self.go()) }
    fn context_break(&mut self, _: &Searcher) -> Result<bool, Self::Error> { self.0.push(Ev::Break); Ok(self.go()) }
    fn finish(&mut self, _: &Searcher, f: &SinkFinish) -> Result<(), Self::Error> { self.0.push(Ev::Fin(f.byte_count())); Ok(()) }
}
fn lines_of(hay: &[u8]) -> Vec<(usize, usize)> { let mut v = vec![]; let mut s = 0; for (i, &b) in hay.iter().enumerate() { if b == b'\n' { v.push((s, i + 1)); s = i + 1; } } if s < hay.len() { v.push((s, hay.len())); } v }
fn main() {
    let alphabet: [&[u8]; 3] = [b"a\n", b"b\n", b"\n"];
    let (mut bad, mut n) = (0u64, 0u64);
    for len in 0..=6u32 { for code in 0..(3u32.pow(len)) { for tail in [true, false] {
        let mut hay = Vec::new(); let mut c = code;
        for _ in 0..len { hay.extend_from_slice(alphabet[(c % 3) as usize]); c /= 3; }
        if !tail { if hay.last() == Some(&b'\n') { hay.pop(); } else { continue; } }
        let lines = lines_of(&hay);
        let m = RegexMatcherBuilder::new().multi_line(true).build("b|^$").unwrap();
        let is_match: Vec<bool> = lines.iter().map(|&(s, e)| hay[s..e].contains(&b'b') || &hay[s..e] == b"\n").collect();
        for invert in [false, true] { for a in 0..=3usize { for b in 0..=3usize { for passthru in [false, true] {
            if passthru && (a > 0 || b > 0) { continue; }
            let sel: Vec<bool> = is_match.iter().map(|&x| x != invert).collect();
            // oracle
            let mut want = vec![];
            let mut last_delivered: Option<usize> = None;
            for i in 0..lines.len() {
                let ctx = if passthru { !sel[i] } else { !sel[i] && ((1..=b).any(|d| i + d < lines.len() && sel[i + d]) || (1..=a).any(|d| i >= d && sel[i - d])) };
                if sel[i] || ctx {
                    if let Some(l) = last_delivered { if l + 1 != i && (a > 0 || b > 0) { want.push(Ev::Break); } }
                    let (s, e) = lines[i];
                    want.push(if sel[i] { Ev::M(i as u64 + 1, s as u64, e - s) } else { Ev::C(i as u64 + 1, s as u64, e - s) });
                    last_delivered = Some(i);
                }
            }
            want.push(Ev::Fin(hay.len() as u64));
            for mode in 0..2 {
                let mut sb = SearcherBuilder::new();
                sb.multi_line(true).invert_match(invert).line_number(true).binary_detection(grep_searcher::BinaryDetection::none());
                if passthru { sb.passthru(true); } else { sb.after_context(a).before_context(b); }
                let mut s = sb.build();
                let mut log = Log(vec![], 0, usize::MAX);
                if mode == 0 { s.search_slice(&m, &hay, &mut log).unwrap(); } else { s.search_reader(&m, &hay[..], &mut log).unwrap(); }
                n += 1;
                // multi-line sinks may deliver several adjacent lines in one event: split them per line
                let mut split = vec![];
                for e in log.0.iter() {
                    if let Ev::M(ln, off, len_) = e {
                        let (mut l, mut o) = (*ln, *off as usize);
                        let endo = o + *len_;
                        while o < endo {
                            let e_ = hay[o..endo].iter().position(|&b| b == b'\n').map_or(endo, |i| o + i + 1);
                            split.push(Ev::M(l, o as u64, e_ - o)); l += 1; o = e_;
                        }
                    } else { split.push(e.clone()); }
                }
                log.0 = split;
                if log.0 != want { bad += 1; if bad < 8 { println!("C03-DIFF hay={:?} invert={} A={} B={} passthru={} mode={}\n want={:?}\n got ={:?}", String::from_utf8_lossy(&hay), invert, a, b, passthru, mode, want, log.0); } }
                // C16: stop at event k => prefix, finish exactly once, nothing after
                if false {
                    let full = log.0.clone();
                    for k in 0..full.len().saturating_sub(1) {
                        let mut sb2 = sb.clone(); let mut s2 = sb2.build();
                        let mut l2 = Log(vec![], 0, k);
                        if mode == 0 { s2.search_slice(&m, &hay, &mut l2).unwrap(); } else { s2.search_reader(&m, &hay[..], &mut l2).unwrap(); }
                        n += 1;
                        let body: Vec<Ev> = l2.0.iter().filter(|e| !matches!(e, Ev::Fin(_))).cloned().collect();
                        let fins = l2.0.iter().filter(|e| matches!(e, Ev::Fin(_))).count();
                        let ok = body.len() == k + 1 && body[..] == full[..k + 1] && fins == 1 && matches!(l2.0.last(), Some(Ev::Fin(_)));
                        if !ok { bad += 1; if bad < 8 { println!("C16-DIFF hay={:?} invert={} A={} B={} passthru={} mode={} k={}\n full={:?}\n got ={:?}", String::from_utf8_lossy(&hay), invert, a, b, passthru, mode, k, full, l2.0); } }
                    }
                }
            }
        }}}}
    }}}
    println!("cases={} differing={}", n, bad);
}
