use grep_regex::RegexMatcher;
use grep_searcher::{SearcherBuilder, Sink, SinkMatch, SinkContext, Searcher, SinkFinish};
struct Log(Vec<String>, usize);
impl Log { fn go(&mut self) -> bool { if self.1 == 0 { return false } self.1 -= 1; true } }
impl Sink for Log {
    type Error = std::io::Error;
    fn matched(&mut self, _: &Searcher, m: &SinkMatch<'_>) -> Result<bool, Self::Error> { self.0.push(format!("M{}:{}", m.line_number().unwrap(), String::from_utf8_lossy(m.bytes()).trim_end())); Ok(self.go()) }
    fn context(&mut self, _: &Searcher, m: &SinkContext<'_>) -> Result<bool, Self::Error> { self.0.push(format!("C{}:{}", m.line_number().unwrap(), String::from_utf8_lossy(m.bytes()).trim_end())); Ok(self.go()) }
    fn context_break(&mut self, _: &Searcher) -> Result<bool, Self::Error> { self.0.push("--".into()); Ok(self.go()) }
    fn finish(&mut self, _: &Searcher, f: &SinkFinish) -> Result<(), Self::Error> { self.0.push(format!("F{}", f.byte_count())); Ok(()) }
}
struct OneByte<'a>(&'a [u8]);
impl<'a> std::io::Read for OneByte<'a> { fn read(&mut self, b: &mut [u8]) -> std::io::Result<usize> { if self.0.is_empty() || b.is_empty() {return Ok(0)} b[0]=self.0[0]; self.0=&self.0[1..]; Ok(1) } }
fn run(hay: &[u8], mode: u8, invert: bool, a: usize, b: usize, snm: bool, k: usize) -> Vec<String> {
    let m = RegexMatcher::new_line_matcher("b").unwrap();
    let mut s = SearcherBuilder::new().invert_match(invert).stop_on_nonmatch(snm).line_number(true).after_context(a).before_context(b).build();
    let mut log = Log(vec![], k);
    match mode { 0 => s.search_slice(&m, hay, &mut log).unwrap(), 1 => s.search_reader(&m, hay, &mut log).unwrap(), _ => s.search_reader(&m, OneByte(hay), &mut log).unwrap() }
    log.0
}
fn main() {
    let mut bad = 0; let mut n = 0;
    for len in 1..=7u32 { for bits in 0..(1u32<<len) {
        let mut hay = Vec::new();
        for i in 0..len { hay.extend_from_slice(if bits>>i & 1 == 1 { b"b\n" } else { b"a\n" }); }
        for invert in [false, true] { for a in 0..3 { for b in 0..3 {
          for snm in [false, true] { for k in [0usize,1,2,3,5,1000] {
            let strip = |v: Vec<String>| -> Vec<String> { if snm || k < 1000 { v.into_iter().filter(|x| !x.starts_with("F")).collect() } else { v } };
            let r0 = strip(run(&hay, 0, invert, a, b, snm, k)); let r1 = strip(run(&hay, 1, invert, a, b, snm, k)); let r2 = strip(run(&hay, 2, invert, a, b, snm, k));
            n += 1;
            if r0 != r1 || r1 != r2 { bad += 1; if bad < 6 { println!("DIFF snm={} {:?} invert={} A={} B={}\n slice={:?}\n reader={:?}\n 1byte={:?}", snm, String::from_utf8_lossy(&hay), invert, a, b, r0, r1, r2); } }
          }}
        }}}
    }}
    println!("cases={} differing={}", n, bad);
}
