use grep_regex::RegexMatcherBuilder;
use grep_searcher::{SearcherBuilder, Sink, SinkMatch, SinkContext, Searcher, SinkFinish};
struct Log(Vec<String>);
impl Sink for Log {
    type Error = std::io::Error;
    fn matched(&mut self, _: &Searcher, m: &SinkMatch<'_>) -> Result<bool, Self::Error> { self.0.push(format!("M{:?}@{}:{:?}", m.line_number(), m.absolute_byte_offset(), String::from_utf8_lossy(m.bytes()))); Ok(true) }
    fn context(&mut self, _: &Searcher, m: &SinkContext<'_>) -> Result<bool, Self::Error> { self.0.push(format!("C{:?}@{}:{:?}", m.line_number(), m.absolute_byte_offset(), String::from_utf8_lossy(m.bytes()))); Ok(true) }
    fn context_break(&mut self, _: &Searcher) -> Result<bool, Self::Error> { self.0.push("--".into()); Ok(true) }
    fn finish(&mut self, _: &Searcher, f: &SinkFinish) -> Result<(), Self::Error> { self.0.push(format!("F{}", f.byte_count())); Ok(()) }
}
struct Chunk<'a>(&'a [u8], usize);
impl<'a> std::io::Read for Chunk<'a> { fn read(&mut self, b: &mut [u8]) -> std::io::Result<usize> { let n = self.1.min(self.0.len()).min(b.len()); b[..n].copy_from_slice(&self.0[..n]); self.0=&self.0[n..]; Ok(n) } }
#[derive(Clone, Copy, Debug)]
struct Cfg { snm: bool, invert: bool, a: usize, b: usize, passthru: bool, ml: bool, crlf: bool, ln: bool, heap: Option<usize> }
fn run(pat: &str, hay: &[u8], mode: u8, c: Cfg) -> Result<Vec<String>, String> {
    let m = RegexMatcherBuilder::new().line_terminator(Some(b'\n')).crlf(c.crlf).build(pat).map_err(|e| e.to_string())?;
    let mut sb = SearcherBuilder::new();
    sb.stop_on_nonmatch(c.snm).invert_match(c.invert).line_number(c.ln).multi_line(c.ml).binary_detection(grep_searcher::BinaryDetection::none());
    if c.passthru { sb.passthru(true); } else { sb.after_context(c.a).before_context(c.b); }
    if c.crlf { sb.line_terminator(grep_matcher::LineTerminator::crlf()); }
    if mode >= 1 { sb.heap_limit(c.heap); }
    let mut s = sb.build();
    let mut log = Log(vec![]);
    let r = match mode { 0 => s.search_slice(&m, hay, &mut log), 1 => s.search_reader(&m, hay, &mut log), 2 => s.search_reader(&m, Chunk(hay, 1), &mut log), _ => s.search_reader(&m, Chunk(hay, 3), &mut log) };
    r.map_err(|e| e.to_string())?;
    Ok(log.0)
}
fn main() {
    let pats = ["b", "^$", "b$", "^b", "a|b", "x*", "\\bb", "b\\b", "."];
    let alphabet: [&[u8]; 4] = [b"a\n", b"b\n", b"\n", b"ab b\n"];
    let mut bad = 0; let mut n = 0;
    for len in 0..=4u32 { for code in 0..(4u32.pow(len)) { for tail in [true, false] {
        let mut hay = Vec::new(); let mut c = code;
        for _ in 0..len { hay.extend_from_slice(alphabet[(c % 4) as usize]); c /= 4; }
        if !tail { if hay.last() == Some(&b'\n') { hay.pop(); } else { continue; } }
        for pat in pats { for invert in [false, true] { for (a, b, passthru) in [(0,0,false),(1,0,false),(0,1,false),(2,1,false),(0,0,true)] { for ml in [false, true] { for crlf in [false] { for ln in [true] { for snm in [false, true] { for heap in [None, Some(5usize), Some(7), Some(12)] {
            let cfg = Cfg { snm, invert, a, b, passthru, ml, crlf, ln, heap };
            let r0 = run(pat, &hay, 0, cfg);
            for mode in 1..=3u8 {
                let r = run(pat, &hay, mode, cfg);
                n += 1;
                let strip = |v: Result<Vec<String>, String>| v.map(|v| if snm { v.into_iter().filter(|x| !x.starts_with('F')).collect::<Vec<_>>() } else { v });
                let (r, r0) = (strip(r), strip(r0.clone()));
                if r.is_err() { continue; }
                if r != r0 { bad += 1; if bad < 12 { println!("DIFF pat={:?} hay={:?} mode={} {:?}\n slice={:?}\n other={:?}", pat, String::from_utf8_lossy(&hay), mode, cfg, r0, r); } }
            }
        }}}}}}}}
    }}}
    println!("cases={} differing={}", n, bad);
}
