// cp HUNT/json_reuse.rs crates/printer/examples/ && cargo run --offline -p grep-printer --example json_reuse
use grep_printer::JSONBuilder;
use grep_regex::RegexMatcher;
use grep_searcher::SearcherBuilder;

fn main() {
    let matcher = RegexMatcher::new("foo").unwrap();
    let mut printer = JSONBuilder::new().build(vec![]);
    let mut searcher = SearcherBuilder::new().build();
    {
        let mut sink = printer.sink(&matcher);
        // first search: one match -> begin, match, end
        searcher.search_slice(&matcher, b"foo\n", &mut sink).unwrap();
        // second search on the same sink: no match -> should print nothing
        searcher.search_slice(&matcher, b"bar\n", &mut sink).unwrap();
        // third search: a match -> should print begin, match, end
        searcher.search_slice(&matcher, b"x\nfoo\n", &mut sink).unwrap();
    }
    // Variant: the first search on a sink fails mid-stream (no `end`, as the
    // contract says); a later search without matches must stay silent.
    struct Failing(usize);
    impl std::io::Read for Failing {
        fn read(&mut self, buf: &mut [u8]) -> std::io::Result<usize> {
            let data = b"foo\n";
            if self.0 >= data.len() {
                return Err(std::io::Error::new(std::io::ErrorKind::Other, "boom"));
            }
            let n = std::cmp::min(buf.len(), data.len() - self.0);
            buf[..n].copy_from_slice(&data[self.0..self.0 + n]);
            self.0 += n;
            Ok(n)
        }
    }
    let mut printer2 = JSONBuilder::new().build(vec![]);
    {
        let mut sink = printer2.sink(&matcher);
        let r = searcher.search_reader(&matcher, Failing(0), &mut sink);
        assert!(r.is_err());
        searcher.search_slice(&matcher, b"bar\n", &mut sink).unwrap();
    }
    let out2 = String::from_utf8(printer2.into_inner()).unwrap();
    let kinds2: Vec<&str> = out2
        .lines()
        .map(|l| l.split("\"type\":\"").nth(1).unwrap().split('"').next().unwrap())
        .collect();
    println!("after a failed search: {:?} (expected [\"begin\", \"match\"])", kinds2);
    let out = String::from_utf8(printer.into_inner()).unwrap();
    let mut kinds = vec![];
    for l in out.lines() {
        let k = l.split("\"type\":\"").nth(1).unwrap().split('"').next().unwrap();
        kinds.push(k.to_string());
    }
    println!("{:?}", kinds);
    let expected = ["begin", "match", "end", "begin", "match", "end"];
    if kinds != expected {
        println!("MISMATCH: expected {:?}", expected);
        std::process::exit(1);
    }
}
