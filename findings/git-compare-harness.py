#!/usr/bin/env python3
"""Investigative: compare `rg --files` with git's view of ignored files on generated repositories."""
import os, random, subprocess, shutil, sys, itertools
RG = "/repo/target/debug/rg"
random.seed(int(sys.argv[1]) if len(sys.argv) > 1 else 1)
N = int(sys.argv[2]) if len(sys.argv) > 2 else 300
names = ["a", "b", "ab", "a.c", "b.c", ".h", "a b", "a-b", "c", "A", "a.", "x"]
dirs = ["d", "e", "d/e", "d/d", "e/d", ".g", "d/.g"]
pieces = ["a", "b", "*", "?", "**", "/", "[ab]", "[!a]", "[a-c]", ".c", "d", "e", "*.c", "\\*", "\\ ", "!", "a b", ".", "A", "x", "#", "\\#", "\\!"]
def gen_pattern(files=(), dirs_=()):
    if files and random.random() < 0.8:
        path = random.choice(sorted(files) + [d for d in dirs_ if d])
        comps = path.split("/")
        k = random.random()
        base = comps[-1]
        def wild(b):
            r_ = random.random()
            if r_ < 0.2 and len(b) > 0: i = random.randrange(len(b)); return b[:i] + "?" + b[i+1:]
            if r_ < 0.4 and len(b) > 0: i = random.randrange(len(b)); return b[:i] + "*"
            if r_ < 0.5 and len(b) > 0: return "*" + b[1:]
            if r_ < 0.6 and len(b) > 0: return "[" + b[0] + "x]" + b[1:]
            if r_ < 0.7 and len(b) > 0: return "[!" + ("b" if b[0] != "b" else "a") + "]" + b[1:]
            if r_ < 0.75 and len(b) > 0: return "[a-z]" + b[1:] if b[0].isalpha() else b
            if r_ < 0.8: return b.replace(" ", "\\ ")
            return b
        if k < 0.3: p = wild(base)
        elif k < 0.5: p = "/".join(comps[:-1] + [wild(base)])
        elif k < 0.6: p = "**/" + wild(base)
        elif k < 0.7 and len(comps) > 1: p = comps[0] + "/**/" + wild(base)
        elif k < 0.8 and len(comps) > 1: p = "/".join(comps[:-1]) + "/**"
        elif k < 0.9 and len(comps) > 1: p = wild(comps[0]) + "/" + "/".join(comps[1:])
        else: p = "*/" + wild(base)
        if random.random() < 0.25: p = "!" + p
        if random.random() < 0.2: p = "/" + p.lstrip("!") if not p.startswith("!") else "!/" + p[1:]
        if random.random() < 0.15: p = p + "/"
        if random.random() < 0.05: p = p + "  "
        return p
    n = random.randint(1, 4)
    p = "".join(random.choice(pieces) for _ in range(n))
    if random.random() < 0.2: p = "!" + p
    return p
diffs = 0; IGN = 0
seen = set()
for it in range(N):
    root = "/tmp/snm/gitcmp/r"
    shutil.rmtree(root, ignore_errors=True); os.makedirs(root)
    subprocess.run(["git", "init", "-q", root], check=True)
    alld = [""] + random.sample(dirs, random.randint(1, 5))
    files = set()
    for d in alld:
        os.makedirs(os.path.join(root, d), exist_ok=True)
    for d in set(alld) | {os.path.dirname(x) for x in alld}:
        os.makedirs(os.path.join(root, d), exist_ok=True)
        for nm in random.sample(names, random.randint(1, 5)):
            p = os.path.join(d, nm)
            if not os.path.isdir(os.path.join(root, p)):
                open(os.path.join(root, p), "w").write("x\n"); files.add(p)
    ig = {}
    for d in random.sample(alld, random.randint(1, min(3, len(alld)))):
        sub = {f_[len(d)+1:] if d else f_ for f_ in files if (f_.startswith(d + '/') if d else True)}
        subd = {x[len(d)+1:] if d else x for x in alld if x and (x.startswith(d + '/') if d else True)}
        lines = [gen_pattern(sub, sorted(subd)) for _ in range(random.randint(1, 5))]
        ig[d] = lines
        open(os.path.join(root, d, ".gitignore"), "w").write("\n".join(lines) + "\n")
    g = subprocess.run(["git", "-C", root, "ls-files", "-o", "--exclude-standard", "-z"], stdout=subprocess.PIPE)
    gitset = {x.decode() for x in g.stdout.split(b"\0") if x}
    subroot = random.choice([x for x in alld if x] + [""]) if random.random() < 0.6 else ""
    if subroot:
        if subprocess.run(["git", "-C", root, "check-ignore", "-q", subroot]).returncode == 0:
            subroot = ""   # an explicitly named root is always searched, git is no oracle below an ignored directory
    if subroot:
        gitset = {x for x in gitset if x.startswith(subroot + "/")}
    r = subprocess.run([RG, "--files", "--hidden", "--no-ignore-global", "-0", "-j1", "--no-messages", "-g", "!.git/"] + ([subroot] if subroot else []), cwd=root, stdout=subprocess.PIPE, stderr=subprocess.PIPE, stdin=subprocess.DEVNULL)
    rgset = {x.decode() for x in r.stdout.split(b"\0") if x}
    IGN += len(files | {".gitignore"}) - len(gitset) if True else 0
    if gitset != rgset:
        sig = tuple(sorted(l for ls in ig.values() for l in ls))
        diffs += 1
        if diffs <= 12:
            print("DIFF", it, {k: v for k, v in ig.items()}, "only-git(not ignored by git):", sorted(gitset - rgset), "only-rg:", sorted(rgset - gitset), "stderr:", r.stderr.decode()[:100])
print("repos", N, "differing", diffs, "ignored-by-git total", IGN)
