#!/usr/bin/env python3
"""Investigative: compare `rg --files` with git's view of ignored files on generated repositories."""
import os, random, subprocess, shutil, sys, itertools
RG = "/repo/target/debug/rg"
random.seed(int(sys.argv[1]) if len(sys.argv) > 1 else 1)
N = int(sys.argv[2]) if len(sys.argv) > 2 else 300
names = ["a", "b", "ab", "a.c", "b.c", ".h", "a b", "a-b", "c", "A", "a.", "x"]
dirs = ["d", "e", "d/e", "d/d", "e/d", ".g", "d/.g"]
pieces = ["a", "b", "*", "?", "**", "/", "[ab]", "[!a]", "[a-c]", ".c", "d", "e", "*.c", "\\*", "\\ ", "!", "a b", ".", "A", "x", "#", "\\#", "\\!"]
def gen_pattern():
    n = random.randint(1, 4)
    p = "".join(random.choice(pieces) for _ in range(n))
    if random.random() < 0.2: p = "!" + p
    if random.random() < 0.2: p = "/" + p
    if random.random() < 0.2: p = p + "/"
    if random.random() < 0.1: p = "**/" + p
    if random.random() < 0.1: p = p + "/**"
    if random.random() < 0.05: p = p + " "
    return p
diffs = 0; IGN = 0
seen = set()
for it in range(N):
    root = "/tmp/snm/gitcmp/r"
    shutil.rmtree(root, ignore_errors=True); os.makedirs(root)
    subprocess.run(["git", "init", "-q", root], check=True)
    alld = [""] + random.sample(dirs, random.randint(1, 5))
    files = set()
    for d in alld:
        os.makedirs(os.path.join(root, d), exist_ok=True)
    for d in set(alld) | {os.path.dirname(x) for x in alld}:
        os.makedirs(os.path.join(root, d), exist_ok=True)
        for nm in random.sample(names, random.randint(1, 5)):
            p = os.path.join(d, nm)
            if not os.path.isdir(os.path.join(root, p)):
                open(os.path.join(root, p), "w").write("x\n"); files.add(p)
    ig = {}
    for d in random.sample(alld, random.randint(1, min(3, len(alld)))):
        lines = [gen_pattern() for _ in range(random.randint(1, 4))]
        ig[d] = lines
        open(os.path.join(root, d, ".gitignore"), "w").write("\n".join(lines) + "\n")
    g = subprocess.run(["git", "-C", root, "ls-files", "-o", "--exclude-standard", "-z"], stdout=subprocess.PIPE)
    gitset = {x.decode() for x in g.stdout.split(b"\0") if x}
    r = subprocess.run([RG, "--files", "--hidden", "--no-ignore-global", "--no-ignore-parent", "-0", "-j1", "--no-messages", "-g", "!.git/"], cwd=root, stdout=subprocess.PIPE, stderr=subprocess.PIPE, stdin=subprocess.DEVNULL)
    rgset = {x.decode() for x in r.stdout.split(b"\0") if x}
    IGN += len(files | {".gitignore"}) - len(gitset) if True else 0
    if gitset != rgset:
        sig = tuple(sorted(l for ls in ig.values() for l in ls))
        diffs += 1
        if diffs <= 12:
            print("DIFF", it, {k: v for k, v in ig.items()}, "only-git(not ignored by git):", sorted(gitset - rgset), "only-rg:", sorted(rgset - gitset), "stderr:", r.stderr.decode()[:100])
print("repos", N, "differing", diffs, "ignored-by-git total", IGN)
