use grep_regex::RegexMatcherBuilder;
use grep_matcher::Matcher;
use grep_searcher::{SearcherBuilder, Sink, SinkMatch, SinkContext, Searcher, SinkFinish};
struct Log(Vec<(u64, Vec<u8>)>, Vec<String>);
impl Sink for Log {
    type Error = std::io::Error;
    fn matched(&mut self, _: &Searcher, m: &SinkMatch<'_>) -> Result<bool, Self::Error> { self.0.push((m.line_number().unwrap(), m.bytes().to_vec())); self.1.push(format!("M{}@{}+{}", m.line_number().unwrap(), m.absolute_byte_offset(), m.bytes().len())); Ok(true) }
    fn context(&mut self, _: &Searcher, m: &SinkContext<'_>) -> Result<bool, Self::Error> { self.1.push(format!("C{}@{}+{}", m.line_number().unwrap(), m.absolute_byte_offset(), m.bytes().len())); Ok(true) }
    fn context_break(&mut self, _: &Searcher) -> Result<bool, Self::Error> { self.1.push("--".into()); Ok(true) }
    fn finish(&mut self, _: &Searcher, f: &SinkFinish) -> Result<(), Self::Error> { self.1.push(format!("F{}", f.byte_count())); Ok(()) }
}
fn lines_of(hay: &[u8]) -> Vec<(usize, usize)> { let mut v = vec![]; let mut s = 0; for (i, &b) in hay.iter().enumerate() { if b == b'\n' { v.push((s, i + 1)); s = i + 1; } } if s < hay.len() { v.push((s, hay.len())); } v }
fn main() {
    let pats = ["b", "b\\n", "\\n", "b\\na", "^", "$", "^$", "\\bb", "b\\b", "a\\n\\b", "(?s:.)", "(?s)a.*b", "a*", "\\n\\n", "b$", "^b\\n", "\\nb", "(?m)^a$\\n", "x*\\n", "b|\\n\\n", "\\z", "\\A", "a\\nb|b\\na"];
    let alphabet: [&[u8]; 4] = [b"a\n", b"b\n", b"\n", b"ab b\n"];
    let (mut bad, mut n) = (0, 0);
    for len in 0..=5u32 { for code in 0..(4u32.pow(len)) { for tail in [true, false] {
        let mut hay = Vec::new(); let mut c = code;
        for _ in 0..len { hay.extend_from_slice(alphabet[(c % 4) as usize]); c /= 4; }
        if !tail { if hay.last() == Some(&b'\n') { hay.pop(); } else { continue; } }
        let lines = lines_of(&hay);
        for pat in pats {
            let m = RegexMatcherBuilder::new().multi_line(true).build(pat).unwrap();
            // oracle: lines overlapped by successive leftmost non-overlapping matches over the whole input
            let mut hit = vec![false; lines.len()];
            m.find_iter(&hay, |mt| {
                for (i, &(s, e)) in lines.iter().enumerate() {
                    let overl = if mt.start() == mt.end() { (mt.start() >= s && mt.start() < e) || (mt.start() == hay.len() && e == hay.len() && i + 1 == lines.len() && hay.last() != Some(&b'\n')) } else { mt.start() < e && mt.end() > s };
                    if overl { hit[i] = true; }
                }
                true
            }).unwrap();
            for invert in [false, true] {
                let mut s = SearcherBuilder::new().multi_line(true).invert_match(invert).line_number(true).build();
                let mut log = Log(vec![], vec![]);
                s.search_slice(&m, &hay, &mut log).unwrap();
                let mut got = vec![false; lines.len()];
                let mut dup = false;
                for (ln, bytes) in &log.0 { let k = bytes.iter().filter(|&&b| b == b'\n').count() + if bytes.last() != Some(&b'\n') { 1 } else { 0 }; for j in 0..k { let idx = *ln as usize - 1 + j; if idx < got.len() { if got[idx] { dup = true; } got[idx] = true; } else { dup = true; } } }
                let want: Vec<bool> = hit.iter().map(|&h| h != invert).collect();
                n += 1;
                if got != want || dup { bad += 1; if bad < 15 { println!("DIFF pat={:?} hay={:?} invert={} want={:?} got={:?} dup={} log={:?}", pat, String::from_utf8_lossy(&hay), invert, want, got, dup, log.1); } }
                // reader parity
                let mut log2 = Log(vec![], vec![]);
                s.search_reader(&m, &hay[..], &mut log2).unwrap();
                if log2.1 != log.1 { bad += 1; if bad < 15 { println!("READER-DIFF pat={:?} hay={:?} invert={} slice={:?} reader={:?}", pat, String::from_utf8_lossy(&hay), invert, log.1, log2.1); } }
            }
        }
    }}}
    println!("cases={} differing={}", n, bad);
}
