use grep_regex::RegexMatcherBuilder;
use grep_searcher::{SearcherBuilder, sinks::UTF8};
struct Intr<'a>(&'a [u8], usize, usize);
impl<'a> std::io::Read for Intr<'a> {
    fn read(&mut self, b: &mut [u8]) -> std::io::Result<usize> {
        self.1 += 1;
        if self.1 == self.2 { return Err(std::io::Error::from(std::io::ErrorKind::Interrupted)); }
        let n = 2.min(self.0.len()).min(b.len()); b[..n].copy_from_slice(&self.0[..n]); self.0 = &self.0[n..]; Ok(n)
    }
}
fn main() {
    let hay = b"a\nb\nc\nb\n";
    let mut bad = 0;
    for ml in [false, true] { for at in 1..6 {
        let m = if ml { RegexMatcherBuilder::new().multi_line(true).build("b\\n").unwrap() } else { RegexMatcherBuilder::new().line_terminator(Some(b'\n')).build("b").unwrap() };
        let mut s = SearcherBuilder::new().multi_line(ml).build();
        let mut out = vec![];
        let r = s.search_reader(&m, Intr(hay, 0, at), UTF8(|n, _| { out.push(n); Ok(true) }));
        println!("multi_line={} interrupted at read #{}: result={:?} lines={:?}", ml, at, r.as_ref().map(|_| ()).map_err(|e| e.to_string()), out);
        if r.is_err() || out != vec![2, 4] { bad += 1; }
    }}
    std::process::exit(if bad > 0 { 1 } else { 0 });
}
