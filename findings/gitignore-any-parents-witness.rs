// Witness for two defects of Gitignore::matched_path_or_any_parents.
// Run: cp HUNT/mpoap_witness.rs crates/ignore/tests/ && cargo test --offline -p ignore --test mpoap_witness; rm crates/ignore/tests/mpoap_witness.rs
// Oracle: `git check-ignore --no-index` in a repository with the same .gitignore
// (see HUNT/mpoap_git_oracle.sh).
use ignore::gitignore::GitignoreBuilder;

fn gi(lines: &[&str]) -> ignore::gitignore::Gitignore {
    let mut b = GitignoreBuilder::new("/ROOT");
    for l in lines {
        b.add_line(None, l).unwrap();
    }
    b.build().unwrap()
}

// `*/` ignores directories only. git: `git check-ignore --no-index c` (c a
// regular file at the top level) prints nothing. The loop over parents ends
// up matching the *empty* path (the root itself) as a directory, and `**/*`
// (the translation of `*/`) matches the empty string.
#[test]
fn top_level_file_is_not_ignored_by_dir_only_star() {
    let g = gi(&["*/"]);
    assert!(g.matched("/ROOT/c", false).is_none());
    assert!(
        !g.matched_path_or_any_parents("/ROOT/c", false).is_ignore(),
        "`*/` must not ignore the regular file c at the top level"
    );
}

#[test]
fn top_level_file_is_not_ignored_by_anchored_dir_only_star() {
    let g = gi(&["/*/"]);
    assert!(
        !g.matched_path_or_any_parents("/ROOT/c", false).is_ignore(),
        "`/*/` must not ignore the regular file c at the top level"
    );
    let g = gi(&["**/"]);
    assert!(
        !g.matched_path_or_any_parents("/ROOT/abc", false).is_ignore(),
        "`**/` must not ignore the regular file abc at the top level"
    );
}

// gitignore(5): "It is not possible to re-include a file if a parent
// directory of that file is excluded."  git check-ignore --no-index p/keep
// reports `.gitignore:1:*/  p/keep` (ignored). The method returns the
// whitelist match of the leaf without looking at the parents.
#[test]
fn whitelisted_leaf_below_ignored_directory_stays_ignored() {
    let g = gi(&["*/", "!keep"]);
    assert!(g.matched_path_or_any_parents("/ROOT/p", true).is_ignore());
    assert!(
        g.matched_path_or_any_parents("/ROOT/p/keep", false).is_ignore(),
        "p/ is ignored, so p/keep cannot be re-included"
    );
}
