#!/bin/bash
# usage: extract.sh <repo_dir> <out_dir> [extra cargo args...]
# Runs the rgfacts driver over the workspace in <repo_dir> with a fresh target dir.
set -u
REPO="$1"; OUT="$2"; shift 2
DRV=/verif/driver/target/release/rgfacts
if [ ! -x "$DRV" ]; then
  (cd /verif/driver && CARGO_NET_OFFLINE=true cargo +nightly build --release --offline >/dev/null 2>&1) || { echo "driver build failed" >&2; exit 2; }
fi
mkdir -p "$OUT" /verif/.cache
TGT=$(mktemp -d /verif/.cache/tgt.XXXXXX)
trap 'rm -rf "$TGT"' EXIT
cd "$REPO" || exit 2
LD_LIBRARY_PATH=$(rustc +nightly --print sysroot)/lib \
RUSTFLAGS="-Zmir-opt-level=0 -Awarnings" \
RUSTC_WORKSPACE_WRAPPER="$DRV" RGFACTS_OUT="$OUT" \
CARGO_TARGET_DIR="$TGT" CARGO_NET_OFFLINE=true \
cargo +nightly check --offline --workspace "$@" > "$OUT/cargo.log" 2>&1
rc=$?
if [ $rc -ne 0 ]; then tail -30 "$OUT/cargo.log" >&2; fi
exit $rc
