// Typed HIR expression tree → JSON. Generic serializer; the analyser's
// wiring / truth-table rules read it.
use crate::json::J;
use crate::names;
use rustc_ast::LitKind;
use rustc_hir as hir;
use rustc_hir::def::{DefKind, Res};
use rustc_middle::ty::{self, TyCtxt, TypeckResults};

pub struct HirDump<'tcx> {
    pub tcx: TyCtxt<'tcx>,
    pub tr: &'tcx TypeckResults<'tcx>,
}

impl<'tcx> HirDump<'tcx> {
    fn ln(&self, span: rustc_span::Span) -> J {
        let sp = span.source_callsite();
        if sp.is_dummy() {
            return J::Num(0);
        }
        let pos = self.tcx.sess.source_map().lookup_char_pos(sp.lo());
        J::Num(pos.line as i128)
    }

    fn res(&self, res: Res, v: &mut Vec<(&'static str, J)>) {
        match res {
            Res::Local(hid) => {
                v.push(("k", J::s("local")));
                v.push(("name", J::s(self.tcx.hir_name(hid).to_string())));
                v.push(("id", J::Num(hid.local_id.as_u32() as i128)));
            }
            Res::Def(kind, did) => {
                v.push(("k", J::s("path")));
                v.push(("def", J::s(names::pretty(self.tcx, did))));
                v.push(("dk", J::s(format!("{:?}", kind))));
                if let Some(tr) = match kind {
                    DefKind::AssocFn | DefKind::AssocConst { .. } => self.tcx.trait_of_assoc(did),
                    _ => None,
                } {
                    v.push(("trait", J::s(names::pretty(self.tcx, tr))));
                }
            }
            Res::SelfCtor(_) | Res::SelfTyAlias { .. } | Res::SelfTyParam { .. } => {
                v.push(("k", J::s("path")));
                v.push(("def", J::s("Self")));
            }
            other => {
                v.push(("k", J::s("path")));
                v.push(("def", J::s(format!("{:?}", other))));
            }
        }
    }

    fn lit(&self, l: &hir::Lit, negated: bool) -> J {
        match &l.node {
            LitKind::Bool(b) => J::Bool(*b),
            LitKind::Int(n, _) => {
                let v = n.get() as i128;
                J::Num(if negated { -v } else { v })
            }
            LitKind::Str(s, _) => J::s(s.to_string()),
            LitKind::Char(c) => J::s(c.to_string()),
            LitKind::Byte(b) => J::Num(*b as i128),
            LitKind::ByteStr(bs, _) => J::s(String::from_utf8_lossy(bs.as_byte_str()).to_string()),
            other => J::s(format!("{:?}", other)),
        }
    }

    pub fn pat(&self, p: &hir::Pat<'tcx>) -> J {
        let mut v: Vec<(&'static str, J)> = Vec::new();
        match &p.kind {
            hir::PatKind::Wild => v.push(("k", J::s("wild"))),
            hir::PatKind::Binding(_, hid, ident, sub) => {
                v.push(("k", J::s("bind")));
                v.push(("name", J::s(ident.name.to_string())));
                v.push(("id", J::Num(hid.local_id.as_u32() as i128)));
                if let Some(s) = sub {
                    v.push(("sub", self.pat(s)));
                }
            }
            hir::PatKind::TupleStruct(qp, pats, _) => {
                v.push(("k", J::s("ts")));
                let r = self.tr.qpath_res(qp, p.hir_id);
                v.push(("def", J::s(self.res_name(r))));
                v.push(("pats", J::Arr(pats.iter().map(|x| self.pat(x)).collect())));
            }
            hir::PatKind::Struct(qp, fields, _) => {
                v.push(("k", J::s("struct")));
                let r = self.tr.qpath_res(qp, p.hir_id);
                v.push(("def", J::s(self.res_name(r))));
                let fs: Vec<J> = fields
                    .iter()
                    .map(|f| {
                        J::obj(vec![
                            ("name", J::s(f.ident.name.to_string())),
                            ("pat", self.pat(f.pat)),
                        ])
                    })
                    .collect();
                v.push(("fields", J::Arr(fs)));
            }
            hir::PatKind::Or(pats) => {
                v.push(("k", J::s("or")));
                v.push(("pats", J::Arr(pats.iter().map(|x| self.pat(x)).collect())));
            }
            hir::PatKind::Tuple(pats, _) => {
                v.push(("k", J::s("tuple")));
                v.push(("pats", J::Arr(pats.iter().map(|x| self.pat(x)).collect())));
            }
            hir::PatKind::Ref(inner, ..) => {
                v.push(("k", J::s("ref")));
                v.push(("pat", self.pat(inner)));
            }
            hir::PatKind::Box(inner) | hir::PatKind::Deref(inner) => {
                v.push(("k", J::s("ref")));
                v.push(("pat", self.pat(inner)));
            }
            hir::PatKind::Expr(pe) => match &pe.kind {
                hir::PatExprKind::Lit { lit, negated } => {
                    v.push(("k", J::s("lit")));
                    v.push(("v", self.lit(lit, *negated)));
                }
                hir::PatExprKind::Path(qp) => {
                    v.push(("k", J::s("path")));
                    let r = self.tr.qpath_res(qp, pe.hir_id);
                    v.push(("def", J::s(self.res_name(r))));
                }
            },
            hir::PatKind::Range(..) => v.push(("k", J::s("range"))),
            hir::PatKind::Slice(..) => v.push(("k", J::s("slice"))),
            _ => v.push(("k", J::s("other"))),
        }
        J::obj(v)
    }

    fn res_name(&self, r: Res) -> String {
        match r {
            Res::Def(_, did) => names::pretty(self.tcx, did),
            Res::SelfCtor(_) | Res::SelfTyAlias { .. } => "Self".to_string(),
            other => format!("{:?}", other),
        }
    }

    fn block(&self, b: &hir::Block<'tcx>) -> J {
        let mut stmts = Vec::new();
        for s in b.stmts {
            match &s.kind {
                hir::StmtKind::Let(l) => {
                    let mut v = vec![("k", J::s("let")), ("pat", self.pat(l.pat))];
                    if let Some(i) = l.init {
                        v.push(("init", self.expr(i)));
                    }
                    if let Some(e) = l.els {
                        v.push(("els", self.block(e)));
                    }
                    v.push(("ln", self.ln(s.span)));
                    stmts.push(J::obj(v));
                }
                hir::StmtKind::Expr(e) => stmts.push(self.expr(e)),
                hir::StmtKind::Semi(e) => stmts.push(J::obj(vec![
                    ("k", J::s("semi")),
                    ("e", self.expr(e)),
                    ("ln", self.ln(s.span)),
                ])),
                hir::StmtKind::Item(_) => {}
            }
        }
        let mut v = vec![("k", J::s("block")), ("stmts", J::Arr(stmts))];
        if let Some(e) = b.expr {
            v.push(("expr", self.expr(e)));
        }
        J::obj(v)
    }

    fn adt_of(&self, t: ty::Ty<'tcx>) -> String {
        let mut t = t;
        loop {
            match t.kind() {
                ty::Ref(_, inner, _) => t = *inner,
                ty::Adt(def, args) if def.is_box() => match args.get(0).and_then(|a| a.as_type()) {
                    Some(i) => t = i,
                    None => break,
                },
                _ => break,
            }
        }
        names::self_ty_name(self.tcx, t)
    }

    pub fn expr(&self, e: &hir::Expr<'tcx>) -> J {
        let mut v: Vec<(&'static str, J)> = Vec::new();
        match &e.kind {
            hir::ExprKind::DropTemps(inner) | hir::ExprKind::Use(inner, _) => {
                return self.expr(inner)
            }
            hir::ExprKind::Type(inner, _) => return self.expr(inner),
            hir::ExprKind::Path(qp) => {
                let r = self.tr.qpath_res(qp, e.hir_id);
                self.res(r, &mut v);
                let t = self.tr.expr_ty(e);
                if !matches!(t.kind(), ty::FnDef(..)) {
                    v.push(("ty", J::s(names::ty_str(self.tcx, t))));
                }
            }
            hir::ExprKind::Call(f, args) => {
                v.push(("k", J::s("call")));
                v.push(("f", self.expr(f)));
                v.push(("args", J::Arr(args.iter().map(|a| self.expr(a)).collect())));
            }
            hir::ExprKind::MethodCall(seg, recv, args, _) => {
                v.push(("k", J::s("mcall")));
                v.push(("name", J::s(seg.ident.name.to_string())));
                if let Some(did) = self.tr.type_dependent_def_id(e.hir_id) {
                    v.push(("def", J::s(names::pretty(self.tcx, did))));
                    if let Some(tr) = self.tcx.trait_of_assoc(did) {
                        v.push(("trait", J::s(names::pretty(self.tcx, tr))));
                    }
                }
                v.push(("recv_ty", J::s(self.adt_of(self.tr.expr_ty_adjusted(recv)))));
                v.push(("recv", self.expr(recv)));
                v.push(("args", J::Arr(args.iter().map(|a| self.expr(a)).collect())));
            }
            hir::ExprKind::Field(base, ident) => {
                v.push(("k", J::s("field")));
                v.push(("name", J::s(ident.name.to_string())));
                v.push(("of", J::s(self.adt_of(self.tr.expr_ty_adjusted(base)))));
                v.push(("e", self.expr(base)));
            }
            hir::ExprKind::Lit(l) => {
                v.push(("k", J::s("lit")));
                v.push(("v", self.lit(l, false)));
            }
            hir::ExprKind::Unary(op, a) => {
                v.push(("k", J::s("un")));
                v.push(("op", J::s(format!("{:?}", op))));
                if self.tr.is_method_call(e) {
                    v.push(("ovl", J::Bool(true)));
                }
                v.push(("a", self.expr(a)));
            }
            hir::ExprKind::Binary(op, a, b) => {
                v.push(("k", J::s("bin")));
                v.push(("op", J::s(format!("{:?}", op.node))));
                if self.tr.is_method_call(e) {
                    if let Some(did) = self.tr.type_dependent_def_id(e.hir_id) {
                        v.push(("ovl", J::s(names::pretty(self.tcx, did))));
                    }
                }
                v.push(("a", self.expr(a)));
                v.push(("b", self.expr(b)));
            }
            hir::ExprKind::Cast(a, _) => {
                v.push(("k", J::s("cast")));
                v.push(("a", self.expr(a)));
                v.push(("ty", J::s(names::ty_str(self.tcx, self.tr.expr_ty(e)))));
            }
            hir::ExprKind::Let(l) => {
                v.push(("k", J::s("letx")));
                v.push(("pat", self.pat(l.pat)));
                v.push(("init", self.expr(l.init)));
            }
            hir::ExprKind::If(c, t, el) => {
                v.push(("k", J::s("if")));
                v.push(("c", self.expr(c)));
                v.push(("t", self.expr(t)));
                if let Some(x) = el {
                    v.push(("e", self.expr(x)));
                }
            }
            hir::ExprKind::Loop(b, _, src, _) => {
                v.push(("k", J::s("loop")));
                v.push(("src", J::s(format!("{:?}", src))));
                v.push(("body", self.block(b)));
            }
            hir::ExprKind::Match(scrut, arms, src) => {
                v.push(("k", J::s("match")));
                v.push(("src", J::s(format!("{:?}", src))));
                v.push(("scrut", self.expr(scrut)));
                v.push(("scrut_ty", J::s(self.adt_of(self.tr.expr_ty_adjusted(scrut)))));
                let a: Vec<J> = arms
                    .iter()
                    .map(|arm| {
                        let mut av = vec![("pat", self.pat(arm.pat))];
                        if let Some(g) = arm.guard {
                            av.push(("guard", self.expr(g)));
                        }
                        av.push(("body", self.expr(arm.body)));
                        av.push(("ln", self.ln(arm.span)));
                        J::obj(av)
                    })
                    .collect();
                v.push(("arms", J::Arr(a)));
            }
            hir::ExprKind::Closure(c) => {
                v.push(("k", J::s("closure")));
                v.push(("def", J::s(names::pretty(self.tcx, c.def_id.to_def_id()))));
            }
            hir::ExprKind::Block(b, _) => return {
                let mut bj = self.block(b);
                if let J::Obj(ref mut o) = bj {
                    o.push(("ln", self.ln(e.span)));
                }
                bj
            },
            hir::ExprKind::Assign(l, r, _) => {
                v.push(("k", J::s("assign")));
                v.push(("l", self.expr(l)));
                v.push(("r", self.expr(r)));
            }
            hir::ExprKind::AssignOp(op, l, r) => {
                v.push(("k", J::s("assignop")));
                v.push(("op", J::s(format!("{:?}", op.node))));
                v.push(("l", self.expr(l)));
                v.push(("r", self.expr(r)));
            }
            hir::ExprKind::Index(a, i, _) => {
                v.push(("k", J::s("index")));
                v.push(("a", self.expr(a)));
                v.push(("i", self.expr(i)));
            }
            hir::ExprKind::AddrOf(_, m, a) => {
                v.push(("k", J::s("addr")));
                v.push(("mut", J::Bool(m.is_mut())));
                v.push(("a", self.expr(a)));
            }
            hir::ExprKind::Break(_, x) => {
                v.push(("k", J::s("break")));
                if let Some(x) = x {
                    v.push(("e", self.expr(x)));
                }
            }
            hir::ExprKind::Continue(_) => v.push(("k", J::s("continue"))),
            hir::ExprKind::Ret(x) => {
                v.push(("k", J::s("ret")));
                if let Some(x) = x {
                    v.push(("e", self.expr(x)));
                }
            }
            hir::ExprKind::Tup(xs) => {
                v.push(("k", J::s("tup")));
                v.push(("xs", J::Arr(xs.iter().map(|a| self.expr(a)).collect())));
            }
            hir::ExprKind::Array(xs) => {
                v.push(("k", J::s("array")));
                v.push(("xs", J::Arr(xs.iter().map(|a| self.expr(a)).collect())));
            }
            hir::ExprKind::Repeat(x, _) => {
                v.push(("k", J::s("repeat")));
                v.push(("a", self.expr(x)));
            }
            hir::ExprKind::Struct(qp, fields, tail) => {
                v.push(("k", J::s("struct")));
                v.push(("adt", J::s(self.adt_of(self.tr.expr_ty(e)))));
                if let Res::Def(DefKind::Variant, did) = self.tr.qpath_res(qp, e.hir_id) {
                    v.push(("variant", J::s(self.tcx.item_name(did).to_string())));
                }
                let fs: Vec<J> = fields
                    .iter()
                    .map(|f| {
                        J::obj(vec![
                            ("name", J::s(f.ident.name.to_string())),
                            ("e", self.expr(f.expr)),
                        ])
                    })
                    .collect();
                v.push(("fields", J::Arr(fs)));
                if let hir::StructTailExpr::Base(b) = tail {
                    v.push(("base", self.expr(b)));
                }
            }
            other => {
                v.push(("k", J::s("other")));
                let s = format!("{:?}", other);
                v.push(("str", J::s(s.chars().take(60).collect::<String>())));
            }
        }
        v.push(("ln", self.ln(e.span)));
        let m = names::macro_chain(e.span);
        if !m.is_empty() {
            v.push(("exp", J::Arr(m.into_iter().map(J::s).collect())));
        }
        J::obj(v)
    }
}
