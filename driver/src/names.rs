// Stable, generics-free names for items and readable type strings.
use rustc_hir::def::DefKind;
use rustc_hir::definitions::DefPathData;
use rustc_middle::ty::{self, Ty, TyCtxt};
use rustc_span::def_id::DefId;
use rustc_span::{ExpnKind, Span};

pub fn no_trim<R>(f: impl FnOnce() -> R) -> R {
    ty::print::with_no_trimmed_paths!(f())
}

pub fn ty_str<'tcx>(_tcx: TyCtxt<'tcx>, t: Ty<'tcx>) -> String {
    no_trim(|| t.to_string())
}

/// Name of an impl's self type: the ADT's pretty path when it is an ADT,
/// otherwise the type string.
pub fn self_ty_name<'tcx>(tcx: TyCtxt<'tcx>, t: Ty<'tcx>) -> String {
    match t.kind() {
        ty::Adt(def, _) => pretty(tcx, def.did()),
        _ => ty_str(tcx, t),
    }
}

/// crate::mod::Type::method, <Type as Trait>::method, parent::{closure#n}.
pub fn pretty<'tcx>(tcx: TyCtxt<'tcx>, did: DefId) -> String {
    let key = tcx.def_key(did);
    let parent = match key.parent {
        None => return tcx.crate_name(did.krate).to_string(),
        Some(idx) => DefId { krate: did.krate, index: idx },
    };
    match key.disambiguated_data.data {
        DefPathData::Impl => {
            let st = tcx.type_of(did).instantiate_identity().skip_norm_wip();
            let sn = self_ty_name(tcx, st);
            if let Some(tr) = tcx.impl_opt_trait_ref(did) {
                let tr = tr.instantiate_identity().skip_norm_wip();
                format!("<{} as {}>", sn, pretty(tcx, tr.def_id))
            } else {
                sn
            }
        }
        DefPathData::Closure => {
            format!("{}::{{closure#{}}}", pretty(tcx, parent), key.disambiguated_data.disambiguator)
        }
        DefPathData::Ctor => pretty(tcx, parent),
        ref d => {
            let nm = match d.get_opt_name() {
                Some(s) => s.to_string(),
                None => format!("{{{:?}#{}}}", d, key.disambiguated_data.disambiguator),
            };
            // fields/variants of an ADT and assoc items hang off their parent.
            let _ = DefKind::Fn;
            format!("{}::{}", pretty(tcx, parent), nm)
        }
    }
}

pub fn loc<'tcx>(tcx: TyCtxt<'tcx>, span: Span) -> String {
    let sp = span.source_callsite();
    if sp.is_dummy() {
        return "?".to_string();
    }
    let sm = tcx.sess.source_map();
    let pos = sm.lookup_char_pos(sp.lo());
    let name = match &pos.file.name {
        rustc_span::FileName::Real(r) => match r.local_path() {
            Some(p) => p.display().to_string(),
            None => format!("{:?}", r),
        },
        other => format!("{:?}", other),
    };
    format!("{}:{}:{}", name, pos.line, pos.col.0 + 1)
}

/// Names of the macros whose expansion produced this span, innermost first.
pub fn macro_chain(span: Span) -> Vec<String> {
    let mut out = Vec::new();
    let mut sp = span;
    let mut guard = 0;
    while sp.from_expansion() && guard < 32 {
        let data = sp.ctxt().outer_expn_data();
        if let ExpnKind::Macro(_, name) = data.kind {
            out.push(name.to_string());
        }
        sp = data.call_site;
        guard += 1;
    }
    out
}

pub fn desugaring(span: Span) -> Option<String> {
    let mut sp = span;
    let mut guard = 0;
    while sp.from_expansion() && guard < 32 {
        let data = sp.ctxt().outer_expn_data();
        if let ExpnKind::Desugaring(k) = data.kind {
            return Some(format!("{:?}", k));
        }
        sp = data.call_site;
        guard += 1;
    }
    None
}
