// rgfacts: rustc_private driver that dumps, for one crate, the facts the
// static analyser in /verif/sa needs: per body MIR (CFG, assignments, calls
// with resolved callees, switch targets with variant names), the typed HIR
// expression tree of the same body, and crate tables (ADTs, impls).
//
// Used as RUSTC_WORKSPACE_WRAPPER under `cargo +nightly check`: argv[1] is the
// real rustc path and is dropped. One JSON file per crate, written with a
// single write, into $RGFACTS_OUT.
#![feature(rustc_private)]
#![allow(clippy::all)]

extern crate rustc_abi;
extern crate rustc_ast;
extern crate rustc_driver;
extern crate rustc_hir;
extern crate rustc_interface;
extern crate rustc_middle;
extern crate rustc_span;

mod hirdump;
mod json;
mod names;

use json::J;
use rustc_driver::Compilation;
use rustc_hir::def::DefKind;
use rustc_middle::mir::{self, Operand, Rvalue, StatementKind, TerminatorKind};
use rustc_middle::ty::{self, TyCtxt};
use rustc_span::def_id::{DefId, LocalDefId};

struct Cb;

impl rustc_driver::Callbacks for Cb {
    fn after_analysis<'tcx>(
        &mut self,
        _c: &rustc_interface::interface::Compiler,
        tcx: TyCtxt<'tcx>,
    ) -> Compilation {
        if let Ok(out) = std::env::var("RGFACTS_OUT") {
            dump_crate(tcx, &out);
        }
        Compilation::Continue
    }
}

fn main() {
    let mut args: Vec<String> = std::env::args().collect();
    // RUSTC_WORKSPACE_WRAPPER: argv[1] is the rustc binary.
    if args.len() > 1 && (args[1].ends_with("rustc") || args[1].contains("/rustc")) {
        args.remove(1);
    }
    let code = rustc_driver::catch_with_exit_code(|| {
        rustc_driver::run_compiler(&args, &mut Cb);
    });
    std::process::exit(match code {
        c if c == std::process::ExitCode::SUCCESS => 0,
        _ => 1,
    });
}

pub struct Cx<'tcx> {
    pub tcx: TyCtxt<'tcx>,
}

fn dump_crate<'tcx>(tcx: TyCtxt<'tcx>, out: &str) {
    let krate = tcx.crate_name(rustc_span::def_id::LOCAL_CRATE).to_string();
    if krate == "build_script_build" {
        return;
    }
    let cx = Cx { tcx };
    let mut fns = Vec::new();
    for ldid in tcx.hir_body_owners() {
        let did = ldid.to_def_id();
        let kind = tcx.def_kind(did);
        match kind {
            DefKind::Fn | DefKind::AssocFn | DefKind::Closure => {}
            _ => continue,
        }
        if tcx.is_constructor(did) {
            continue;
        }
        fns.push(dump_fn(&cx, ldid, kind));
    }
    let mut adts = Vec::new();
    let mut impls = Vec::new();
    for ldid in tcx.hir_crate_items(()).definitions() {
        let did = ldid.to_def_id();
        match tcx.def_kind(did) {
            DefKind::Struct | DefKind::Enum | DefKind::Union => {
                adts.push(dump_adt(&cx, did));
            }
            DefKind::Impl { .. } => {
                let self_ty = tcx.type_of(did).instantiate_identity().skip_norm_wip();
                let tr = tcx
                    .impl_opt_trait_ref(did)
                    .map(|t| names::pretty(tcx, t.instantiate_identity().skip_norm_wip().def_id));
                let items: Vec<J> = tcx
                    .associated_item_def_ids(did)
                    .iter()
                    .map(|d| J::s(names::pretty(tcx, *d)))
                    .collect();
                impls.push(J::obj(vec![
                    ("self_ty", J::s(names::ty_str(tcx, self_ty))),
                    ("trait", tr.map(J::s).unwrap_or(J::Null)),
                    ("items", J::Arr(items)),
                    ("loc", J::s(names::loc(tcx, tcx.def_span(did)))),
                ]));
            }
            _ => {}
        }
    }
    let doc = J::obj(vec![
        ("crate", J::s(krate.clone())),
        ("fns", J::Arr(fns)),
        ("adts", J::Arr(adts)),
        ("impls", J::Arr(impls)),
    ]);
    let mut s = String::with_capacity(1 << 24);
    doc.write(&mut s);
    let path = format!("{}/{}.json", out, krate);
    let tmp = format!("{}.{}.tmp", path, std::process::id());
    std::fs::write(&tmp, s).expect("write facts");
    std::fs::rename(&tmp, &path).expect("rename facts");
}

fn dump_adt<'tcx>(cx: &Cx<'tcx>, did: DefId) -> J {
    let tcx = cx.tcx;
    let adt = tcx.adt_def(did);
    let mut variants = Vec::new();
    for (vi, v) in adt.variants().iter_enumerated() {
        let discr = if adt.is_enum() {
            J::Num(adt.discriminant_for_variant(tcx, vi).val as i128)
        } else {
            J::Null
        };
        let fields: Vec<J> = v
            .fields
            .iter()
            .map(|f| {
                let t = tcx.type_of(f.did).instantiate_identity().skip_norm_wip();
                J::obj(vec![
                    ("name", J::s(f.name.to_string())),
                    ("ty", J::s(names::ty_str(tcx, t))),
                ])
            })
            .collect();
        variants.push(J::obj(vec![
            ("name", J::s(v.name.to_string())),
            ("discr", discr),
            ("fields", J::Arr(fields)),
        ]));
    }
    J::obj(vec![
        ("path", J::s(names::pretty(tcx, did))),
        (
            "kind",
            J::s(if adt.is_enum() {
                "enum"
            } else if adt.is_union() {
                "union"
            } else {
                "struct"
            }),
        ),
        ("variants", J::Arr(variants)),
        ("loc", J::s(names::loc(tcx, tcx.def_span(did)))),
    ])
}

fn dump_fn<'tcx>(cx: &Cx<'tcx>, ldid: LocalDefId, kind: DefKind) -> J {
    let tcx = cx.tcx;
    let did = ldid.to_def_id();
    let mut o: Vec<(&'static str, J)> = Vec::new();
    o.push(("path", J::s(names::pretty(tcx, did))));
    o.push((
        "id",
        J::s(format!(
            "{}{}",
            tcx.crate_name(did.krate),
            tcx.def_path(did).to_string_no_crate_verbose()
        )),
    ));
    o.push((
        "kind",
        J::s(match kind {
            DefKind::Fn => "fn",
            DefKind::AssocFn => "method",
            DefKind::Closure => "closure",
            _ => "other",
        }),
    ));
    o.push(("name", J::s(tcx.opt_item_name(did).map(|s| s.to_string()).unwrap_or_default())));
    o.push(("loc", J::s(names::loc(tcx, tcx.def_span(did)))));
    if matches!(kind, DefKind::Closure) {
        o.push(("parent", J::s(names::pretty(tcx, tcx.parent(did)))));
        let caps: Vec<J> = tcx
            .closure_captures(ldid)
            .iter()
            .map(|c| J::s(c.var_ident.name.to_string()))
            .collect();
        o.push(("captures", J::Arr(caps)));
    } else {
        let vis = tcx.visibility(did);
        o.push(("pub", J::Bool(vis.is_public())));
        if let Some(imp) = tcx.impl_of_assoc(did) {
            let self_ty = tcx.type_of(imp).instantiate_identity().skip_norm_wip();
            o.push(("impl_self", J::s(names::self_ty_name(tcx, self_ty))));
            if let Some(tr) = tcx.impl_opt_trait_ref(imp) {
                let tr = tr.instantiate_identity().skip_norm_wip();
                o.push(("impl_trait", J::s(names::pretty(tcx, tr.def_id))));
            }
        } else if let Some(tr) = tcx.trait_of_assoc(did) {
            o.push(("in_trait", J::s(names::pretty(tcx, tr))));
        }
        let sig = tcx.fn_sig(did).instantiate_identity().skip_norm_wip().skip_binder();
        let ins: Vec<J> = sig.inputs().iter().map(|t| J::s(names::ty_str(tcx, *t))).collect();
        o.push(("inputs", J::Arr(ins)));
        o.push(("output", J::s(names::ty_str(tcx, sig.output()))));
    }
    // MIR
    let body = tcx.optimized_mir(did);
    o.push(("mir", dump_mir(cx, did, body)));
    // HIR
    if let Some(hbody) = tcx.hir_maybe_body_owned_by(ldid) {
        let tr = tcx.typeck(ldid);
        let hd = hirdump::HirDump { tcx, tr };
        let params: Vec<J> = hbody.params.iter().map(|p| hd.pat(p.pat)).collect();
        o.push(("hir_params", J::Arr(params)));
        o.push(("hir", hd.expr(hbody.value)));
    }
    J::obj(o)
}

fn dump_mir<'tcx>(cx: &Cx<'tcx>, did: DefId, body: &mir::Body<'tcx>) -> J {
    let tcx = cx.tcx;
    let tenv = ty::TypingEnv::post_analysis(tcx, did);
    let mut locals = Vec::new();
    let mut names_of: Vec<Option<String>> = vec![None; body.local_decls.len()];
    for vdi in &body.var_debug_info {
        if let mir::VarDebugInfoContents::Place(p) = &vdi.value {
            if p.projection.is_empty() {
                names_of[p.local.as_usize()] = Some(vdi.name.to_string());
            }
        }
    }
    for (l, d) in body.local_decls.iter_enumerated() {
        locals.push(J::obj(vec![
            ("ty", J::s(names::ty_str(tcx, d.ty))),
            (
                "name",
                names_of[l.as_usize()].clone().map(J::s).unwrap_or(J::Null),
            ),
        ]));
    }
    let mut blocks = Vec::new();
    for (_bb, data) in body.basic_blocks.iter_enumerated() {
        let mut stmts = Vec::new();
        for st in &data.statements {
            match &st.kind {
                StatementKind::Assign(b) => {
                    let (place, rv) = &**b;
                    let mut v = vec![
                        ("k", J::s("assign")),
                        ("place", place_j(cx, body, place)),
                        ("rv", rvalue_j(cx, body, tenv, rv)),
                    ];
                    span_fields(tcx, st.source_info.span, &mut v);
                    stmts.push(J::obj(v));
                }
                StatementKind::SetDiscriminant { place, variant_index } => {
                    let pty = place.ty(&body.local_decls, tcx).ty;
                    let vname = match pty.kind() {
                        ty::Adt(def, _) => def.variant(*variant_index).name.to_string(),
                        _ => format!("{}", variant_index.as_usize()),
                    };
                    let mut v = vec![
                        ("k", J::s("setdiscr")),
                        ("place", place_j(cx, body, place)),
                        ("variant", J::s(vname)),
                    ];
                    span_fields(tcx, st.source_info.span, &mut v);
                    stmts.push(J::obj(v));
                }
                _ => {}
            }
        }
        let term = data.terminator();
        let mut t: Vec<(&'static str, J)> = Vec::new();
        match &term.kind {
            TerminatorKind::Goto { target } => {
                t.push(("k", J::s("goto")));
                t.push(("t", J::Num(target.as_usize() as i128)));
            }
            TerminatorKind::SwitchInt { discr, targets } => {
                t.push(("k", J::s("switch")));
                t.push(("op", operand_j(cx, body, tenv, discr)));
                t.push(("ty", J::s(names::ty_str(tcx, discr.ty(&body.local_decls, tcx)))));
                let ts: Vec<J> = targets
                    .iter()
                    .map(|(v, bb)| J::Arr(vec![J::Num(v as i128), J::Num(bb.as_usize() as i128)]))
                    .collect();
                t.push(("targets", J::Arr(ts)));
                t.push(("otherwise", J::Num(targets.otherwise().as_usize() as i128)));
            }
            TerminatorKind::Return => t.push(("k", J::s("return"))),
            TerminatorKind::Unreachable => t.push(("k", J::s("unreachable"))),
            TerminatorKind::UnwindResume => t.push(("k", J::s("resume"))),
            TerminatorKind::UnwindTerminate(_) => t.push(("k", J::s("abort"))),
            TerminatorKind::Drop { place, target, .. } => {
                t.push(("k", J::s("drop")));
                t.push(("place", place_j(cx, body, place)));
                t.push(("t", J::Num(target.as_usize() as i128)));
            }
            TerminatorKind::Call { func, args, destination, target, .. } => {
                t.push(("k", J::s("call")));
                t.push(("func", callee_j(cx, body, tenv, func)));
                let a: Vec<J> = args.iter().map(|a| operand_j(cx, body, tenv, &a.node)).collect();
                t.push(("args", J::Arr(a)));
                t.push(("dest", place_j(cx, body, destination)));
                t.push((
                    "t",
                    target.map(|b| J::Num(b.as_usize() as i128)).unwrap_or(J::Null),
                ));
            }
            TerminatorKind::TailCall { func, args, .. } => {
                t.push(("k", J::s("tailcall")));
                t.push(("func", callee_j(cx, body, tenv, func)));
                let a: Vec<J> = args.iter().map(|a| operand_j(cx, body, tenv, &a.node)).collect();
                t.push(("args", J::Arr(a)));
            }
            TerminatorKind::Assert { cond, expected, target, .. } => {
                t.push(("k", J::s("assert")));
                t.push(("cond", operand_j(cx, body, tenv, cond)));
                t.push(("expected", J::Bool(*expected)));
                t.push(("t", J::Num(target.as_usize() as i128)));
            }
            other => {
                t.push(("k", J::s("other")));
                t.push(("str", J::s(format!("{:?}", other))));
                let succ: Vec<J> =
                    term.successors().map(|b| J::Num(b.as_usize() as i128)).collect();
                t.push(("succ", J::Arr(succ)));
            }
        }
        span_fields(tcx, term.source_info.span, &mut t);
        blocks.push(J::obj(vec![
            ("stmts", J::Arr(stmts)),
            ("term", J::obj(t)),
            ("cleanup", J::Bool(data.is_cleanup)),
        ]));
    }
    J::obj(vec![
        ("argc", J::Num(body.arg_count as i128)),
        ("locals", J::Arr(locals)),
        ("blocks", J::Arr(blocks)),
    ])
}

fn span_fields<'tcx>(tcx: TyCtxt<'tcx>, span: rustc_span::Span, v: &mut Vec<(&'static str, J)>) {
    v.push(("loc", J::s(names::loc(tcx, span))));
    let m = names::macro_chain(span);
    if !m.is_empty() {
        v.push(("exp", J::Arr(m.into_iter().map(J::s).collect())));
    }
    if let Some(d) = names::desugaring(span) {
        v.push(("desugar", J::s(d)));
    }
}

fn place_j<'tcx>(cx: &Cx<'tcx>, body: &mir::Body<'tcx>, place: &mir::Place<'tcx>) -> J {
    let tcx = cx.tcx;
    let mut proj = Vec::new();
    let mut pty = mir::PlaceTy::from_ty(body.local_decls[place.local].ty);
    for elem in place.projection.iter() {
        match elem {
            mir::ProjectionElem::Deref => proj.push(J::s("deref")),
            mir::ProjectionElem::Field(idx, _) => {
                let (owner, name) = match pty.ty.kind() {
                    ty::Adt(def, _) => {
                        let vi = pty.variant_index.unwrap_or(rustc_abi::FIRST_VARIANT);
                        let v = def.variant(vi);
                        let nm = v.fields[idx].name.to_string();
                        let owner = if def.is_enum() {
                            format!("{}::{}", names::pretty(tcx, def.did()), v.name)
                        } else {
                            names::pretty(tcx, def.did())
                        };
                        (owner, nm)
                    }
                    ty::Closure(cdid, _) => {
                        let nm = cdid
                            .as_local()
                            .and_then(|l| {
                                tcx.closure_captures(l)
                                    .get(idx.as_usize())
                                    .map(|c| c.var_ident.name.to_string())
                            })
                            .unwrap_or_else(|| format!("{}", idx.as_usize()));
                        (format!("{{closure}}{}", names::pretty(tcx, *cdid)), nm)
                    }
                    ty::Tuple(_) => ("(tuple)".to_string(), format!("{}", idx.as_usize())),
                    _ => ("?".to_string(), format!("{}", idx.as_usize())),
                };
                proj.push(J::obj(vec![("f", J::s(name)), ("of", J::s(owner))]));
            }
            mir::ProjectionElem::Downcast(name, vi) => {
                let nm = name.map(|s| s.to_string()).unwrap_or_else(|| match pty.ty.kind() {
                    ty::Adt(def, _) => def.variant(vi).name.to_string(),
                    _ => format!("{}", vi.as_usize()),
                });
                proj.push(J::obj(vec![("dc", J::s(nm))]));
            }
            mir::ProjectionElem::Index(l) => {
                proj.push(J::obj(vec![("idx", J::Num(l.as_usize() as i128))]))
            }
            mir::ProjectionElem::ConstantIndex { offset, from_end, .. } => {
                proj.push(J::obj(vec![
                    ("cidx", J::Num(offset as i128)),
                    ("from_end", J::Bool(from_end)),
                ]))
            }
            mir::ProjectionElem::Subslice { .. } => proj.push(J::s("subslice")),
            _ => proj.push(J::s("other")),
        }
        pty = pty.projection_ty(tcx, elem);
    }
    J::obj(vec![
        ("l", J::Num(place.local.as_usize() as i128)),
        ("p", J::Arr(proj)),
    ])
}

fn const_j<'tcx>(
    cx: &Cx<'tcx>,
    tenv: ty::TypingEnv<'tcx>,
    c: &mir::ConstOperand<'tcx>,
) -> J {
    let tcx = cx.tcx;
    let cty = c.const_.ty();
    let mut v: Vec<(&'static str, J)> = Vec::new();
    v.push(("ty", J::s(names::ty_str(tcx, cty))));
    match cty.kind() {
        ty::FnDef(fdid, args) => {
            v.push(("fn", fn_ref_j(cx, tenv, *fdid, args)));
        }
        ty::Closure(cdid, _) => {
            v.push(("closure", J::s(names::pretty(tcx, *cdid))));
        }
        _ => {
            if cty.is_integral() || cty.is_bool() || cty.is_char() {
                if let Some(si) = c.const_.try_eval_scalar_int(tcx, tenv) {
                    let size = si.size();
                    let bits = si.to_bits(size);
                    let val: i128 = if cty.is_signed() {
                        size.sign_extend(bits) as i128
                    } else {
                        bits as i128
                    };
                    v.push(("val", J::Num(val)));
                }
            }
            if let Some(sd) = c.check_static_ptr(tcx) {
                v.push(("static", J::s(names::pretty(tcx, sd))));
            }
            let mut s = names::no_trim(|| format!("{}", c.const_));
            if let mir::Const::Unevaluated(uv, _) = c.const_ {
                if let Some(pidx) = uv.promoted {
                    // summarise the promoted body: the constants it is built from
                    let bodies = tcx.promoted_mir(uv.def);
                    if let Some(pb) = bodies.get(pidx) {
                        let mut inner: Vec<String> = Vec::new();
                        let mut vals: Vec<i128> = Vec::new();
                        for bb in pb.basic_blocks.iter() {
                            for st in &bb.statements {
                                if let StatementKind::Assign(b) = &st.kind {
                                    collect_consts(cx, tenv, &b.1, &mut inner, &mut vals);
                                }
                            }
                        }
                        v.push(("promoted", J::Num(pidx.as_usize() as i128)));
                        if vals.len() == 1 && inner.len() == 1 {
                            v.push(("val", J::Num(vals[0])));
                        }
                        s = format!("promoted{{{}}}", inner.join(", "));
                    }
                }
            }
            v.push(("str", J::s(s)));
        }
    }
    J::obj(vec![("const", J::obj(v))])
}

fn collect_consts<'tcx>(
    cx: &Cx<'tcx>,
    tenv: ty::TypingEnv<'tcx>,
    rv: &Rvalue<'tcx>,
    out: &mut Vec<String>,
    vals: &mut Vec<i128>,
) {
    let mut one = |op: &Operand<'tcx>| {
        if let Operand::Constant(c) = op {
            let cty = c.const_.ty();
            if let ty::FnDef(d, _) = cty.kind() {
                out.push(names::pretty(cx.tcx, *d));
                return;
            }
            out.push(names::no_trim(|| format!("{}", c.const_)));
            if cty.is_integral() || cty.is_bool() || cty.is_char() {
                if let Some(si) = c.const_.try_eval_scalar_int(cx.tcx, tenv) {
                    let size = si.size();
                    let bits = si.to_bits(size);
                    vals.push(if cty.is_signed() { size.sign_extend(bits) as i128 } else { bits as i128 });
                }
            }
        }
    };
    match rv {
        Rvalue::Use(op, ..) | Rvalue::Cast(_, op, _) | Rvalue::UnaryOp(_, op) | Rvalue::Repeat(op, _) => one(op),
        Rvalue::BinaryOp(_, b) => {
            one(&b.0);
            one(&b.1);
        }
        Rvalue::Aggregate(kind, ops) => {
            for o in ops.iter() {
                one(o);
            }
            if let mir::AggregateKind::Adt(adid, vi, ..) = &**kind {
                let def = cx.tcx.adt_def(*adid);
                out.push(format!("{}::{}", names::pretty(cx.tcx, *adid), def.variant(*vi).name));
            }
        }
        _ => {}
    }
}

fn fn_ref_j<'tcx>(
    cx: &Cx<'tcx>,
    tenv: ty::TypingEnv<'tcx>,
    fdid: DefId,
    args: ty::GenericArgsRef<'tcx>,
) -> J {
    let tcx = cx.tcx;
    let mut f: Vec<(&'static str, J)> = Vec::new();
    f.push(("path", J::s(names::pretty(tcx, fdid))));
    f.push(("name", J::s(tcx.opt_item_name(fdid).map(|s| s.to_string()).unwrap_or_default())));
    if let Some(tr) = tcx.trait_of_assoc(fdid) {
        f.push(("trait", J::s(names::pretty(tcx, tr))));
        if args.len() > 0 {
            if let Some(t0) = args.get(0).and_then(|a| a.as_type()) {
                f.push(("self_ty", J::s(names::ty_str(tcx, t0))));
            }
        }
    }
    if let Some(imp) = tcx.impl_of_assoc(fdid) {
        let st = tcx.type_of(imp).instantiate_identity().skip_norm_wip();
        f.push(("impl_self", J::s(names::self_ty_name(tcx, st))));
    }
    if matches!(tcx.def_kind(fdid), DefKind::Fn | DefKind::AssocFn) {
        if let Ok(Some(inst)) = ty::Instance::try_resolve(tcx, tenv, fdid, args) {
            let rd = inst.def_id();
            if rd != fdid {
                f.push(("resolved", J::s(names::pretty(tcx, rd))));
            }
        }
    }
    let targs: Vec<J> = args
        .iter()
        .filter_map(|a| a.as_type())
        .map(|t| J::s(names::ty_str(tcx, t)))
        .collect();
    if !targs.is_empty() {
        f.push(("targs", J::Arr(targs)));
    }
    J::obj(f)
}

fn callee_j<'tcx>(
    cx: &Cx<'tcx>,
    body: &mir::Body<'tcx>,
    tenv: ty::TypingEnv<'tcx>,
    func: &Operand<'tcx>,
) -> J {
    match func {
        Operand::Constant(c) => match c.const_.ty().kind() {
            ty::FnDef(fdid, args) => fn_ref_j(cx, tenv, *fdid, args),
            _ => J::obj(vec![("path", J::s("?const")), ("op", const_j(cx, tenv, c))]),
        },
        other => J::obj(vec![
            ("path", J::s("?indirect")),
            ("op", operand_j(cx, body, tenv, other)),
        ]),
    }
}

fn operand_j<'tcx>(
    cx: &Cx<'tcx>,
    body: &mir::Body<'tcx>,
    tenv: ty::TypingEnv<'tcx>,
    op: &Operand<'tcx>,
) -> J {
    match op {
        Operand::Copy(p) => J::obj(vec![("copy", place_j(cx, body, p))]),
        Operand::Move(p) => J::obj(vec![("move", place_j(cx, body, p))]),
        Operand::Constant(c) => const_j(cx, tenv, c),
        #[allow(unreachable_patterns)]
        _ => J::obj(vec![("other", J::s(format!("{:?}", op)))]),
    }
}

fn rvalue_j<'tcx>(
    cx: &Cx<'tcx>,
    body: &mir::Body<'tcx>,
    tenv: ty::TypingEnv<'tcx>,
    rv: &Rvalue<'tcx>,
) -> J {
    let tcx = cx.tcx;
    match rv {
        Rvalue::Use(op, ..) => {
            J::obj(vec![("k", J::s("use")), ("a", operand_j(cx, body, tenv, op))])
        }
        Rvalue::Ref(_, bk, p) => J::obj(vec![
            ("k", J::s("ref")),
            ("mut", J::Bool(matches!(bk, mir::BorrowKind::Mut { .. }))),
            ("place", place_j(cx, body, p)),
        ]),
        Rvalue::RawPtr(_, p) => {
            J::obj(vec![("k", J::s("rawptr")), ("place", place_j(cx, body, p))])
        }
        Rvalue::CopyForDeref(p) => J::obj(vec![
            ("k", J::s("use")),
            ("a", J::obj(vec![("copy", place_j(cx, body, p))])),
        ]),
        Rvalue::Cast(kind, op, t) => J::obj(vec![
            ("k", J::s("cast")),
            ("ck", J::s(format!("{:?}", kind))),
            ("a", operand_j(cx, body, tenv, op)),
            ("ty", J::s(names::ty_str(tcx, *t))),
        ]),
        Rvalue::BinaryOp(op, b) => J::obj(vec![
            ("k", J::s("bin")),
            ("op", J::s(format!("{:?}", op))),
            ("a", operand_j(cx, body, tenv, &b.0)),
            ("b", operand_j(cx, body, tenv, &b.1)),
        ]),
        Rvalue::UnaryOp(op, a) => J::obj(vec![
            ("k", J::s("un")),
            ("op", J::s(format!("{:?}", op))),
            ("a", operand_j(cx, body, tenv, a)),
        ]),
        Rvalue::Discriminant(p) => {
            let pty = p.ty(&body.local_decls, tcx).ty;
            let mut v = vec![("k", J::s("discr")), ("place", place_j(cx, body, p))];
            if let ty::Adt(def, _) = pty.kind() {
                v.push(("adt", J::s(names::pretty(tcx, def.did()))));
                if def.is_enum() {
                    let vs: Vec<J> = def
                        .discriminants(tcx)
                        .map(|(vi, d)| {
                            J::Arr(vec![
                                J::Num(d.val as i128),
                                J::s(def.variant(vi).name.to_string()),
                            ])
                        })
                        .collect();
                    v.push(("variants", J::Arr(vs)));
                }
            }
            J::obj(v)
        }
        Rvalue::Aggregate(kind, ops) => {
            let mut v = vec![("k", J::s("agg"))];
            match &**kind {
                mir::AggregateKind::Adt(adid, vi, _, _, _) => {
                    let def = tcx.adt_def(*adid);
                    let var = def.variant(*vi);
                    v.push(("adt", J::s(names::pretty(tcx, *adid))));
                    v.push(("variant", J::s(var.name.to_string())));
                    let fs: Vec<J> =
                        var.fields.iter().map(|f| J::s(f.name.to_string())).collect();
                    v.push(("fields", J::Arr(fs)));
                }
                mir::AggregateKind::Tuple => v.push(("tuple", J::Bool(true))),
                mir::AggregateKind::Array(_) => v.push(("array", J::Bool(true))),
                mir::AggregateKind::Closure(cdid, _) => {
                    v.push(("closure", J::s(names::pretty(tcx, *cdid))));
                    // the captured variables' names, in the order of the operands
                    if let Some(l) = cdid.as_local() {
                        let caps: Vec<J> = tcx
                            .closure_captures(l)
                            .iter()
                            .map(|c| J::s(c.var_ident.name.to_string()))
                            .collect();
                        v.push(("captures", J::Arr(caps)));
                    }
                }
                other => v.push(("otherkind", J::s(format!("{:?}", other)))),
            }
            let o: Vec<J> = ops.iter().map(|o| operand_j(cx, body, tenv, o)).collect();
            v.push(("ops", J::Arr(o)));
            J::obj(v)
        }
        Rvalue::Repeat(op, _) => {
            J::obj(vec![("k", J::s("repeat")), ("a", operand_j(cx, body, tenv, op))])
        }
        other => J::obj(vec![("k", J::s("other")), ("str", J::s(format!("{:?}", other)))]),
    }
}
